"""Unit checks of the canonical forms (sa/canon.py): each case is (name, source, predicate on the canonical source).  The negative
cases matter most: a normal form that fires when its side condition does not hold would *hide* a behavioural difference from
every rule that reads the canonical form.  Run: python3-vt -m sa.canon_selftest  (exit 0 = all hold)."""
from __future__ import annotations

import ast
import sys
import textwrap

from . import canon


def C(src, **kw):
    tree = ast.parse(textwrap.dedent(src))
    canon.normalize_module(tree)
    fns = [n for n in tree.body if isinstance(n, ast.FunctionDef)]
    fn = next((n for n in fns if n.name == "f"), fns[0])
    table = {n.name: n for n in fns if n.name.startswith("_")}
    kw.setdefault("resolve", lambda name: table.get(name))
    for parent in ast.walk(tree):
        for child in ast.iter_child_nodes(parent):
            child._parent = parent
    f, _ = canon.inline_helpers(fn, kw.get("resolve"))
    f = canon.inline_aliases(f)
    return ast.unparse(f)


CASES = []


def case(name, src, must=(), must_not=()):
    CASES.append((name, src, must, must_not))


# --- alias inlining ------------------------------------------------------------------------------------------------------------
case("alias: plain", """
def f(d, k):
    v = d[k]
    return v.x + v.y
""", must=["d[k].x + d[k].y"])
case("alias: NOT across a store into the aliased container", """
def f(d, k):
    old = d[k]
    d[k] = 0
    return old
""", must=["old = d[k]", "return old"])
case("alias: NOT across a mutator call", """
def f(lst):
    n = len(lst)
    lst.append(1)
    return n
""", must=["n = len(lst)", "return n"])
case("alias: NOT when a free name is rebound before the use", """
def f(a, i):
    x = a[i]
    i = i + 1
    return x + i
""", must=["x = a[i]"])
case("alias: loop idiom, index advanced after the last use", """
def f(a, n):
    i = 0
    out = []
    while i < n:
        cur = a[i]
        out.append(cur.v)
        i += 1
    return out
""", must=["out.append(a[i].v)"])
case("alias: NOT when mutated inside a loop that also uses the alias", """
def f(d, ks):
    first = d[0]
    for k in ks:
        d[0] = first + k
        g(first)
    return d
""", must=["first = d[0]"])
# --- single-use temporaries -----------------------------------------------------------------------------------------------------
case("single-use: impure value into the next statement", """
def f(p):
    h = p.next()
    return conv(h)
""", must=["return conv(p.next())"])
case("single-use: NOT past another impure call evaluated first", """
def f(p):
    h = p.next()
    return pair(p.next(), h)
""", must=["h = p.next()"])
case("single-use: NOT into a conditional branch", """
def f(p, c):
    h = p.next()
    return h if c else 0
""", must=["h = p.next()"])
case("single-use: NOT into a short-circuited operand", """
def f(p, c):
    h = p.next()
    return c and h
""", must=["h = p.next()"])
case("single-use: NOT into a comprehension", """
def f(p, xs):
    h = p.next()
    return [h + x for x in xs]
""", must=["h = p.next()"])
case("single-use: NOT into a while test", """
def f(p):
    h = p.next()
    while h:
        g()
""", must=["h = p.next()"])
# --- rename apart ---------------------------------------------------------------------------------------------------------------
case("rename-apart: independent reuse", """
def f(d, a, b):
    for x in a:
        t = d[x]
        g(t)
    for y in b:
        t = d[y]
        h(t)
""", must=["g(d[x])", "h(d[y])"])
case("rename-apart: NOT a loop-carried value", """
def f(xs):
    prev = 0
    for x in xs:
        g(prev)
        prev = x
    return prev
""", must=["g(prev)", "prev = x"])
case("rename-apart: NOT branches that merge", """
def f(c):
    if c:
        t = 1
    else:
        t = 2
    return t
""", must=["return t"])
# --- loops into comprehensions -------------------------------------------------------------------------------------------------
case("loop->listcomp: filter with continue", """
def f(xs):
    out = []
    for x in xs:
        if not ok(x):
            continue
        out.append(g(x))
    return out
""", must=["[g(x) for x in xs if", "ok(x)"])
case("loop->listcomp: NOT with a second effect in the body", """
def f(xs, log):
    out = []
    for x in xs:
        log.write(x)
        out.append(x)
    return out
""", must=["out.append(x)"])
case("loop->listcomp: NOT with break", """
def f(xs):
    out = []
    for x in xs:
        if bad(x):
            break
        out.append(x)
    return out
""", must=["break", "out.append(x)"])
case("loop->listcomp: NOT when the accumulator is read in the loop", """
def f(xs):
    out = []
    for x in xs:
        if x not in out:
            out.append(x)
    return out
""", must=["out.append(x)"])
case("loop->dictcomp", """
def f(r):
    d = {}
    for j in range(2, len(r)):
        d[str(r[j])] = j - 1
    return d
""", must=["{str(r[j]): j - 1 for j in range(2, len(r))}"])
case("loop->listcomp: NOT when acc is used between init and loop", """
def f(xs):
    out = []
    g(out)
    for x in xs:
        out.append(x)
    return out
""", must=["out = []", "out.append(x)"])
# --- found flags ----------------------------------------------------------------------------------------------------------------
case("found-flag: eliminated", """
def f(xs):
    found = False
    hits = []
    for i, x in enumerate(xs):
        if p(x):
            found = True
            hits.append(i)
    if found:
        return hits
    return None
""", must=["hits = [i", "if hits:"], must_not=["found"])
case("found-flag: NOT when the flag is also set elsewhere", """
def f(xs, force):
    found = False
    hits = []
    for i, x in enumerate(xs):
        if p(x):
            found = True
            hits.append(i)
    if force:
        found = True
    if found:
        return hits
    return None
""", must=["found = True", "if found:"])
case("found-flag: NOT when an append has no flag next to it", """
def f(xs):
    found = False
    hits = []
    for i, x in enumerate(xs):
        if p(x):
            found = True
            hits.append(i)
        if q(x):
            hits.append(-i)
    if found:
        return hits
    return None
""", must=["if found:"])
# --- module-level normal forms --------------------------------------------------------------------------------------------------
case("tuple assignment: split", """
def f(x):
    a, b = x[0], 0
    return a + b
""", must_not=["a, b ="])
case("tuple assignment: NOT a swap", """
def f(a, b):
    a, b = b, a
    return a - b
""", must=["a, b = (b, a)"])
case("kwargs -> positional for np.insert", """
def f(x):
    return np.insert(arr=np.cumsum(x), obj=0, values=0)
""", must=["np.insert(np.cumsum(x), 0, 0)"])
case("kwargs: NOT when a keyword is unknown", """
def f(x):
    return np.insert(arr=x, where=0, values=0)
""", must=["arr=x"])
case("update -> item assignment", """
def f(d, k, v):
    d.update({k: v})
    return d
""", must=["d[k] = v"])
case("update: NOT with several impure items (evaluation order)", """
def f(d):
    d.update({g(): h(), i(): j()})
    return d
""", must=["d.update("])
case("local def -> lambda (predicate stays named)", """
def f(sizes, cons):
    def in_progress(c):
        return sizes[c.id] < c.sample_size
    return [c for c in cons if in_progress(c)]
""", must=["in_progress = lambda c: sizes[c.id] < c.sample_size"])
case("local value helper expanded", """
def f(prefix, n):
    def mk(k):
        return Rec(id=prefix + str(k))
    out = []
    for i in range(n):
        out.append(mk(i + 1))
    return out
""", must=["Rec(id=prefix + str(i + 1))"], must_not=["def mk", "mk ="])
case("star list", """
def f(m):
    return np.array([0, *m['c']])
""", must=["[0] + list(m['c'])"])
case("dict(zip) over a literal key list", """
def f(n):
    cols = ['a', 'b']
    return dict(zip(cols, [None, n]))
""", must=["{'a': None, 'b': n}"])
case("dict(zip): NOT when the key list is rebound", """
def f(n, c):
    cols = ['a', 'b']
    if c:
        cols = ['x', 'y']
    return dict(zip(cols, [None, n]))
""", must=["dict(zip(cols"])
# --- unroll / forward -----------------------------------------------------------------------------------------------------------
case("literal loop unrolled", """
def f(a, b, k):
    for s in (a, b):
        s.sort(key=k)
""", must=["a.sort(key=k)", "b.sort(key=k)"])
case("literal loop: NOT when the variable is used afterwards", """
def f(a, b, k):
    for s in (a, b):
        s.sort(key=k)
    return s
""", must=["for s in (a, b)"])
case("unpack forwarded", """
def f(o, t, d):
    p, h = t.test(d)
    o.p = p
    o.h = h
""", must=["o.p, o.h = t.test(d)"])
case("unpack: NOT when a temporary is used again", """
def f(o, t, d):
    p, h = t.test(d)
    o.p = p
    o.h = h
    return p
""", must=["p, h = t.test(d)"])

# --- nastier negatives ----------------------------------------------------------------------------------------------------------
case("loop->listcomp: NOT when the loop variable is read after the loop", """
def f(xs):
    out = []
    for x in xs:
        out.append(g(x))
    return out, x
""", must=["out.append(g(x))"])
case("loop->dictcomp: NOT when the loop variable is read after the loop", """
def f(xs):
    d = {}
    for x in xs:
        d[x] = 1
    return d, x
""", must=["d[x] = 1"])
case("alias: NOT across an augmented store to the aliased attribute", """
def f(o):
    c = o.count
    o.count += 1
    return c
""", must=["c = o.count", "return c"])
case("alias: NOT across del", """
def f(d, k):
    v = d[k]
    del d[k]
    return v
""", must=["v = d[k]"])
case("alias: NOT when the list name is extended in place by +=", """
def f(a, b):
    n = len(a)
    a += b
    return n
""", must=["n = len(a)"])
case("helper: NOT expanded when a global of the helper is shadowed by a caller local", """
SCALE = 2
def _h(x):
    return x * SCALE
def f(v):
    SCALE = 10
    return _h(v) + SCALE
""", must=["_h(v)"])
case("helper: returns not in tail position are left alone", """
def f(xs):
    def first(ys):
        for y in ys:
            if y:
                return y
        return None
    r = first(xs)
    return r
""", must=["first(xs)"])
case("helper: defaults are bound", """
def f(v):
    def sc(x, k=3):
        return x * k
    return sc(v)
""", must=["v * 3"])
case("found-flag: NOT when the flag is read inside the loop", """
def f(xs):
    found = False
    hits = []
    for i, x in enumerate(xs):
        if found:
            g()
        if p(x):
            found = True
            hits.append(i)
    if found:
        return hits
    return None
""", must=["found = True"])
case("single-use: a right-hand side is evaluated before any target is stored (so this inlining is right)", """
def f(d, k):
    v = d[k]
    d[k], w = 0, v
    return w
""", must=["d[k], w = (0, d[k])"])
case("loop->listcomp: NOT when the loop variable is read after an enclosing block", """
def f(xs, c):
    if c:
        out = []
        for x in xs:
            out.append(x)
    return x
""", must=["out.append(x)"])
case("found-flag: NOT when the flag's value (not its truth) is used", """
def f(xs):
    found = False
    hits = []
    for i, x in enumerate(xs):
        if p(x):
            found = True
            hits.append(i)
    return found
""", must=["found = True", "return found"])
case("helper: an impure argument is evaluated once, before the body", """
def f(p):
    def twice(v):
        return v + v
    return twice(p.next())
""", must_not=["p.next() + p.next()"])
case("helper: statements are NOT hoisted over an impure evaluation", """
def f(p, q):
    def h(v):
        q.log(v)
        return v
    return p.next() + h(1)
""", must=["h(1)"])
case("flag loop with break -> any(generator)", """
def f(x):
    neg = False
    for v in x:
        if v < 0:
            neg = True
            break
    if neg:
        raise ValueError()
    return x
""", must=["any((v < 0 for v in x))"])
case("flag loop without break -> any([list])", """
def f(x):
    hit = False
    for v in x:
        if p(v):
            hit = True
    return hit
""", must=["any([p(v) for v in x])"])
case("flag loop: NOT when the loop does something else as well", """
def f(x, log):
    hit = False
    for v in x:
        if p(v):
            hit = True
            log.append(v)
    return hit
""", must=["for v in x"])
case("iterator-protocol while loop -> for", """
def f(xs, p):
    done = object()
    it = iter(xs)
    v = next(it, done)
    while v is not done:
        v.n = p.next()
        v = next(it, done)
    return True
""", must=["for v in xs:", "v.n = p.next()"], must_not=["while"])
case("iterator-protocol loop: NOT when the body continues (the advance would be skipped)", """
def f(xs):
    done = object()
    it = iter(xs)
    v = next(it, done)
    while v is not done:
        if v.skip:
            continue
        g(v)
        v = next(it, done)
""", must=["while v is not done"])
case("itemgetter call -> subscript", """
def f(rows, order):
    pick = itemgetter('sel')
    rows.sort(key=lambda r: pick(order[r.id]))
""", must=["order[r.id]['sel']"], must_not=["pick"])
case("explicit running maximum -> max()", """
def f(xs):
    best = 0
    for x in xs:
        if x > best:
            best = x
    return best
""", must=["best = max(best, x)"])
case("explicit max with else", """
def f(a, b):
    if b > a:
        m = b
    else:
        m = a
    return m
""", must=["max(a, b)"])
case("explicit max: NOT with >= (a tie would pick the other operand)", """
def f(a, b):
    if b >= a:
        m = b
    else:
        m = a
    return m
""", must=["if b >= a"])
case("roll by one then set the first entry -> insert and drop the last", """
def f(lamj, lam):
    lamj = np.roll(lamj, 1)
    lamj[0] = lam
    return lamj
""", must=["np.insert(lamj, 0, lam)[0:-1]"])
case("roll: NOT by another shift", """
def f(a, v):
    a = np.roll(a, 2)
    a[0] = v
    return a
""", must=["np.roll(a, 2)"])


# --- wave-6 / benign-5 normal forms ---------------------------------------------------------------------------------------------
case("annotated assignment in a function", """
def f(x):
    S: list = [1, 2]
    t: float = x + 1
    return S, t
""", must=["[1, 2]", "x + 1"], must_not=[": list", ": float"])
case("generator unpacked over literals", """
def f(N, S, j, t, eta):
    m, etas = ((N * mean - S) / (N - j + 1) for mean in (t, eta))
    return m + etas
""", must=["(N * t - S) / (N - j + 1)", "(N * eta - S) / (N - j + 1)"], must_not=[" for mean in"])
case("generator unpack: NOT with a filter", """
def f(a, b):
    p, q = (v + 1 for v in (a, b) if v)
    return p, q
""", must=["for v in (a, b) if v"])
case("generator unpack: NOT over impure elements", """
def f(g):
    p, q = (v + 1 for v in (g(), g()))
    return p, q
""", must=["for v in (g(), g())"])
case("**local dict written out", """
def f(N, u, mean, polling):
    common = dict(N=N, u=u, eta=mean)
    return T(a=1, **common) if polling else T(a=2, **common)
""", must=["T(a=1, N=N, u=u, eta=mean)", "T(a=2, N=N, u=u, eta=mean)"], must_not=["**common"])
case("**local dict: NOT when the dict is also read", """
def f(N, u):
    common = dict(N=N, u=u)
    g(common)
    return T(**common)
""", must=["**common"])
case("**local dict: NOT when a value is re-bound before the use", """
def f(N, u):
    common = {"N": N, "u": u}
    N = N + 1
    return T(**common)
""", must=["**common"])
case("itertools.count loop", """
def f(xs, done):
    for i in itertools.count():
        if not done(i):
            break
        xs.append(i)
    return xs
""", must=["while done(i)", "i += 1"], must_not=["itertools.count"])
case("itertools.count loop: NOT with continue in the body", """
def f(xs, done, skip):
    for i in itertools.count():
        if not done(i):
            break
        if skip(i):
            continue
        xs.append(i)
    return xs
""", must=["itertools.count"])
case("enumerate over a slice", """
def f(c):
    return {str(cand): rank for rank, cand in enumerate(c[2:], start=1)}
""", must=["range(2, len(c))", "str(c[_jrank])", "_jrank - 1"], must_not=["enumerate"])
case("enumerate: NOT over an arbitrary iterable", """
def f(it):
    return {str(v): k for k, v in enumerate(it, start=1)}
""", must=["enumerate(it, start=1)"])
case("roll then slice store", """
def f(v, minsd):
    sdj = np.roll(np.maximum(np.sqrt(v), minsd), 1)
    sdj[0:2] = 1
    return sdj
""", must=["np.insert(", "[0:-1]", "sdj[1:2] = 1"], must_not=["np.roll"])


# --- benign-6 forms ------------------------------------------------------------------------------------------------------------------
case("record read field by field", """
_Rec = namedtuple("_Rec", ["a", "b"])
def f(x, y):
    r = _Rec(x + 1, b=y)
    return r.a * r.b
""", must=["(x + 1) * y"], must_not=["_Rec("])
case("record: NOT when it is passed on", """
_Rec2 = namedtuple("_Rec2", "a b")
def f(x, y, g):
    r = _Rec2(x, y)
    g(r)
    return r.a
""", must=["_Rec2(x, y)"])
case("record from a starred call", """
_Rec3 = namedtuple("_Rec3", ["S", "m"])
def f(self, x):
    r = _Rec3(*self.sjm(x))
    return r.m
""", must=["self.sjm(x)[1]"], must_not=["_Rec3("])
case("callable object is its lambda", """
class _Key:
    def __init__(self, order):
        self.order = order
    def __call__(self, card):
        return self.order[card.id]["k"]
def f(xs, order):
    xs.sort(key=_Key(order))
""", must=["key=lambda card: order[card.id]['k']"], must_not=["_Key("])
case("callable object: NOT with other methods", """
class _Key2:
    def __init__(self, order):
        self.order = order
    def __call__(self, card):
        return self.order[card.id]
    def reset(self):
        self.order = {}
def f(xs, order):
    xs.sort(key=_Key2(order))
""", must=["_Key2(order)"])
case("beta reduction through a helper", """
def _each(xs, draw):
    for x in xs:
        x.n = draw()
    return True
def f(xs, prng):
    return _each(xs, lambda: h(prng.next()))
""", must=["x__h", ".n = h(prng.next())"], must_not=["draw"])
case("list(map(F, X))", """
def f(xs):
    return list(map(itemgetter(0), sorted(xs)))
""", must=["[_em[0] for _em in sorted(xs)]"])
case("debug raise is assert", """
def f(a, b):
    if __debug__:
        if not len(a) == len(b):
            raise AssertionError("differ")
    return a
""", must=["assert len(a) == len(b), 'differ'"])
case("try / except AttributeError is getattr", """
def f(self):
    try:
        p = self.rate
    except AttributeError:
        p = 0.1
    return p * 2
""", must=["getattr(self, 'rate', 0.1) * 2"])
case("try / except: NOT for another exception", """
def f(self):
    try:
        p = self.rate
    except KeyError:
        p = 0.1
    return p
""", must=["except KeyError"])
case("dict(zip(map(f, S[lo:]), range(a, len(S) - k)))", """
def f(c):
    return dict(zip(map(str, c[2:]), range(1, len(c) - 1)))
""", must=["{str(c[_jz]): _jz - 1 for _jz in range(2, len(c))}"])
case("dict(zip(..)): NOT when the lengths differ", """
def f(c):
    return dict(zip(map(str, c[2:]), range(1, len(c))))
""", must=["dict(zip("])
case("helper result renamed into the target", """
def _make(n):
    out = []
    for i in range(n):
        out.append(i)
    return out
def f(n):
    xs = _make(n)
    return xs
""", must=["for i__h", "in range(n)]"], must_not=["out__h", "_make("])

def _spec_case():
    """keyword-only defaults nobody passes: specialised; one that is passed somewhere: left alone"""
    import ast as _a, textwrap as _t
    src = _t.dedent("""
    def f(x, *, callback=None, by="k", seed=1):
        if callback is not None:
            callback(x)
        return sorted(x, key=lambda e: e[by]), seed
    def g(y):
        return f(y, seed=3)
    """)
    tree = _a.parse(src)
    n = canon.specialise_kwonly_defaults([tree])
    out = _a.unparse(tree)
    ok = n == 2 and "callback(x)" not in out and "e['k']" in out and "seed" in out.split("return")[1]
    return ok, out

def main():
    bad = 0
    for name, src, must, must_not in CASES:
        try:
            out = C(src)
        except Exception as e:  # a crash is a failure of the form, not of the case
            print(f"[FAIL] {name}: {type(e).__name__}: {e}")
            bad += 1
            continue
        flat = out.replace("\n", " ")
        miss = [m for m in must if m not in out and m not in flat]
        extra = [m for m in must_not if m in out]
        if miss or extra:
            bad += 1
            print(f"[FAIL] {name}: missing {miss} unexpected {extra}\n{textwrap.indent(out, '      ')}")
    ok, out = _spec_case()
    if not ok:
        bad += 1
        print(f"[FAIL] keyword-only defaults specialised package-wide:\n{textwrap.indent(out, '      ')}")
    print(f"canon selftest: {len(CASES) + 1 - bad} ok, {bad} failed of {len(CASES) + 1} cases")
    return 1 if bad else 0


# --- match statements ----------------------------------------------------------------------------------------------------------
case("match: constants, or-pattern, wildcard", """
def f(self):
    match self.kind:
        case K.A:
            u = 1
        case K.B | K.C:
            u = 2
        case _:
            raise ValueError(self.kind)
    return u
""", must=["if self.kind == K.A", "elif self.kind in [K.B, K.C]", "else:"], must_not=["match "])
case("match: string constants without default", """
def f(d, out):
    match d["t"]:
        case "W":
            out.append(1)
        case "I":
            out.append(2)
    return out
""", must=["if d['t'] == 'W'", "elif d['t'] == 'I'"], must_not=["match "])
case("match: NOT with a guard", """
def f(x, y):
    match x:
        case 1 if y:
            return 1
        case _:
            return 2
""", must=["match x"])
case("match: NOT with a capture pattern", """
def f(x):
    match x:
        case 1:
            return 1
        case other:
            return other
""", must=["match x"])
case("match: NOT with a class / sequence pattern", """
def f(x):
    match x:
        case [a, b]:
            return a
        case _:
            return 0
""", must=["match x"])
case("match: NOT with an impure subject", """
def f(it):
    match next(it):
        case 1:
            return 1
        case _:
            return 0
""", must=["match next(it)"])
# --- helpers with positional-only parameters and tuple results --------------------------------------------------------------------
case("helper: positional-only parameters", """
def _h(a, b, /):
    return a - b
def f(x, y):
    return _h(x, y) * 2
""", must=["(x - y) * 2"], must_not=["_h("])
case("helper: tuple result unpacked", """
def _h(s):
    p = s.split("_")
    q = p[0] + p[1]
    return q, p
def f(s):
    k, parts = _h(s)
    return k + parts[0]
""", must_not=["_h("], must=["s.split('_')"])

if __name__ == "__main__":
    sys.exit(main())
