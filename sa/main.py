"""CLI: ./check <ID> [--tier quick|thorough] [--replay <file>]"""
from __future__ import annotations

import argparse
import importlib
import json
import os
import sys

from .core import run_property, AnalysisError

PROPS = ["C%02d" % i for i in range(1, 21)]


def load(pid):
    try:
        return importlib.import_module(f"sa.props.{pid.lower()}")
    except ModuleNotFoundError:
        return None


def main(argv=None):
    ap = argparse.ArgumentParser()
    ap.add_argument("pid")
    ap.add_argument("--tier", default=os.environ.get("VERIF_TIER", "quick"), choices=["quick", "thorough"])
    ap.add_argument("--replay")
    ap.add_argument("--no-selftest", action="store_true")
    a = ap.parse_args(argv)
    pid = a.pid.upper()
    mod = load(pid)
    if mod is None:
        print(f"ANALYSIS-ERROR property={pid}: no checker built for this property")
        return 2

    def fn(chk):
        mod.run(chk)
        if a.tier == "thorough" and hasattr(mod, "thorough"):
            mod.thorough(chk)

    if a.replay:
        want = json.loads(open(a.replay).read())

        def fn_replay(chk):
            fn(chk)
            chk.obs = [o for o in chk.obs if (o.rule, o.where, o.key) == (want["rule"], want["where"], want["key"])]
            if not chk.obs:
                raise AnalysisError("the replayed obligation no longer exists on this tree")

        return run_property(pid, fn_replay, a.tier)
    rc = run_property(pid, fn, a.tier)
    if rc == 0 and a.tier == "thorough" and not a.no_selftest:
        try:
            from . import selftest
        except ImportError:
            return rc
        rc2 = selftest.run_for(pid)
        if rc2 != 0:
            return rc2
    return rc


class _Tolerant:
    """stdout that survives a reader closing the pipe early (`./check C01 | head -1`): the verdict is the exit code, which must not
    turn into a traceback because the last lines of the report had nowhere to go"""

    def __init__(self, f):
        self.f, self.dead = f, False

    def write(self, x):
        if self.dead:
            return len(x)
        try:
            return self.f.write(x)
        except BrokenPipeError:
            self.dead = True
            return len(x)

    def flush(self):
        if not self.dead:
            try:
                self.f.flush()
            except BrokenPipeError:
                self.dead = True

    def __getattr__(self, k):
        return getattr(self.f, k)


if __name__ == "__main__":
    sys.stdout = _Tolerant(sys.stdout)
    rc = main()
    try:
        sys.stdout.flush()
    except Exception:
        pass
    if sys.stdout.dead:
        os.dup2(os.open(os.devnull, os.O_WRONLY), 1)  # keep the interpreter's own final flush quiet
    sys.exit(rc)
