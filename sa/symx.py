"""E4/E5: expressions and small loop-free functions as algebra.

An AST expression (or a loop-free function body: assignments, if/elif/else,
return, raise, assert) is translated -- by if-conversion, without executing
anything -- into a *term*:

    Val  ::=  E(sympy expression over opaque symbols)
           |  I(cond, Val, Val)                 (if-then-else)
           |  T(tuple of Val)
    cond ::=  True | False | ('atom', key) | ('not', c) | ('and', cs) | ('or', cs)

Opaque sub-expressions (attribute chains, subscripts, calls of functions the
checker does not inline) become sympy Symbols / applied undefined Functions
named by their canonical text, so that renaming of *locals*, introduction of
temporaries and reordering of commutative operands do not change the term.

Two terms are compared by exhaustive enumeration of the truth assignments of
their atoms (a finite table) and, per row, by `sympy.cancel(a - b) == 0`
(polynomial identity of rational functions).  No solver, no path search.
"""
from __future__ import annotations

import ast
import itertools
from fractions import Fraction

import sympy as sp

from .core import AnalysisError, norm
from .canon import _dc


class Unsupported(AnalysisError):
    pass


# resolver for private helper functions (set by core.run_property from the repository index):
# callee text -> ast.FunctionDef or None
AUTO_INLINE = None


# ---------------------------------------------------------------------------
# values


class E:
    __slots__ = ("e",)

    def __init__(self, e):
        self.e = e

    def __repr__(self):
        return f"E({sp.sstr(self.e)})"


class I:
    __slots__ = ("c", "a", "b")

    def __init__(self, c, a, b):
        self.c, self.a, self.b = c, a, b

    def __repr__(self):
        return f"I({fmt_cond(self.c)} ? {self.a!r} : {self.b!r})"


class T:
    __slots__ = ("items",)

    def __init__(self, items):
        self.items = tuple(items)

    def __repr__(self):
        return f"T{self.items!r}"


class Raise:
    """Pseudo-value: the path raises."""

    __slots__ = ("kind",)

    def __init__(self, kind):
        self.kind = kind

    def __repr__(self):
        return f"Raise({self.kind})"


def fmt_cond(c):
    if c is True or c is False:
        return str(c)
    if c[0] == "atom":
        return c[1]
    if c[0] == "not":
        return "~" + fmt_cond(c[1])
    sep = " & " if c[0] == "and" else " | "
    return "(" + sep.join(fmt_cond(x) for x in c[1]) + ")"


def c_not(c):
    if c is True:
        return False
    if c is False:
        return True
    if c[0] == "not":
        return c[1]
    return ("not", c)


def c_and(*cs):
    out = []
    for c in cs:
        if c is False:
            return False
        if c is True:
            continue
        out.append(c)
    if not out:
        return True
    if len(out) == 1:
        return out[0]
    return ("and", tuple(out))


def c_or(*cs):
    out = []
    for c in cs:
        if c is True:
            return True
        if c is False:
            continue
        out.append(c)
    if not out:
        return False
    if len(out) == 1:
        return out[0]
    return ("or", tuple(out))


def cond_atoms(c, acc=None):
    if acc is None:
        acc = set()
    if c is True or c is False:
        return acc
    if c[0] == "atom":
        acc.add(c[1])
    elif c[0] == "not":
        cond_atoms(c[1], acc)
    else:
        for x in c[1]:
            cond_atoms(x, acc)
    return acc


def eval_cond(c, row):
    if c is True or c is False:
        return c
    if c[0] == "atom":
        return row[c[1]]
    if c[0] == "not":
        return not eval_cond(c[1], row)
    if c[0] == "and":
        return all(eval_cond(x, row) for x in c[1])
    return any(eval_cond(x, row) for x in c[1])


def eval_cond3(c, known):
    """three-valued: the value of c when only the atoms in `known` are decided (None = not determined)"""
    if c is True or c is False:
        return c
    if c[0] == "atom":
        return known.get(c[1])
    if c[0] == "not":
        v = eval_cond3(c[1], known)
        return None if v is None else not v
    vals = [eval_cond3(x, known) for x in c[1]]
    if c[0] == "and":
        return False if any(v is False for v in vals) else (None if any(v is None for v in vals) else True)
    return True if any(v is True for v in vals) else (None if any(v is None for v in vals) else False)


def val_atoms(v, acc=None):
    if acc is None:
        acc = set()
    if isinstance(v, I):
        cond_atoms(v.c, acc)
        val_atoms(v.a, acc)
        val_atoms(v.b, acc)
    elif isinstance(v, T):
        for x in v.items:
            val_atoms(x, acc)
    return acc


def eval_val(v, row):
    """Leaf of a term under a truth assignment of its atoms."""
    while isinstance(v, I):
        v = v.a if eval_cond(v.c, row) else v.b
    if isinstance(v, T):
        return tuple(eval_val(x, row) for x in v.items)
    if isinstance(v, Raise):
        return v
    return v.e


DICT_ATTRIBUTES = {"votes"}  # attributes that hold a plain dict by the class's contract (CVR.votes)


def lift(f, *vals):
    """Apply f to the leaves, distributing over if-then-else."""
    for i, v in enumerate(vals):
        if isinstance(v, I):
            a = lift(f, *vals[:i], v.a, *vals[i + 1 :])
            b = lift(f, *vals[:i], v.b, *vals[i + 1 :])
            return I(v.c, a, b)
        if isinstance(v, Raise):
            return v
    return f(*vals)


def S(name):
    return sp.Symbol(name)


def map_e(v, f):
    if isinstance(v, I):
        return I(v.c, map_e(v.a, f), map_e(v.b, f))
    if isinstance(v, T):
        return T([map_e(x, f) for x in v.items])
    if isinstance(v, E):
        return E(f(v.e))
    return v


def sname(e) -> str:
    return sp.sstr(e)


# ---------------------------------------------------------------------------
# translator

_CMP = {ast.Lt: "lt", ast.Gt: "gt", ast.LtE: "le", ast.GtE: "ge", ast.Eq: "eq", ast.NotEq: "ne",
        ast.In: "in", ast.NotIn: "notin", ast.Is: "is", ast.IsNot: "isnot"}


class Tx:
    """Translate expressions / loop-free bodies into terms.

    env        name -> Val (locals); unknown names become symbols of that name
    inline     {'canonical callee text': ast.FunctionDef or ast.Lambda} single-return
               helpers to inline (e.g. 'CVR.as_vote')
    boolean    set of canonical symbol names that are known to hold genuine
               booleans (documented flags); int(b) of those is 1/0
    """

    def __init__(self, env=None, inline=None, boolean=(), aliases=None, opaque_calls=True):
        self.env = dict(env or {})
        self.inline = dict(inline or {})
        self.boolean = set(boolean)
        self.aliases = dict(aliases or {})  # symbol-name prefix rewrites
        self.opaque_calls = opaque_calls
        self.asserts = []
        self.guards = []
        self.depth = 0
        self.post = None
        self.signatures = {}
        self.skip_calls = False
        self.effects = []

    # -- helpers --------------------------------------------------------
    def _sym(self, name):
        name = self._alias(name)
        return S(name)

    def _alias(self, name):
        for k, v in self.aliases.items():
            if name == k:
                return v
            if name.startswith(k + ".") or name.startswith(k + "["):
                return v + name[len(k):]
        return name

    def child(self, env=None):
        t = Tx(self.env if env is None else env, self.inline, self.boolean, self.aliases, self.opaque_calls)
        t.depth = self.depth
        t.asserts = self.asserts
        t.guards = self.guards
        t.post = self.post
        t.signatures = self.signatures
        t.skip_calls = self.skip_calls
        t.effects = self.effects
        t.forward_stores = getattr(self, "forward_stores", False)
        return t

    # -- conditions -----------------------------------------------------
    def truthy(self, v):
        """Val -> cond."""
        if isinstance(v, I):
            return c_or(c_and(v.c, self.truthy(v.a)), c_and(c_not(v.c), self.truthy(v.b)))
        if isinstance(v, Raise):
            raise Unsupported("truthiness of a raising path")
        if isinstance(v, T):
            return bool(v.items)
        e = v.e
        if e is sp.true or e == sp.S.One and False:
            return True
        if isinstance(e, bool):
            return bool(e)
        if e.is_Number:
            return bool(e != 0)
        if isinstance(e, sp.Symbol) and e.name in ("True", "False", "None"):
            return e.name == "True"
        return ("atom", "truthy(" + sname(e) + ")")

    def cond(self, node):
        if isinstance(node, ast.BoolOp):
            parts = [self.cond(v) for v in node.values]
            return c_and(*parts) if isinstance(node.op, ast.And) else c_or(*parts)
        if isinstance(node, ast.UnaryOp) and isinstance(node.op, ast.Not):
            return c_not(self.cond(node.operand))
        if isinstance(node, ast.Compare):
            left = self.expr(node.left)
            parts = []
            if len(node.ops) == 1 and isinstance(node.ops[0], (ast.In, ast.NotIn)) and \
                    isinstance(node.comparators[0], (ast.List, ast.Tuple, ast.Set)):
                # membership in a literal collection: a disjunction of equalities
                alts = [self._cmp(ast.Eq, left, self.expr(e)) for e in node.comparators[0].elts]
                c = c_or(*alts) if alts else False
                return c if isinstance(node.ops[0], ast.In) else c_not(c)
            for op, right_n in zip(node.ops, node.comparators):
                if isinstance(op, (ast.In, ast.NotIn)) and isinstance(right_n, ast.Call) and isinstance(right_n.func, ast.Attribute) \
                        and right_n.func.attr == "keys" and not right_n.args and not right_n.keywords:
                    right_n = right_n.func.value  # `k in d.keys()` is `k in d`
                right = self.expr(right_n)
                parts.append(self._cmp(type(op), left, right))
                left = right
            return c_and(*parts)
        if isinstance(node, ast.Call) and isinstance(node.func, ast.Name) and node.func.id == "bool" \
                and len(node.args) == 1:
            return self.cond(node.args[0])
        if isinstance(node, ast.NamedExpr):
            v = self.expr(node.value)
            self.env[node.target.id] = v
            return self.truthy(v)
        if isinstance(node, ast.Constant) and isinstance(node.value, bool):
            return node.value
        if isinstance(node, ast.IfExp):
            c = self.cond(node.test)
            return c_or(c_and(c, self.cond(node.body)), c_and(c_not(c), self.cond(node.orelse)))
        return self.truthy(self.expr(node))

    def _cmp(self, op, a, b):
        if isinstance(a, I):
            return c_or(c_and(a.c, self._cmp(op, a.a, b)), c_and(c_not(a.c), self._cmp(op, a.b, b)))
        if isinstance(b, I):
            return c_or(c_and(b.c, self._cmp(op, a, b.a)), c_and(c_not(b.c), self._cmp(op, a, b.b)))
        if isinstance(b, T) and not b.items and op in (ast.In, ast.NotIn) and not isinstance(a, (T, Raise)):
            return op is ast.NotIn  # nothing is a member of the empty tuple / list
        if isinstance(a, (T, Raise)) or isinstance(b, (T, Raise)):
            raise Unsupported("comparison of tuple/raise")
        k = _CMP[op]
        x, y = a.e, b.e
        if k in ("is", "isnot"):
            if sname(y) == "None":
                c = ("atom", f"isnone({sname(x)})")
            else:
                c = ("atom", "eq(" + ",".join(sorted([sname(x), sname(y)])) + ")")
            return c if k == "is" else c_not(c)
        if k in ("in", "notin"):
            c = ("atom", f"in({sname(x)},{sname(y)})")
            return c if k == "in" else c_not(c)
        if k in ("eq", "ne") and "None" in (sname(x), sname(y)):
            # `x == None` is `x is None` (for objects that do not override __eq__: the repository compares nodes and plain values)
            other = x if sname(y) == "None" else y
            c = ("atom", f"isnone({sname(other)})")
            return c if k == "eq" else c_not(c)
        if k in ("eq", "ne"):
            d = sp.cancel(x - y) if _arith(x) and _arith(y) else None
            if d is not None and d.is_Number:
                c = bool(d == 0)
            else:
                c = ("atom", "eq(" + ",".join(sorted([sname(x), sname(y)])) + ")")
            return c if k == "eq" else c_not(c)
        # orderings, all expressed through lt (total order, NaN-free: trusted)
        if k == "gt":
            x, y, k = y, x, "lt"
        if k == "ge":
            x, y, k = y, x, "le"
        d = sp.cancel(x - y) if _arith(x) and _arith(y) else None
        if d is not None and d.is_Number:
            return bool(d < 0) if k == "lt" else bool(d <= 0)
        if k == "lt":
            return ("atom", f"lt({sname(x)},{sname(y)})")
        return c_not(("atom", f"lt({sname(y)},{sname(x)})"))

    # -- expressions ----------------------------------------------------
    def expr(self, node):
        m = getattr(self, "x_" + type(node).__name__, None)
        if m is None:
            raise Unsupported(f"expression kind {type(node).__name__}: {norm(node)[:80]}")
        v = m(node)
        if self.post is not None and isinstance(node, (ast.Call, ast.Subscript, ast.Attribute)):
            v = map_e(v, self.post)
        return v

    def x_Constant(self, n):
        v = n.value
        if isinstance(v, bool):
            return E(sp.Integer(1 if v else 0))  # True == 1, False == 0 in every arithmetic/comparison use
        if isinstance(v, int):
            return E(sp.Integer(v))
        if isinstance(v, float):
            return E(sp.Rational(Fraction(str(v))))
        if v is None:
            return E(S("None"))
        if isinstance(v, str):
            return E(S(repr(v)))
        raise Unsupported(f"constant {v!r}")

    def x_Name(self, n):
        if n.id in self.env:
            return self.env[n.id]
        return E(self._sym(n.id))

    def x_NamedExpr(self, n):
        v = self.expr(n.value)
        self.env[n.target.id] = v
        return v

    def x_Attribute(self, n):
        base = self.expr(n.value)

        def f(b):
            if isinstance(b, T):
                raise Unsupported("attribute of tuple")
            if isinstance(b.e, sp.Symbol):
                nm = b.e.name + "." + n.attr
                if getattr(self, "forward_stores", False) and ("@" + nm) in self.env:
                    return self.env["@" + nm]  # what this very function stored there earlier on the path
                return E(self._sym(nm))
            return E(sp.Function("attr:" + n.attr)(b.e))

        return lift(f, base)

    def x_Subscript(self, n):
        base = self.expr(n.value)
        if isinstance(n.slice, ast.Slice):
            sl = n.slice
            parts = [self.expr(p) if p is not None else E(S("None")) for p in (sl.lower, sl.upper, sl.step)]
            return lift(lambda b, lo, hi, st: E(sp.Function("slice")(b.e, lo.e, hi.e, st.e)), base, *parts)
        idx = self.expr(n.slice)

        def f(b, i):
            if isinstance(b, T):
                if isinstance(i, E) and i.e.is_Integer:
                    return b.items[int(i.e)]
                if not b.items:
                    return Raise("IndexError")  # nothing can be taken out of the empty tuple (a guarded branch prunes this)
                raise Unsupported("tuple index")
            if isinstance(i, T):
                i = E(S("(" + ",".join(repr(x) for x in i.items) + ")"))
            if isinstance(b.e, sp.Symbol):
                return E(self._sym(f"{b.e.name}[{sname(i.e)}]"))
            return E(sp.Function("index")(b.e, i.e))

        return lift(f, base, idx)

    def x_Tuple(self, n):
        return T([self.expr(e) for e in n.elts])

    x_List = x_Tuple

    def x_UnaryOp(self, n):
        if isinstance(n.op, ast.Not):
            c = self.cond(n)
            return _bool_val(c)
        v = self.expr(n.operand)
        if isinstance(n.op, ast.USub):
            return lift(lambda a: E(-a.e), v)
        if isinstance(n.op, ast.UAdd):
            return v
        raise Unsupported("unary op")

    def x_BinOp(self, n):
        a, b = self.expr(n.left), self.expr(n.right)
        op = type(n.op)

        def f(x, y):
            if isinstance(x, T) or isinstance(y, T):
                if op is ast.Add and isinstance(x, T) and isinstance(y, T):
                    return T(x.items + y.items)
                raise Unsupported("arithmetic on tuple")
            x, y = x.e, y.e
            if op is ast.Add:
                if _is_str(x) or _is_str(y):
                    return E(_cat(x, y))
                return E(x + y)
            if op is ast.Sub:
                return E(x - y)
            if op is ast.Mult:
                return E(x * y)
            if op is ast.Div:
                return E(x / y)
            if op is ast.Pow:
                return E(x ** y)
            if op is ast.FloorDiv:
                return E(sp.Function("floordiv")(x, y))
            if op is ast.Mod:
                return E(sp.Function("mod")(x, y))
            raise Unsupported(f"binary op {op.__name__}")

        return lift(f, a, b)

    def x_IfExp(self, n):
        c = self.cond(n.test)
        if c is True:
            return self.expr(n.body)
        if c is False:
            return self.expr(n.orelse)
        return I(c, self.expr(n.body), self.expr(n.orelse))

    def x_Compare(self, n):
        return _bool_val(self.cond(n))

    def x_BoolOp(self, n):
        # value-level and/or: only supported when used as a boolean
        return _bool_val(self.cond(n))

    def x_JoinedStr(self, n):
        parts = []
        for v in n.values:
            if isinstance(v, ast.Constant):
                parts.append(E(S(repr(v.value))))
            else:
                inner = self.expr(v.value)
                parts.append(lift(lambda q: q if _is_str(q.e) else E(sp.Function("str")(q.e)), inner))
        return lift(lambda *ps: E(_cat(*[p.e for p in ps])), *parts)

    def x_Lambda(self, n):
        return E(S("lambda:" + norm(n)))

    def x_ListComp(self, n):
        return E(S("comp:" + norm(n)))

    x_GeneratorExp = x_ListComp
    x_SetComp = x_ListComp
    x_DictComp = x_ListComp

    def x_Dict(self, n):
        return E(S("dict:" + norm(n)))

    def x_Set(self, n):
        return E(S("set:" + norm(n)))

    # -- calls ----------------------------------------------------------
    def callee_name(self, f):
        if isinstance(f, ast.Name):
            if f.id in self.env:
                v = self.env[f.id]
                if isinstance(v, E) and isinstance(v.e, sp.Symbol):
                    return v.e.name
            return self._alias(f.id)
        if isinstance(f, ast.Attribute):
            b = self.expr(f.value)
            if isinstance(b, E) and isinstance(b.e, sp.Symbol):
                return self._alias(b.e.name + "." + f.attr)
            if isinstance(b, E):
                return "(" + sname(b.e) + ")." + f.attr
        raise Unsupported(f"callee {norm(f)[:60]}")

    def x_Call(self, n):
        name = self.callee_name(n.func)
        short = name.split(".")[-1]
        args = [self.expr(a) for a in n.args]
        kws = {k.arg: self.expr(k.value) for k in n.keywords if k.arg}
        # builtins with algebraic meaning
        if name in ("int", "float") and len(args) == 1 and not kws:
            a_node = n.args[0]
            if isinstance(a_node, (ast.Compare, ast.BoolOp)) or (
                isinstance(a_node, ast.UnaryOp) and isinstance(a_node.op, ast.Not)
            ) or (isinstance(a_node, ast.Call) and isinstance(a_node.func, ast.Name) and a_node.func.id == "bool"):
                return _bool_val(self.cond(a_node), num=True)
            v = args[0]

            def f(x):
                if isinstance(x.e, sp.Symbol) and x.e.name in self.boolean:
                    return I(("atom", "truthy(" + x.e.name + ")"), E(sp.Integer(1)), E(sp.Integer(0)))
                if isinstance(x.e, sp.Symbol) and x.e.name in ("True", "False"):
                    return E(sp.Integer(1 if x.e.name == "True" else 0))
                if x.e.is_Number:
                    return E(sp.Integer(int(x.e))) if name == "int" else x
                return E(sp.Function(name)(x.e))

            return lift(f, v)
        if name == "bool" and len(args) == 1:
            return _bool_val(self.cond(n.args[0]))
        if name in ("min", "max", "numpy.minimum", "numpy.maximum", "np.minimum", "np.maximum") and len(args) == 2:
            g = sp.Min if "min" in short else sp.Max
            return lift(lambda x, y: E(g(x.e, y.e)), *args)
        if name in ("np.max", "np.min", "numpy.max", "numpy.min", "max", "min") and len(args) == 1 \
                and isinstance(args[0], T):
            g = sp.Min if "min" in short else sp.Max
            return lift(lambda *xs: E(g(*[x.e for x in xs])), *args[0].items)
        if name in ("np.sqrt", "math.sqrt", "numpy.sqrt") and len(args) == 1:
            return lift(lambda x: E(sp.sqrt(x.e)), args[0])
        if name in ("abs", "np.abs") and len(args) == 1:
            return lift(lambda x: E(sp.Abs(x.e)), args[0])
        if name == "str" and len(args) == 1:
            return lift(lambda x: E(sp.Function("str")(x.e)), args[0])
        if short == "get" and isinstance(n.func, ast.Attribute) and len(n.args) in (1, 2) and not n.keywords \
                and isinstance(n.func.value, ast.Attribute) and n.func.value.attr in DICT_ATTRIBUTES:
            # d.get(k, default) on an attribute that is a plain dict by the class's contract: d[k] if k in d else default
            c = self.cond(ast.Compare(left=n.args[0], ops=[ast.In()], comparators=[n.func.value]))
            there = self.expr(ast.Subscript(value=n.func.value, slice=n.args[0], ctx=ast.Load()))
            absent = args[1] if len(args) == 2 else E(S("None"))
            return I(c, there, absent) if c not in (True, False) else (there if c else absent)
        if name in self.inline:
            return self._inline(self.inline[name], n, args, kws, name)
        if AUTO_INLINE is not None and self.depth < 4:
            target = AUTO_INLINE(name)
            if target is not None:
                # a private helper (typically extracted by a refactoring): look through it when its body is in the dialect
                try:
                    return self._inline(target, n, args, kws, name)
                except Unsupported:
                    pass
        if not self.opaque_calls:
            raise Unsupported(f"call {name}")
        if name in self.signatures:
            # bind keyword arguments to the callee's parameter order (resolved callee)
            params = self.signatures[name]
            flat = []
            for i_p, p_name in enumerate(params):
                if i_p < len(args):
                    flat.append(args[i_p])
                elif p_name in kws:
                    flat.append(kws[p_name])
                else:
                    flat.append(E(S(f"<default:{p_name}>")))
            extra = [k for k in kws if k not in params]
            for k in sorted(extra):
                flat.append(kws[k])
            kwnames = sorted(extra)
            while flat and isinstance(flat[-1], E) and isinstance(flat[-1].e, sp.Symbol) \
                    and flat[-1].e.name.startswith("<default:"):
                flat.pop()
        else:
            flat = list(args) + [kws[k] for k in sorted(kws)]
            kwnames = sorted(kws)
        fn_name = name + ("{" + ",".join(kwnames) + "}" if kwnames else "")

        def f(*xs):
            parts = []
            for x in xs:
                if isinstance(x, T):
                    parts.append(S("(" + ",".join(sname(eval_val(i, {})) if not val_atoms(i) else repr(i) for i in x.items) + ")"))
                else:
                    parts.append(x.e)
            return E(sp.Function(fn_name)(*parts))

        return lift(f, *flat)

    def _inline(self, target, call, args, kws, name):
        if self.depth > 6:
            raise Unsupported("inline depth")
        if isinstance(target, ast.Lambda):
            params, body_fn = target.args, ("expr", target.body)
        else:
            params, body_fn = target.args, ("body", target.body)
        names = [a.arg for a in params.args]
        # methods: drop self/cls when called through an attribute
        if names and names[0] in ("self", "cls") and isinstance(call.func, ast.Attribute):
            recv = self.expr(call.func.value) if names[0] == "self" else E(S(name.rsplit(".", 1)[0]))
            env = {names[0]: recv}
            names = names[1:]
        else:
            env = {}
        defaults = params.defaults
        dmap = {}
        for nme, d in zip(names[len(names) - len(defaults):], defaults) if defaults else []:
            dmap[nme] = d
        for i, nme in enumerate(names):
            if i < len(args):
                env[nme] = args[i]
            elif nme in kws:
                env[nme] = kws[nme]
            elif nme in dmap:
                env[nme] = self.child({}).expr(dmap[nme])
            else:
                raise Unsupported(f"inline {name}: missing arg {nme}")
        t = self.child(env)
        t.depth = self.depth + 1
        if body_fn[0] == "expr":
            return t.expr(body_fn[1])
        r = t.block(body_fn[1])
        if r is None:
            return E(S("None"))
        return r

    # -- statements (if-conversion) ---------------------------------------
    def block(self, stmts):
        """Translate a statement list; returns the returned Val, or None when
        control falls through (self.env is then updated)."""
        for i, st in enumerate(stmts):
            if isinstance(st, ast.Expr):
                if isinstance(st.value, ast.Constant):
                    continue  # docstring
                if isinstance(st.value, ast.Call):
                    cn = norm(st.value.func)
                    if cn in ("print", "warnings.warn", "warn"):
                        continue
                    if self.skip_calls:
                        self.effects.append(st)
                        continue
                raise Unsupported(f"expression statement {norm(st)[:60]}")
            if isinstance(st, ast.Assert):
                self.asserts.append(st)
                continue
            if isinstance(st, ast.Pass):
                continue
            if isinstance(st, ast.Return):
                return self.expr(st.value) if st.value is not None else E(S("None"))
            if isinstance(st, ast.Raise):
                kind = norm(st.exc.func) if isinstance(st.exc, ast.Call) else (norm(st.exc) if st.exc else "re")
                return Raise(kind)
            if isinstance(st, ast.Assign):
                v = self.expr(st.value)
                for tgt in st.targets:
                    self._assign(tgt, v)
                continue
            if isinstance(st, ast.AnnAssign) and st.value is not None:
                self._assign(st.target, self.expr(st.value))
                continue
            if isinstance(st, ast.AugAssign) and isinstance(st.target, ast.Name):
                cur = self.x_Name(ast.Name(id=st.target.id, ctx=ast.Load()))
                new = self.x_BinOp(ast.BinOp(left=ast.Name(id=st.target.id, ctx=ast.Load()), op=st.op, right=st.value))
                self.env[st.target.id] = new
                continue
            if isinstance(st, ast.If):
                c = self.cond(st.test)
                rest = stmts[i + 1:]
                if c is True:
                    return self.block(list(st.body) + rest)
                if c is False:
                    return self.block(list(st.orelse) + rest)
                if rest and any(isinstance(n, ast.Return) for n in ast.walk(st)) and not getattr(self, "_no_dup", False):
                    # a return somewhere inside a branch that otherwise falls through: give each branch the rest of the block as
                    # its continuation, so that every path of the branch ends in the block's own ending
                    nested_partial = False
                    probe = self.child(dict(self.env))
                    probe.guards, probe.effects, probe.asserts = [], [], []
                    probe._no_dup = False
                    try:
                        for br in (st.body, st.orelse):
                            p2 = probe.child(dict(self.env))
                            p2.guards, p2.effects, p2.asserts = [], [], []
                            p2.block(list(br))
                    except Unsupported as e:
                        nested_partial = "falls off the end" in str(e)
                    if nested_partial:
                        dup = ast.If(test=st.test, body=list(st.body) + rest, orelse=list(st.orelse) + rest)
                        ast.copy_location(dup, st)
                        return self.block([dup])
                ta = self.child(dict(self.env))
                g0 = len(self.guards)
                ra = ta.block(list(st.body))
                for gi in range(g0, len(self.guards)):
                    self.guards[gi] = c_or(c_not(c), self.guards[gi])
                tb = self.child(dict(self.env))
                g0 = len(self.guards)
                rb = tb.block(list(st.orelse))
                for gi in range(g0, len(self.guards)):
                    self.guards[gi] = c_or(c, self.guards[gi])
                if ra is not None and rb is not None:
                    return I(c, ra, rb)
                if ra is None and rb is None:
                    keys = set(ta.env) | set(tb.env)
                    for k in keys:
                        va, vb = ta.env.get(k), tb.env.get(k)
                        if va is vb:
                            if va is not None:
                                self.env[k] = va
                            continue
                        if va is None:
                            va = E(S("unbound:" + k))
                        if vb is None:
                            vb = E(S("unbound:" + k))
                        self.env[k] = I(c, va, vb)
                    continue
                # exactly one branch returns: the other continues with the rest
                if ra is not None:
                    r_rest = tb.block(rest)
                    if r_rest is None:
                        if isinstance(ra, Raise):
                            # a guard: whoever gets past this point had c false
                            self.guards.append(c_not(c))
                            self.env = tb.env
                            return None
                        raise Unsupported("path falls off the end after partial return")
                    return I(c, ra, r_rest)
                r_rest = ta.block(rest)
                if r_rest is None:
                    if isinstance(rb, Raise):
                        self.guards.append(c)
                        self.env = ta.env
                        return None
                    raise Unsupported("path falls off the end after partial return")
                return I(c, r_rest, rb)
            if isinstance(st, ast.With):
                r = self.block(list(st.body))
                if r is not None:
                    return r
                continue
            if isinstance(st, ast.Try) and len(st.handlers) == 1 and not st.orelse and not st.finalbody:
                # try: A  except ..: B  --  whether A raises is not modelled: an opaque atom selects between the handler and
                # the body (so a term that needs the distinction can only agree with a specification when both agree with it)
                rest = stmts[i + 1:]
                c = ("atom", f"raises({norm(st.body[0])[:60]})")
                ta = self.child(dict(self.env))
                ra = ta.block(list(st.body) + rest)
                tb = self.child(dict(self.env))
                rb = tb.block(list(st.handlers[0].body) + rest)
                if ra is not None and rb is not None:
                    return I(c, rb, ra)
                raise Unsupported("try statement that does not return on both paths")
            raise Unsupported(f"statement kind {type(st).__name__} at line {st.lineno}")
        return None

    def _assign(self, tgt, v):
        if isinstance(tgt, ast.Name):
            self.env[tgt.id] = v
        elif isinstance(tgt, (ast.Tuple, ast.List)):
            if isinstance(v, T) and len(v.items) == len(tgt.elts):
                for t, x in zip(tgt.elts, v.items):
                    self._assign(t, x)
            else:
                for k, t in enumerate(tgt.elts):
                    self._assign(t, lift(lambda b, k=k: E(S(f"({sname(b.e)})[{k}]")), v) if not isinstance(v, T) else v.items[k])
        elif isinstance(tgt, (ast.Attribute, ast.Subscript)):
            # stores to attributes/items are recorded under their canonical name
            key = self.expr(ast.fix_missing_locations(_as_load(tgt)))
            if isinstance(key, E) and isinstance(key.e, sp.Symbol):
                self.env["@" + key.e.name] = v
            else:
                raise Unsupported("store target")
        else:
            raise Unsupported("assignment target")


def _as_load(node):
    import copy

    n = _dc(node)
    for x in ast.walk(n):
        if hasattr(x, "ctx"):
            x.ctx = ast.Load()
    return n


def _cat(*parts):
    """String concatenation as one flat, ordered application: a + b + c, f"{a}{b}{c}" and
    "".join-free variants all become cat(a, b, c); adjacent literals are fused."""
    flat = []
    for p in parts:
        if isinstance(p, sp.core.function.AppliedUndef) and p.func.__name__ == "cat":
            flat.extend(p.args)
        else:
            flat.append(p)
    fused = []
    for p in flat:
        if fused and _is_lit(p) and _is_lit(fused[-1]):
            fused[-1] = S(repr(_lit(fused[-1]) + _lit(p)))
        else:
            fused.append(p)
    fused = [p for p in fused if not (_is_lit(p) and _lit(p) == "")]
    if len(fused) == 1:
        return fused[0]
    return sp.Function("cat")(*fused)


def _is_lit(e):
    return isinstance(e, sp.Symbol) and e.name[:1] in "'\""


def _lit(e):
    import ast as _a

    return _a.literal_eval(e.name)


def _is_str(e):
    return isinstance(e, sp.Symbol) and e.name[:1] in "'\"" or (
        isinstance(e, sp.core.function.AppliedUndef) and e.func.__name__ in ("cat", "str"))


def _arith(e):
    return not any(isinstance(s, sp.Symbol) and s.name[:1] in "'\"" for s in e.free_symbols)


def _bool_val(c, num=True):
    one, zero = sp.Integer(1), sp.Integer(0)
    if c is True:
        return E(one)
    if c is False:
        return E(zero)
    return I(c, E(one), E(zero))


# ---------------------------------------------------------------------------
# comparison of terms


def _order_constraints(atoms):
    """Automatic consistency constraints among lt/eq atoms over the same pair."""
    import re

    cons = []
    pairs = {}
    for a in atoms:
        m = re.match(r"^(lt|eq)\((.*)\)$", a)
        if not m:
            continue
        inner = m.group(2)
        parts = _split_top(inner)
        if len(parts) != 2:
            continue
        key = frozenset(parts)
        pairs.setdefault(key, []).append(a)
    for key, group in pairs.items():
        if len(group) > 1:
            cons.append(tuple(group))  # at most one of them true
    # x == K1 and x == K2 for distinct constants K1, K2 cannot both hold
    by_var = {}
    for a in atoms:
        m = re.match(r"^eq\((.*)\)$", a)
        if not m:
            continue
        parts = _split_top(m.group(1))
        if len(parts) != 2:
            continue
        consts = [p for p in parts if _is_constant_name(p)]
        others = [p for p in parts if not _is_constant_name(p)]
        if len(consts) == 1 and len(others) == 1:
            by_var.setdefault(others[0], []).append(a)
    for var, group in by_var.items():
        if len(group) > 1:
            cons.append(tuple(group))
    return cons


def _is_constant_name(p):
    """quoted strings, numbers, None/True/False, ALL_CAPS class constants (Audit.AUDIT_TYPE.POLLING)."""
    import re

    if p[:1] in "'\"" or re.match(r"^-?[0-9./]+$", p) or p in ("None", "True", "False"):
        return True
    last = p.split(".")[-1]
    return bool(re.match(r"^[A-Z][A-Z0-9_]*$", last)) and "(" not in p


def _split_top(s):
    out, depth, cur = [], 0, ""
    for ch in s:
        if ch in "([":
            depth += 1
        elif ch in ")]":
            depth -= 1
        if ch == "," and depth == 0:
            out.append(cur)
            cur = ""
        else:
            cur += ch
    out.append(cur)
    return [p.strip() for p in out]


def rows(atoms, constraints=(), extra_atmost_one=()):
    atoms = sorted(atoms)
    if len(atoms) > 14:
        raise Unsupported(f"decision table too large ({len(atoms)} atoms)")
    amo = list(_order_constraints(atoms)) + list(extra_atmost_one)
    for bits in itertools.product((False, True), repeat=len(atoms)):
        row = dict(zip(atoms, bits))
        if any(sum(1 for a in g if row.get(a)) > 1 for g in amo):
            continue
        if any(not c(row) for c in constraints):
            continue
        yield row


def same_leaf(a, b):
    if isinstance(a, Raise) or isinstance(b, Raise):
        return isinstance(a, Raise) and isinstance(b, Raise)
    if isinstance(a, tuple) or isinstance(b, tuple):
        return isinstance(a, tuple) and isinstance(b, tuple) and len(a) == len(b) and all(
            same_leaf(x, y) for x, y in zip(a, b))
    if a == b:
        return True
    try:
        d = sp.cancel(sp.together(a - b))
        if d == 0:
            return True
        return is_zero(d)
    except Exception:
        return False


def equivalent(v1, v2, constraints=(), atmost_one=()):
    """Exhaustive table comparison.  Returns (ok, n_rows, counterexample)."""
    atoms = val_atoms(v1) | val_atoms(v2)
    n = 0
    for row in rows(atoms, constraints, atmost_one):
        n += 1
        a, b = eval_val(v1, row), eval_val(v2, row)
        if not same_leaf(a, b):
            return False, n, {"row": {k: v for k, v in row.items()}, "code": _s(a), "spec": _s(b)}
    return True, n, None


def leaves(v, constraints=(), atmost_one=()):
    """All (row, leaf) of a term: the finite value set of a piecewise term."""
    atoms = val_atoms(v)
    out = []
    for row in rows(atoms, constraints, atmost_one):
        out.append((row, eval_val(v, row)))
    return out


def _s(x):
    if isinstance(x, tuple):
        return [_s(i) for i in x]
    if isinstance(x, Raise):
        return repr(x)
    return sp.sstr(x)


def prune(v, ctx=None):
    """Remove if-then-else nodes whose condition is decided by an enclosing one."""
    ctx = dict(ctx or {})
    if isinstance(v, I):
        c = v.c
        if c is True:
            return prune(v.a, ctx)
        if c is False:
            return prune(v.b, ctx)
        key, pol = (c[1], True) if c[0] == "atom" else ((c[1][1], False) if c[0] == "not" and c[1][0] == "atom" else (None, None))
        if key is not None and key in ctx:
            return prune(v.a if ctx[key] == pol else v.b, ctx)
        if key is not None:
            a = prune(v.a, {**ctx, key: pol})
            b = prune(v.b, {**ctx, key: not pol})
        else:
            a, b = prune(v.a, ctx), prune(v.b, ctx)
        return I(c, a, b)
    if isinstance(v, T):
        return T([prune(x, ctx) for x in v.items])
    return v


def parse_expr(src: str):
    return ast.parse(src, mode="eval").body


IS_ZERO_SIMPLIFY_LIMIT = 250


def show(e, n=200) -> str:
    """text of an expression for a report: simplified when that is cheap"""
    try:
        if sp.count_ops(e) <= 60:  # (a report text is not worth minutes of sympy: larger expressions are shown as they are)
            e = sp.simplify(e)
    except Exception:
        pass
    return sp.sstr(e)[:n]


def is_zero(e) -> bool:
    try:
        d = sp.cancel(sp.together(e))
        if d == 0:
            return True
        if sp.count_ops(d) > IS_ZERO_SIMPLIFY_LIMIT:
            # sympy's simplify is super-linear on large non-zero residues (a changed tree can produce them); the polynomial
            # normal form above has already decided rational identities, so a large residue is reported as "not shown zero"
            return sp.expand(sp.numer(d)) == 0
        return sp.simplify(d) == 0
    except Exception:
        return False
