"""Core plumbing: repository index (E1), obligations, evidence, known findings.

Exit-code contract (see DESIGN.md §3):
  0  every obligation discharged (KNOWN-FINDING lines may have been printed)
  1  at least one obligation refuted and not listed as an open known finding;
     one line `VIOLATION property=<ID> replay=<path>` per violation
  2  ANALYSIS-ERROR: the checker could not decide (anchor vanished, construct
     outside the modelled dialect, instance count below the confirmed minimum,
     internal exception).  Never a VIOLATION line.
"""
from __future__ import annotations

import ast
import json
import os
import re
import sys
import time
import traceback
from dataclasses import dataclass, field
from pathlib import Path

VERIF = Path(__file__).resolve().parent.parent
REPO = Path(os.environ.get("VERIF_REPO", "/repo"))

EXPECTED_MODULES = (
    "shangrla/core/NonnegMean.py",
    "shangrla/core/Audit.py",
    "shangrla/core/IRVVisualisationUtils.py",
    "shangrla/formats/Dominion.py",
    "shangrla/formats/Hart.py",
    "shangrla/raire/raire.py",
    "shangrla/raire/raire_utils.py",
    "shangrla/raire/sample_estimator.py",
    "shangrla/raire/simp_assertions.py",
)


class AnalysisError(Exception):
    """The checker cannot decide (never reported as a violation)."""


def norm(node) -> str:
    """Whitespace-free normalised source text of an AST node (for keys/reports)."""
    if isinstance(node, str):
        return re.sub(r"\s+", "", node)
    return re.sub(r"\s+", "", ast.unparse(node))


class Module:
    def __init__(self, rel: str, path: Path, tree=None):
        self.rel = rel
        self.path = path
        self.src = path.read_text(encoding="utf-8")
        self.tree = tree if tree is not None else ast.parse(self.src, filename=str(path))
        from .canon import normalize_module
        self.normalised = normalize_module(self.tree)  # keyword -> positional for the callees read positionally, a, b = x, y split, ...
        for parent in ast.walk(self.tree):
            for child in ast.iter_child_nodes(parent):
                child._parent = parent  # type: ignore[attr-defined]
        self.defs: dict[str, ast.AST] = {}
        self._collect(self.tree, "")

    def _collect(self, node, prefix):
        for child in getattr(node, "body", []):
            if isinstance(child, (ast.FunctionDef, ast.AsyncFunctionDef, ast.ClassDef)):
                q = prefix + child.name
                self.defs[q] = child
                if isinstance(child, ast.ClassDef):
                    self._collect(child, q + ".")


class Index:
    """E1: the parsed program.  Anchors are looked up by qualified name; a
    vanished anchor is an AnalysisError (exit 2), never a silent pass."""

    def __init__(self, repo: Path = REPO):
        self.repo = Path(repo)
        self.modules: dict[str, Module] = {}
        pk = self.repo / "shangrla"
        if not pk.is_dir():
            raise AnalysisError(f"no shangrla package under {self.repo}")
        raw = {}
        for p in sorted(pk.rglob("*.py")):
            rel = str(p.relative_to(self.repo))
            try:
                raw[rel] = (p, ast.parse(p.read_text(encoding="utf-8"), filename=str(p)))
            except SyntaxError as e:
                raise AnalysisError(f"cannot parse {rel}: {e}")
        # whole-package step first: keyword-only parameters nobody in the package passes are their defaults
        from .canon import specialise_kwonly_defaults
        self.specialised = specialise_kwonly_defaults([t for _, t in raw.values()])
        for rel, (p, t) in raw.items():
            self.modules[rel] = Module(rel, p, tree=t)
        missing = [m for m in EXPECTED_MODULES if m not in self.modules]
        if missing:
            raise AnalysisError(f"expected modules missing: {missing}")

    def module(self, rel: str) -> Module:
        if rel not in self.modules:
            raise AnalysisError(f"module {rel} not found")
        return self.modules[rel]

    def func(self, rel: str, qual: str) -> ast.FunctionDef:
        m = self.module(rel)
        n = m.defs.get(qual)
        if not isinstance(n, (ast.FunctionDef, ast.AsyncFunctionDef)):
            raise AnalysisError(f"anchor vanished: function {rel}:{qual}")
        return n

    def func_x(self, rel: str, qual: str) -> ast.FunctionDef:
        """the anchored function with calls to local and private helpers expanded in place (canon.inline_helpers)"""
        cache = self.__dict__.setdefault("_x_cache", {})
        if (rel, qual) not in cache:
            from .canon import inline_helpers
            res = self.__dict__.get("_x_res")
            if res is None:
                res = self.__dict__["_x_res"] = private_helper_resolver(self)
            cache[(rel, qual)] = inline_helpers(self.func(rel, qual), res)
        return cache[(rel, qual)][0]

    def has_func(self, rel: str, qual: str) -> bool:
        m = self.modules.get(rel)
        return bool(m) and isinstance(m.defs.get(qual), (ast.FunctionDef, ast.AsyncFunctionDef))

    def cls(self, rel: str, qual: str) -> ast.ClassDef:
        m = self.module(rel)
        n = m.defs.get(qual)
        if not isinstance(n, ast.ClassDef):
            raise AnalysisError(f"anchor vanished: class {rel}:{qual}")
        return n

    def methods(self, rel: str, cls: str):
        c = self.cls(rel, cls)
        return {n.name: n for n in c.body if isinstance(n, ast.FunctionDef)}

    def all_functions(self):
        for rel, m in self.modules.items():
            for q, n in m.defs.items():
                if isinstance(n, ast.FunctionDef):
                    yield rel, q, n


@dataclass
class Ob:
    rule: str
    where: str
    key: str
    ok: bool
    what: str
    line: int | None = None
    detail: dict = field(default_factory=dict)
    strength: str = "P"

    def as_dict(self):
        d = {
            "rule": self.rule,
            "where": self.where,
            "key": self.key,
            "obligation": self.what,
            "strength": self.strength,
            "verdict": "discharged" if self.ok else "refuted",
        }
        if self.line:
            d["line"] = self.line
        if self.detail:
            d["detail"] = self.detail
        return d


def _jsonable(x):
    if isinstance(x, dict):
        return {str(k): _jsonable(v) for k, v in x.items()}
    if isinstance(x, (list, tuple, set, frozenset)):
        return [_jsonable(v) for v in x]
    if isinstance(x, (str, int, float, bool)) or x is None:
        return x
    return str(x)


class Check:
    """Collects the obligations of one property run."""

    def __init__(self, pid: str, idx: Index, tier: str = "quick"):
        self.pid = pid
        self.idx = idx
        self.tier = tier
        self.obs: list[Ob] = []
        self.explanation: list[str] = []
        self.trusted: list[str] = []
        self.assumptions: list[str] = []
        self.functions: set[str] = set()
        self.call_sites: list[str] = []
        self.exhaustive = False
        self.notes: list[str] = []
        self.extra: dict = {}

    # -- recording ------------------------------------------------------
    def ob(self, rule, where, key, ok, what, /, node=None, strength="P", **detail):
        line = getattr(node, "lineno", None) if node is not None else detail.pop("line", None)
        self.obs.append(Ob(rule, where, str(key), bool(ok), what, line, _jsonable(detail), strength))
        self.functions.add(where)
        return bool(ok)

    def need(self, rule, found, minimum, what):
        """Instance-count guard: below the confirmed minimum is analysis-broken."""
        if found < minimum:
            raise AnalysisError(
                f"{rule}: found {found} instance(s) of '{what}', confirmed minimum is {minimum}"
            )

    def explain(self, text):
        self.explanation.append(text)

    def trust(self, *texts):
        for t in texts:
            if t not in self.trusted:
                self.trusted.append(t)

    def assume(self, *texts):
        for t in texts:
            if t not in self.assumptions:
                self.assumptions.append(t)

    def fn(self, rel, qual, canonical=False, single_exit=False):
        if single_exit:
            cache = self.__dict__.setdefault("_se_cache", {})
            if (rel, qual) not in cache:
                from .canon import single_exit as _se
                cache[(rel, qual)] = _se(self.fn(rel, qual))
            return cache[(rel, qual)]
        if canonical:
            cache = self.__dict__.setdefault("_canon_cache", {})
            if (rel, qual) not in cache:
                from .canon import inline_aliases
                cache[(rel, qual)] = inline_aliases(self.fn(rel, qual))
            return cache[(rel, qual)]
        """the anchored function, with calls to local and private helpers expanded in place (canon.inline_helpers): a rule sees
        the same statements whether or not a maintainer has moved some of them into `_helper(...)`"""
        self.functions.add(f"{rel}:{qual}")
        raw = self.idx.func(rel, qual)
        key = (rel, qual)
        cache = self.__dict__.setdefault("_fn_cache", {})
        if key not in cache:
            self._binding_integrity(rel, qual, raw)
            from .canon import inline_helpers
            res = self.__dict__.get("_resolver")
            if res is None:
                res = self.__dict__["_resolver"] = private_helper_resolver(self.idx)
            f, log = inline_helpers(raw, res)
            for h in log:
                self.functions.add(f"{rel}:{qual} <- helper {h} (expanded)")
            cache[key] = f
        return cache[key]

    def fn_with(self, rel, qual, also, canonical=False):
        """like fn(), with the named *public* callees expanded as well: `also` maps the callee text as written at the call site
        (`CVR.prep_polling_sample`, `cls.prep_polling_sample`) to (rel, qual).  For rules whose statement is about what the
        function does, whoever's body the statements sit in."""
        from .canon import inline_helpers, inline_aliases
        key = (rel, qual, tuple(sorted(also.items())), canonical)
        cache = self.__dict__.setdefault("_fnw_cache", {})
        if key not in cache:
            self.fn(rel, qual)
            base = self.__dict__.get("_resolver") or private_helper_resolver(self.idx)
            extra = {}
            for txt, (r2, q2) in also.items():
                if self.idx.has_func(r2, q2):
                    self.fn(r2, q2)
                    extra[txt.replace(" ", "")] = self.idx.func(r2, q2)
            f, _ = inline_helpers(self.idx.func(rel, qual), lambda name: extra.get(name) or base(name))
            cache[key] = inline_aliases(f) if canonical else f
        return cache[key]

    # decorators that leave "calling the name runs this body with these arguments" intact
    _PLAIN_DECORATORS = {"staticmethod", "classmethod", "property", "abstractmethod", "override", "no_type_check", "final"}

    def _binding_integrity(self, rel, qual, raw):
        """R0, engine level: every rule reads the *body* of an anchored function.  That body is what runs when the name is called
        only if (a) no decorator wraps it (a cache, a vectoriser, a retry wrapper change what a call does, whatever the body
        says), (b) the name is not bound again later in the same scope, and (c) nothing in the package re-binds the attribute
        from outside (`Cls.name = ...`, `setattr(Cls, "name", ...)`)."""
        name = qual.rsplit(".", 1)[-1]
        owner = qual.rsplit(".", 1)[0] if "." in qual else None
        problems = []
        for d in raw.decorator_list:
            txt = ast.unparse(d)
            last = d.attr if isinstance(d, ast.Attribute) else d.id if isinstance(d, ast.Name) else None
            if last in self._PLAIN_DECORATORS or last in ("setter", "getter", "deleter"):
                continue
            problems.append(f"decorator @{txt} (line {d.lineno})")
        scope = getattr(raw, "_parent", None)
        for st in getattr(scope, "body", []) or []:
            if st is raw or getattr(st, "lineno", 0) < raw.lineno:
                continue
            bound = []
            if isinstance(st, (ast.Assign, ast.AnnAssign, ast.AugAssign)):
                tg = st.targets if isinstance(st, ast.Assign) else [st.target]
                for t in tg:
                    bound += [n.id for n in ast.walk(t) if isinstance(n, ast.Name) and isinstance(n.ctx, ast.Store)]
            elif isinstance(st, (ast.Import, ast.ImportFrom)):
                bound += [(a.asname or a.name).split(".")[0] for a in st.names]
            elif isinstance(st, ast.Delete):
                bound += [t.id for t in st.targets if isinstance(t, ast.Name)]
            if name in bound:
                problems.append(f"`{name}` is bound again in the same scope at line {st.lineno}")
        if owner is not None:
            cls = owner.rsplit(".", 1)[-1]
            for r2, m in self.idx.modules.items():
                for n in ast.walk(m.tree):
                    if isinstance(n, (ast.Assign, ast.AugAssign, ast.AnnAssign)):
                        tg = n.targets if isinstance(n, ast.Assign) else [n.target]
                        for t in tg:
                            if isinstance(t, ast.Attribute) and t.attr == name and ast.unparse(t.value).split(".")[-1] == cls:
                                problems.append(f"{r2}:{n.lineno} assigns {ast.unparse(t)}")
                    elif isinstance(n, ast.Call) and isinstance(n.func, ast.Name) and n.func.id == "setattr" and len(n.args) >= 2 \
                            and isinstance(n.args[1], ast.Constant) and n.args[1].value == name \
                            and ast.unparse(n.args[0]).split(".")[-1] == cls:
                        problems.append(f"{r2}:{n.lineno} setattr({ast.unparse(n.args[0])}, {name!r}, ...)")
        self.obs.append(Ob(f"{self.pid}.R0", f"{rel}:{qual}", "body-is-what-the-name-runs", not problems,
                           "the analysed body is what a call of the name executes: no wrapping decorator, no later re-binding of "
                           "the name in its scope, no assignment to the attribute from elsewhere in the package",
                           raw.lineno, {"problems": problems} if problems else {}, "N"))

    def borrow(self, rule_fn, mapping, *args, **kw):
        """Run a rule function of another property on a scratch Check and adopt
        the obligations whose rule id is a key of `mapping`, renamed."""
        tmp = Check(self.pid, self.idx, self.tier)
        rule_fn(tmp, *args, **kw)
        n = 0
        adopted = set()
        for o in tmp.obs:
            if o.rule in mapping:
                o.rule = mapping[o.rule]
                self.obs.append(o)
                self.functions.add(o.where)
                adopted.add(o.where)
                n += 1
        have = {o.where for o in self.obs if o.rule == f"{self.pid}.R0"}
        for o in tmp.obs:  # the borrowed statements are about those functions' bodies, too
            if o.rule == f"{self.pid}.R0" and o.where in adopted and o.where not in have:
                self.obs.append(o)
                have.add(o.where)
        self.trusted.extend(t for t in tmp.trusted if t not in self.trusted)
        return n


# ---------------------------------------------------------------------------
# known findings


def load_known():
    p = VERIF / "known_findings.json"
    if not p.exists():
        return []
    data = json.loads(p.read_text())
    return data.get("findings", [])


def match_known(pid, ob: Ob, known):
    for k in known:
        if k.get("status") != "open":
            continue
        if k["property"] != pid or k["rule"] != ob.rule:
            continue
        if k.get("where") and k["where"] != ob.where:
            continue
        if k.get("key") and k["key"] != ob.key:
            continue
        return k
    return None


# ---------------------------------------------------------------------------
# finishing a run


def finish(chk: Check, t0: float, replay_filter=None) -> int:
    pid = chk.pid
    known = load_known()
    ev_dir = Path(os.environ.get("VERIF_EVIDENCE_DIR", str(VERIF / "evidence")))
    ev_dir.mkdir(parents=True, exist_ok=True)
    rp_dir = ev_dir / "replay"
    refuted = [o for o in chk.obs if not o.ok]
    violations = []
    known_hits = []
    for o in refuted:
        k = match_known(pid, o, known)
        if k is not None:
            known_hits.append((o, k))
        else:
            violations.append(o)
    lines = []
    for o, k in known_hits:
        lines.append(
            f"KNOWN-FINDING: property={pid} rule={o.rule} at {o.where}"
            f"{':' + str(o.line) if o.line else ''} [{o.key}] {k.get('what_fails', '')}"
        )
    vio_paths = []
    if violations:
        rp_dir.mkdir(exist_ok=True)
    for n, o in enumerate(violations):
        path = rp_dir / f"{pid}-{o.rule}-{n}.json"
        path.write_text(json.dumps({"property": pid, **o.as_dict()}, indent=1))
        vio_paths.append(path)
        lines.append(
            f"REFUTED {o.rule} at {o.where}{':' + str(o.line) if o.line else ''} [{o.key}]: {o.what}"
            + (f" -- {json.dumps(o.detail)[:400]}" if o.detail else "")
        )
        lines.append(f"VIOLATION property={pid} replay={path}")
    n_ob = len(chk.obs)
    n_ok = sum(1 for o in chk.obs if o.ok)
    samples = [o.as_dict() for o in chk.obs]
    ev = {
        "property_id": pid,
        "tier": chk.tier,
        "seed": int(os.environ.get("VERIF_SEED", "0") or 0),
        "level": "other",
        "coverage": {
            "explanation": " ".join(chk.explanation)
            or "static analysis of the AST of /repo (see DESIGN.md)",
            "obligations": n_ob,
            "discharged": n_ok,
            "known_findings_reproduced": len(known_hits),
            "evaluations": n_ob,
            "distinct_nontrivial": len({(o.rule, o.where, o.key) for o in chk.obs}),
            "rule": "one obligation per (rule, function, construct); all are non-trivial: "
            "each is a structural/algebraic fact whose negation breaks the property",
            "samples": samples,
            "functions_analysed": sorted(chk.functions),
            "call_sites": chk.call_sites,
            "trusted_base": chk.trusted,
            "exhaustive": bool(chk.exhaustive),
            "checker_cmd": f"./check {pid} --tier {chk.tier}",
            "rules": sorted({o.rule for o in chk.obs}),
            "repo": str(chk.idx.repo),
            **chk.extra,
        },
        "assumptions": chk.assumptions,
        "violations": len(violations),
        "wall_s": round(time.time() - t0, 3),
    }
    if chk.notes:
        ev["coverage"]["notes"] = chk.notes
    out = ev_dir / f"{pid}.json"
    out.write_text(json.dumps(ev, indent=1))
    print(
        f"{pid}: {n_ok}/{n_ob} obligations discharged, {len(known_hits)} known finding(s), "
        f"{len(violations)} violation(s); rules={','.join(ev['coverage']['rules'])}; "
        f"functions={len(chk.functions)}; evidence={out}"
    )
    for l in lines:
        print(l)
    return 1 if violations else 0


def private_helper_resolver(idx: Index):
    """callee text -> FunctionDef for *private* helpers (leading underscore, not dunder): `_helper(...)` at module level and
    `self._helper(...)` / `cls._helper(...)` / `Class._helper(...)`.  Public methods stay opaque (rules name them)."""
    table = {}
    dup = set()
    for rel, m in idx.modules.items():
        for q, n in m.defs.items():
            if not isinstance(n, ast.FunctionDef):
                continue
            short = q.split(".")[-1]
            if not short.startswith("_") or short.startswith("__"):
                continue
            if any((d.attr if isinstance(d, ast.Attribute) else d.id if isinstance(d, ast.Name) else None)
                   not in Check._PLAIN_DECORATORS for d in n.decorator_list):
                continue  # a wrapped helper is not its body (R0): its calls stay opaque
            keys = [q] if "." in q else [short]
            if "." in q:
                keys += [f"self.{short}", f"cls.{short}"]
            for k in keys:
                if k in table and table[k] is not n:
                    dup.add(k)
                table[k] = n
    for k in dup:
        table.pop(k, None)
    return lambda name: table.get(name)


def run_property(pid: str, fn, tier: str) -> int:
    t0 = time.time()
    chk = None

    def undecided(msg):
        """an obligation refuted before the analysis gave up is a violation all the same: report it (exit 1); only when nothing
        new was refuted is the run 'cannot decide' (exit 2)"""
        if chk is not None:
            known = load_known()
            new = [o for o in chk.obs if not o.ok and match_known(pid, o, known) is None]
            if new:
                print(f"ANALYSIS-INCOMPLETE property={pid}: {msg.splitlines()[0]} (the obligations below were refuted before that)")
                chk.notes.append(f"analysis incomplete: {msg.splitlines()[0]}")
                return finish(chk, t0)
        print(f"ANALYSIS-ERROR property={pid}: {msg}")
        return 2

    try:
        idx = Index(REPO)
        chk = Check(pid, idx, tier)
        from . import symx as _symx
        _symx.AUTO_INLINE = private_helper_resolver(idx)
        fn(chk)
        if not chk.obs:
            raise AnalysisError("no obligations were generated (vacuous run)")
        return finish(chk, t0)
    except AnalysisError as e:
        return undecided(str(e))
    except Exception:  # internal error: cannot decide
        tb = traceback.format_exc()
        return undecided(f"internal exception\n{tb}")
