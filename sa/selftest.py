"""Sensitivity self-test (thorough tier): mutants must fire, benign twins must not.

A variant is a set of exact-text substitutions applied to a scratch copy of the
*current* /repo/shangrla (under a fresh temporary directory outside /repo and
/verif, removed afterwards).  The variant must byte-compile; then the property's
checker is run on it in a subprocess (VERIF_REPO=<scratch>), with its evidence
redirected to the scratch directory.

  kind 'mutant'  -> the checker must exit 1 and name `expect` (a rule id prefix)
  kind 'benign'  -> the checker must exit 0
A variant whose anchor text is not present in today's tree is reported as
skipped (the tree moved on), not as a failure.

Self-test failure = the checker is broken: ANALYSIS-ERROR, exit 2.
"""
from __future__ import annotations

import importlib
import json
import os
import py_compile
import shutil
import subprocess
import sys
import tempfile
from concurrent.futures import ThreadPoolExecutor
from pathlib import Path

from .core import REPO, VERIF


def variants_for(pid):
    try:
        mod = importlib.import_module(f"sa.mutants.{pid.lower()}")
    except ModuleNotFoundError:
        return []
    return list(mod.VARIANTS)


def apply_variant(root: Path, v):
    """returns None if applied, or a reason string if not applicable."""
    for rel, old, new in v["edits"]:
        p = root / rel
        if not p.exists():
            return f"{rel} missing"
        s = p.read_text()
        if s.count(old) != 1:
            return f"anchor text occurs {s.count(old)} times in {rel}"
        p.write_text(s.replace(old, new))
        try:
            compile(p.read_text(), str(p), "exec")
        except SyntaxError as e:
            return f"COMPILE-FAIL {e}"
    return None


def run_variant(pid, v, base: Path):
    d = Path(tempfile.mkdtemp(prefix=f"sa-{pid}-", dir=str(base)))
    try:
        shutil.copytree(REPO / "shangrla", d / "shangrla", ignore=shutil.ignore_patterns("__pycache__"))
        why = apply_variant(d, v)
        if why is not None:
            if why.startswith("COMPILE-FAIL"):
                return v, "broken", why
            return v, "skipped", why
        env = dict(os.environ, VERIF_REPO=str(d), VERIF_EVIDENCE_DIR=str(d / "evidence"))
        r = subprocess.run([sys.executable, "-m", "sa.main", pid, "--tier", "quick"], cwd=str(VERIF), env=env,
                           capture_output=True, text=True, timeout=1500)
        out = r.stdout + r.stderr
        if v["kind"] == "benign":
            ok = r.returncode == 0
            return v, ("ok" if ok else "FAIL"), ("" if ok else f"benign twin changed the verdict (rc={r.returncode}): " + out[-600:])
        exp = v.get("expect", "")
        fired = r.returncode == 1 and any(
            l.startswith("REFUTED " + exp) for l in out.splitlines())
        return v, ("ok" if fired else "FAIL"), ("" if fired else f"mutant not detected by {exp} (rc={r.returncode}): " + out[-600:])
    finally:
        shutil.rmtree(d, ignore_errors=True)


def replay_seeds(pid):
    """/verif/seeded/<id>-*/patch.diff: a seed that this property's check is recorded to catch must still make it exit 1."""
    seeds = sorted(d for d in (VERIF / "seeded").glob("*") if (d / "meta.json").exists())
    mine = []
    for d in seeds:
        m = json.loads((d / "meta.json").read_text())
        if pid in m.get("checks_raising_alarm", []) and m.get("applies_to_current_tree", True):
            mine.append(d)
    if not mine:
        return 0
    base = Path(tempfile.mkdtemp(prefix="sa-seeds-"))
    bad = []
    try:
        def one(d):
            w = Path(tempfile.mkdtemp(prefix=f"{d.name}-", dir=str(base)))
            shutil.copytree(REPO / "shangrla", w / "shangrla", ignore=shutil.ignore_patterns("__pycache__"))
            r = subprocess.run(["patch", "-p1", "-s", "-i", str(d / "patch.diff")], cwd=w, capture_output=True, text=True)
            if r.returncode != 0:
                return d.name, "patch-no-longer-applies"
            env = dict(os.environ, VERIF_REPO=str(w), VERIF_EVIDENCE_DIR=str(w / "evidence"))
            r = subprocess.run([sys.executable, "-m", "sa.main", pid, "--tier", "quick"], cwd=str(VERIF), env=env, capture_output=True, text=True, timeout=1500)
            return d.name, ("caught" if r.returncode == 1 and "VIOLATION property=" in r.stdout else f"NOT-CAUGHT rc={r.returncode}")
        with ThreadPoolExecutor(max_workers=8) as ex:
            res = list(ex.map(one, mine))
    finally:
        shutil.rmtree(base, ignore_errors=True)
    caught = [n for n, st in res if st == "caught"]
    stale = [n for n, st in res if st == "patch-no-longer-applies"]
    bad = [(n, st) for n, st in res if st.startswith("NOT-CAUGHT")]
    print(f"selftest {pid}: seeded changes: {len(caught)} caught, {len(stale)} no longer apply, {len(bad)} missed of {len(res)}")
    ev = Path(os.environ.get("VERIF_EVIDENCE_DIR", str(VERIF / "evidence"))) / f"{pid}.json"
    if ev.exists():
        try:
            data = json.loads(ev.read_text())
            data["coverage"]["seeded_changes_replayed"] = {"caught": caught, "no_longer_apply": stale, "missed": [n for n, _ in bad]}
            ev.write_text(json.dumps(data, indent=1))
        except Exception:
            pass
    if bad:
        print(f"ANALYSIS-ERROR property={pid}: seeded change(s) no longer detected: {bad}")
        return 2
    return 0


def replay_benign(pid):
    """/verif/benign/*.diff: behaviour-preserving refactorings written by independent agents (extract a helper, name or inline a
    temporary, loop <-> comprehension, guard clauses, if/else <-> conditional expression, ...).  The check must give the same
    verdict on every one of them as on the tree itself: a refactoring that changes no behaviour must not raise an alarm."""
    pats = sorted((VERIF / "benign").glob("*patch*.diff")) + sorted((VERIF / "benign2").glob("*patch*.diff")) \
        + sorted((VERIF / "benign3").glob("*patch*.diff")) + sorted((VERIF / "benign4").glob("*patch*.diff")) + sorted((VERIF / "benign5").glob("*patch*.diff")) + sorted((VERIF / "benign6").glob("*patch*.diff"))
    if not pats:
        return 0
    base = Path(tempfile.mkdtemp(prefix="sa-benign-"))
    try:
        def one(d):
            w = Path(tempfile.mkdtemp(prefix=f"{d.stem}-", dir=str(base)))
            shutil.copytree(REPO / "shangrla", w / "shangrla", ignore=shutil.ignore_patterns("__pycache__"))
            r = subprocess.run(["patch", "-p1", "-s", "-i", str(d)], cwd=w, capture_output=True, text=True)
            if r.returncode != 0:
                return d.name, "patch-no-longer-applies"
            env = dict(os.environ, VERIF_REPO=str(w), VERIF_EVIDENCE_DIR=str(w / "evidence"))
            r = subprocess.run([sys.executable, "-m", "sa.main", pid, "--tier", "quick"], cwd=str(VERIF), env=env, capture_output=True, text=True, timeout=1500)
            return d.name, ("silent" if r.returncode == 0 else f"ALARM rc={r.returncode}: " + " | ".join(l[:160] for l in r.stdout.splitlines() if l.startswith(("REFUTED", "ANALYSIS-ERROR")))[:400])
        with ThreadPoolExecutor(max_workers=min(16, os.cpu_count() or 4)) as ex:
            res = list(ex.map(one, pats))
    finally:
        shutil.rmtree(base, ignore_errors=True)
    silent = [n for n, st in res if st == "silent"]
    stale = [n for n, st in res if st == "patch-no-longer-applies"]
    bad = [(n, st) for n, st in res if st.startswith("ALARM")]
    print(f"selftest {pid}: benign refactorings: {len(silent)} silent, {len(stale)} no longer apply, {len(bad)} alarm(s) of {len(res)}")
    ev = Path(os.environ.get("VERIF_EVIDENCE_DIR", str(VERIF / "evidence"))) / f"{pid}.json"
    if ev.exists():
        try:
            data = json.loads(ev.read_text())
            data["coverage"]["benign_refactorings_replayed"] = {"silent": len(silent), "no_longer_apply": stale, "alarms": [n for n, _ in bad]}
            ev.write_text(json.dumps(data, indent=1))
        except Exception:
            pass
    if bad:
        for n, st in bad:
            print(f"  [FALSE-ALARM] {n}: {st}")
        print(f"ANALYSIS-ERROR property={pid}: the check raises an alarm on behaviour-preserving refactoring(s): {[n for n, _ in bad]}")
        return 2
    return 0


def run_for(pid, verbose=True, only=None):
    vs = variants_for(pid)
    if only:
        vs = [v for v in vs if v["id"] in only]
    if not vs:
        print(f"selftest {pid}: no variants registered")
        return 0
    base = Path(tempfile.mkdtemp(prefix="sa-selftest-"))
    try:
        with ThreadPoolExecutor(max_workers=min(16, os.cpu_count() or 4)) as ex:
            results = list(ex.map(lambda v: run_variant(pid, v, base), vs))
    finally:
        shutil.rmtree(base, ignore_errors=True)
    bad = [(v, st, msg) for v, st, msg in results if st in ("FAIL", "broken")]
    n_ok = sum(1 for _, st, _ in results if st == "ok")
    n_skip = sum(1 for _, st, _ in results if st == "skipped")
    print(f"selftest {pid}: {n_ok} ok, {n_skip} skipped, {len(bad)} failed of {len(results)} variants "
          f"({sum(1 for v in vs if v['kind']=='mutant')} mutants, {sum(1 for v in vs if v['kind']=='benign')} benign twins)")
    if verbose:
        for v, st, msg in results:
            if st != "ok":
                print(f"  [{st}] {v['id']}: {msg[:500]}")
    # record for the evidence file
    ev = Path(os.environ.get("VERIF_EVIDENCE_DIR", str(VERIF / "evidence"))) / f"{pid}.json"
    if ev.exists():
        try:
            data = json.loads(ev.read_text())
            data["coverage"]["selftest"] = {
                "variants": len(results), "ok": n_ok, "skipped": n_skip, "failed": len(bad),
                "mutants": [{"id": v["id"], "expect": v.get("expect"), "status": st} for v, st, _ in results if v["kind"] == "mutant"],
                "benign": [{"id": v["id"], "status": st} for v, st, _ in results if v["kind"] == "benign"],
            }
            ev.write_text(json.dumps(data, indent=1))
        except Exception:
            pass
    if bad:
        print(f"ANALYSIS-ERROR property={pid}: sensitivity self-test failed for {[v['id'] for v, _, _ in bad]}")
        return 2
    # the independently seeded changes filed for this property must still be reported (or still be recorded as honest misses)
    if not only:
        rc = replay_seeds(pid)
        if rc != 0:
            return rc
    if not only:
        rc = replay_benign(pid)
        if rc != 0:
            return rc
    # the canonical forms' own unit checks (negative cases: a normal form must not fire when its side condition fails)
    if not only:
        r = subprocess.run([sys.executable, "-m", "sa.canon_selftest"], cwd=str(VERIF), capture_output=True, text=True, timeout=300)
        print(f"selftest {pid}: {(r.stdout.strip().splitlines() or [''])[-1]}")
        if r.returncode != 0:
            print(r.stdout[-1500:])
            print(f"ANALYSIS-ERROR property={pid}: a canonical form fails its own unit checks")
            return 2
    # the frame condition on arguments has unit cases of its own (positive and negative; tools/argfx_cases.py)
    if not only:
        r = subprocess.run([sys.executable, str(VERIF / "tools" / "argfx_cases.py")], cwd=str(VERIF), capture_output=True, text=True, timeout=300)
        print(f"selftest {pid}: {(r.stdout.strip().splitlines() or [''])[-1]}")
        if r.returncode != 0:
            print(r.stdout[-1500:])
            print(f"ANALYSIS-ERROR property={pid}: the argument-effects analysis fails its own unit cases")
            return 2
    # the automatic benign twin: every local variable of every function renamed (tools/alpha_twin.py)
    if not only:
        r = subprocess.run([sys.executable, str(VERIF / "tools" / "alpha_twin.py"), pid], cwd=str(VERIF), capture_output=True, text=True, timeout=900)
        line = (r.stdout.strip().splitlines() or [""])[-1]
        print(f"selftest {pid}: alpha-renaming twin: {line}")
        if r.returncode != 0:
            print(r.stdout[-800:])
            print(f"ANALYSIS-ERROR property={pid}: the verdict depends on the spelling of a local variable")
            return 2
    return 0


if __name__ == "__main__":
    pid = sys.argv[1].upper()
    sys.exit(run_for(pid, only=set(sys.argv[2:]) or None))
