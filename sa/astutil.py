"""AST helpers shared by the rule modules."""
from __future__ import annotations

import ast
import copy

from .core import AnalysisError, norm
from .canon import _dc


def walk_local(node, include_self=True):
    """Walk a function body without descending into nested defs/lambdas/classes."""
    stack = [node]
    first = True
    while stack:
        n = stack.pop()
        if not first and isinstance(n, (ast.FunctionDef, ast.AsyncFunctionDef, ast.ClassDef, ast.Lambda)):
            yield n  # yield the nested def itself, but do not descend
            continue
        if include_self or not first:
            yield n
        first = False
        stack.extend(reversed(list(ast.iter_child_nodes(n))))


def calls(node, local=False):
    it = walk_local(node) if local else ast.walk(node)
    return [n for n in it if isinstance(n, ast.Call)]


def callee(call) -> str:
    return norm(call.func)


def find_calls(node, name_suffix, local=False):
    """Calls whose callee text equals name or ends with '.name'."""
    out = []
    for c in calls(node, local):
        cn = callee(c)
        if cn == name_suffix or cn.endswith("." + name_suffix):
            out.append(c)
    return out


def parent(node):
    return getattr(node, "_parent", None)


def ancestors(node):
    p = parent(node)
    while p is not None:
        yield p
        p = parent(p)


def enclosing(node, kinds):
    for a in ancestors(node):
        if isinstance(a, kinds):
            return a
    return None


def enclosing_stmt(node):
    n = node
    while n is not None and not isinstance(n, ast.stmt):
        n = parent(n)
    return n


def assigns_to(func, name):
    """All statements in func (local) that bind the simple name."""
    out = []
    for n in walk_local(func):
        if isinstance(n, ast.Assign):
            for t in n.targets:
                for x in ast.walk(t):
                    if isinstance(x, ast.Name) and x.id == name and isinstance(x.ctx, ast.Store):
                        out.append(n)
        elif isinstance(n, (ast.AugAssign, ast.AnnAssign)):
            if isinstance(n.target, ast.Name) and n.target.id == name:
                out.append(n)
        elif isinstance(n, ast.NamedExpr) and n.target.id == name:
            out.append(n)
        elif isinstance(n, (ast.For, ast.comprehension)):
            for x in ast.walk(n.target):
                if isinstance(x, ast.Name) and x.id == name:
                    out.append(n)
    return out


def stores(func, local=True):
    """(target_node, value_node_or_None, stmt) for every assignment-like store."""
    out = []
    it = walk_local(func) if local else ast.walk(func)
    for n in it:
        if isinstance(n, ast.Assign):
            for t in n.targets:
                if isinstance(t, (ast.Tuple, ast.List)) and isinstance(n.value, (ast.Tuple, ast.List)) \
                        and len(t.elts) == len(n.value.elts):
                    for tt, vv in zip(t.elts, n.value.elts):
                        out.append((tt, vv, n))
                elif isinstance(t, (ast.Tuple, ast.List)):
                    for tt in t.elts:
                        out.append((tt, n.value, n))
                else:
                    out.append((t, n.value, n))
        elif isinstance(n, ast.AugAssign):
            out.append((n.target, n.value, n))
        elif isinstance(n, ast.AnnAssign) and n.value is not None:
            out.append((n.target, n.value, n))
    return out


def attr_stores(func, attr, local=True):
    return [(t, v, s) for t, v, s in stores(func, local) if isinstance(t, ast.Attribute) and t.attr == attr]


def is_name(node, name):
    return isinstance(node, ast.Name) and node.id == name


def const_value(node):
    if isinstance(node, ast.Constant):
        return node.value
    if isinstance(node, ast.UnaryOp) and isinstance(node.op, ast.USub) and isinstance(node.operand, ast.Constant):
        return -node.operand.value
    raise ValueError("not a constant")


def is_const(node, value=None):
    try:
        v = const_value(node)
    except ValueError:
        return False
    return True if value is None else (v == value and type(v) is type(value) or (
        not isinstance(value, bool) and not isinstance(v, bool) and v == value))


def names_loaded(node):
    return {n.id for n in ast.walk(node) if isinstance(n, ast.Name) and isinstance(n.ctx, ast.Load)}


def names_stored(node):
    out = set()
    for n in ast.walk(node):
        if isinstance(n, ast.Name) and isinstance(n.ctx, (ast.Store, ast.Del)):
            out.add(n.id)
    return out


def kwarg(call, name, pos=None):
    for k in call.keywords:
        if k.arg == name:
            return k.value
    if pos is not None and len(call.args) > pos:
        return call.args[pos]
    return None


def loops_enclosing(node, within):
    out = []
    for a in ancestors(node):
        if a is within:
            break
        if isinstance(a, (ast.For, ast.While)):
            out.append(a)
    return out


def body_has(node, kinds, local=True):
    it = walk_local(node) if local else ast.walk(node)
    return [n for n in it if isinstance(n, kinds)]


def stmt_list_of(node):
    """The statement list (and index) that directly contains stmt `node`."""
    p = parent(node)
    for fld in ("body", "orelse", "finalbody"):
        lst = getattr(p, fld, None)
        if isinstance(lst, list) and node in lst:
            return lst, lst.index(node)
    if isinstance(p, ast.Try):
        for h in p.handlers:
            if node in h.body:
                return h.body, h.body.index(node)
    raise AnalysisError("statement list not found")


def dominates_structurally(a_stmt, b_node, func):
    """True if every execution of b_node (within one activation of func, and --
    for loop bodies -- within the same iteration) is preceded by a_stmt:
    a_stmt is an earlier sibling of b's enclosing statement in a block that is
    an ancestor of b, and a_stmt itself is not inside a conditional relative to
    that block.  Sufficient (not necessary) condition on structured code."""
    b_stmt = enclosing_stmt(b_node)
    chain = [b_stmt] + [x for x in ancestors(b_stmt) if isinstance(x, ast.stmt)]
    lst_a, ia = stmt_list_of(a_stmt)
    for s in chain:
        if s is func:
            break
        try:
            lst, i = stmt_list_of(s)
        except AnalysisError:
            continue
        if lst is lst_a and ia < i:
            return True
    return False


def clone(node):
    return _dc(node)


def func_params(fn):
    a = fn.args
    return [x.arg for x in a.posonlyargs + a.args + a.kwonlyargs]


def literal_strings(node):
    return [n.value for n in ast.walk(node) if isinstance(n, ast.Constant) and isinstance(n.value, str)]


def dotted(node):
    """'a.b.c' for Name/Attribute chains, else None."""
    parts = []
    while isinstance(node, ast.Attribute):
        parts.append(node.attr)
        node = node.value
    if isinstance(node, ast.Name):
        parts.append(node.id)
        return ".".join(reversed(parts))
    return None


def returned_names(fn):
    """Names returned by the function's return statements (first element for tuples)."""
    out = []
    for r in walk_local(fn):
        if isinstance(r, ast.Return) and r.value is not None:
            v = r.value
            if isinstance(v, ast.Name):
                out.append(v.id)
            elif isinstance(v, ast.Tuple):
                out.append(tuple(norm(e) for e in v.elts))
    return out


def single_def(scope, name):
    """the unique `name = value` assignment in scope (local walk), else None"""
    ds = [s for s in walk_local(scope) if isinstance(s, ast.Assign) and len(s.targets) == 1 and norm(s.targets[0]) == name]
    return ds[0] if len(ds) == 1 else None
