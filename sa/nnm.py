"""Shared anatomy of shangrla/core/NonnegMean.py for C01/C05/C11/C12/C13/C16.

* the registry of tests / estimators / bets (E1, stored callables)
* the lag analysis entry points (E3)
* the symbolic anatomy of every test: statistic term, factor, overall value,
  in-place overrides (E4)
"""
from __future__ import annotations

import ast
from dataclasses import dataclass, field

import sympy as sp

from .core import AnalysisError, norm
from . import symx
from .symx import E, I, T, Tx, S
from .npflow import Flow, Arr, Sc, CONST

REL = "shangrla/core/NonnegMean.py"
CLS = "NonnegMean"

# frozen role table, confirmed by reading (DESIGN.md E1): which stored callable
# plays which role.  A sample-taking method that is in neither list is reported
# by the thorough tier as unregistered.
ESTIMATORS = ("fixed_alternative_mean", "shrink_trunc", "optimal_comparison")
BETS = ("fixed_bet", "agrapa")


def test_names(idx):
    """Method names of the tests, read from NonnegMean.TESTS (walrus tuple)."""
    cls = idx.cls(REL, CLS)
    names = []
    for st in cls.body:
        if isinstance(st, ast.Assign) and any(norm(t) == "TESTS" for t in st.targets):
            for e in st.value.elts:
                v = e.value if isinstance(e, ast.NamedExpr) else e
                if isinstance(v, ast.Constant) and isinstance(v.value, str):
                    names.append(v.value.lower())
    if len(names) < 6:
        raise AnalysisError(f"NonnegMean.TESTS lists {len(names)} tests, confirmed minimum is 6")
    meths = idx.methods(REL, CLS)
    for n in names:
        if n not in meths:
            raise AnalysisError(f"test {n} listed in TESTS has no method")
    return names


def sample_methods(idx):
    """Every method of NonnegMean with signature (self, x, **kwargs)."""
    out = []
    for name, fd in idx.methods(REL, CLS).items():
        a = fd.args
        ps = [x.arg for x in a.args]
        if len(ps) == 2 and ps[0] == "self" and ps[1] == "x" and a.kwarg is not None:
            out.append(name)
    return out


def registry(idx):
    tests = test_names(idx)
    meths = idx.methods(REL, CLS)
    est = [e for e in ESTIMATORS if e in meths]
    bets = [b for b in BETS if b in meths]
    if len(est) < 3 or len(bets) < 2:
        raise AnalysisError(f"registry shrank: estimators {est}, bets {bets} (confirmed 3 and 2)")
    others = [m for m in sample_methods(idx) if m not in tests and m not in est and m not in bets]
    # the constructor's defaults must be registered callables
    init = meths.get("__init__")
    defaults = {}
    if init is not None:
        for n in ast.walk(init):
            if isinstance(n, ast.Assign) and len(n.targets) == 1 and isinstance(n.targets[0], ast.Name) \
                    and n.targets[0].id in ("test", "estim", "bet") and isinstance(n.value, ast.Attribute) \
                    and norm(n.value.value) == "self":
                defaults[n.targets[0].id] = n.value.attr
    return {"tests": tests, "estim": est, "bet": bets, "unregistered": others, "defaults": defaults}


def flow(idx, reg=None):
    reg = reg or registry(idx)
    fl = Flow(idx.module(REL), {"estim": [f"{CLS}.{e}" for e in reg["estim"]],
                                "bet": [f"{CLS}.{b}" for b in reg["bet"]]})
    fl.expanded = lambda qual: idx.func_x(REL, qual)
    return fl


SAMPLE = Arr(0, 0, True)


# ---------------------------------------------------------------------------
# symbolic anatomy


_RECIPE_MEMO = {}  # structural memo: the post hook is applied to every sub-term again and again as terms grow


def _recipes(e):
    """Replace recognised NumPy recipes by role symbols:
       slice(np.insert(np.cumsum(a),0,0),0|None,-1,None)  -> SX(a)   exclusive prefix sum
       np.arange(1, len(a)+1)                              -> J       1..n
       np.arange(len(a))                                   -> J - 1   0..n-1
       np.array(a) / np.asarray(a)                         -> a
       np.ones(len(a)) / np.ones_like(a)                   -> 1
    """
    SXf = sp.Function("SX")
    J = S("J")

    def rec(x):
        if not isinstance(x, sp.Basic):
            return x
        if x.is_Atom:
            return x
        hit = _RECIPE_MEMO.get(x)
        if hit is not None:
            return hit
        out = rec1(x)
        if len(_RECIPE_MEMO) < 200000:
            _RECIPE_MEMO[x] = out
        return out

    def rec1(x):
        args = [rec(a) for a in x.args]
        if isinstance(x, sp.Function) or x.is_Function:
            fname = x.func.__name__
            if fname.split("{")[0] in ("np.array", "np.asarray", "numpy.array", "np.asanyarray", "np.asfarray") and len(args) >= 1:
                # (with or without dtype= / copy=: as a real number the array is its argument)
                return args[0]
            if fname == "getattr" and len(args) in (2, 3) and sp.sstr(args[0]) == "self":
                return S("self." + sp.sstr(args[1]).strip("'\""))
            if fname == "kwargs.get" and len(args) in (1, 2):
                return S("kw." + sp.sstr(args[0]).strip("'\""))
            if fname == "attr:eps":
                return S("EPS")
            if fname == "index" and len(args) == 2 and args[1] == -1 and _fn(args[0], "np.insert") \
                    and len(args[0].args) == 3 and args[0].args[1] == 0 and args[0].args[2] == 0 \
                    and _fn(args[0].args[0], "np.cumsum"):
                return sp.Function("STOT")(args[0].args[0].args[0])
            if fname in ("np.sum", "sum") and len(args) == 1:
                return sp.Function("STOT")(args[0])
            if fname in ("np.ones_like",) and len(args) == 1:
                return sp.Integer(1)
            if fname in ("np.full_like",) and len(args) == 2:
                return args[1]  # as a real number; that the fill is cast to the array's dtype is the business of the dtype lint (C12.R6)
            if fname in ("np.full",) and len(args) == 2 and _is_len(args[0]):
                return args[1]
            if fname in ("np.ones",) and len(args) == 1 and _is_len(args[0]):
                return sp.Integer(1)
            if fname == "slice" and len(args) == 4 and _fn(args[0], "np.insert") and len(args[0].args) == 3 \
                    and args[0].args[1] == 0 and not _fn(args[0].args[0], "np.cumsum") \
                    and (args[1] == 0 or sp.sstr(args[1]) == "None") and args[2] == -1 and sp.sstr(args[3]) == "None":
                # shift by one: first entry is the inserted constant, entry j is a[j-1]
                return sp.Function("SHIFT")(args[0].args[0], args[0].args[2])
            if fname == "slice" and len(args) == 4:
                b, lo, hi, st = args
                if _fn(b, "np.insert") and len(b.args) == 3 and b.args[1] == 0 and b.args[2] == 0 \
                        and _fn(b.args[0], "np.cumsum") and (lo == 0 or sp.sstr(lo) == "None") and hi == -1 \
                        and sp.sstr(st) == "None":
                    return SXf(b.args[0].args[0])
            if fname == "np.arange":
                if len(args) == 2 and args[0] == 1 and _is_len(args[1] - 1):
                    return J
                if len(args) == 1 and _is_len(args[0]):
                    return J - 1
            return x.func(*args)
        return x.func(*args)

    return rec(e)


def _fn(e, name):
    return (isinstance(e, sp.Function) or getattr(e, "is_Function", False)) and e.func.__name__ == name


def _is_len(e):
    return _fn(e, "len")


def map_leaves(v, f):
    if isinstance(v, I):
        return I(v.c, map_leaves(v.a, f), map_leaves(v.b, f))
    if isinstance(v, T):
        return T([map_leaves(x, f) for x in v.items])
    if isinstance(v, E):
        return E(f(v.e))
    return v


@dataclass
class Anatomy:
    name: str
    fdef: ast.FunctionDef
    tx: Tx
    ret: ast.Return | None
    overall: object = None  # Val
    history: object = None  # Val
    stores: list = field(default_factory=list)  # (stmt, target_name, index_node, value_node)
    assign_lines: dict = field(default_factory=dict)
    store_cond: dict = field(default_factory=dict)
    store_kind: dict = field(default_factory=dict)
    stat_names: set = field(default_factory=set)
    early: list = field(default_factory=list)  # (condition, overall Val, history Val, Return node): exits before the final return


def make_tx(idx, extra_env=None):
    sjm = idx.func_x(REL, f"{CLS}.sjm")
    env = {}
    tx = Tx(env=env, inline={"self.sjm": sjm})
    tx.post = _recipes
    return tx


def flatten(stmts):
    for st in stmts:
        if isinstance(st, ast.With):
            yield from flatten(st.body)
        else:
            yield st


def _record_store(an, tx, st, cond):
    tgt = st.targets[0]
    name = norm(tgt.value)
    an.stores.append((st, name, tgt.slice, st.value))
    an.store_cond[id(st)] = cond
    # is the target the statistic, or the already capped p-value history?
    kind = "stat"
    v = tx.env.get(name)
    if v is not None:
        try:
            for row in symx.rows(symx.val_atoms(v)):
                leaf = symx.eval_val(v, row)
                if isinstance(leaf, sp.Min) and sp.Integer(1) in leaf.args:
                    kind = "history"
        except Exception:
            pass
    an.store_kind[id(st)] = kind


def anatomy(idx, name) -> Anatomy:
    fd = idx.func_x(REL, f"{CLS}.{name}")
    tx = make_tx(idx)
    an = Anatomy(name, fd, tx, None)
    ETA, LAM = S("ETA"), S("LAM")
    tx.inline["self.estim"] = ast.parse("lambda x: ETA", mode="eval").body
    tx.inline["self.bet"] = ast.parse("lambda x: LAM", mode="eval").body
    for st in flatten(fd.body):
        if isinstance(st, ast.Expr):
            continue
        if isinstance(st, ast.Assert):
            continue
        if isinstance(st, ast.Return):
            an.ret = st
            break
        if isinstance(st, ast.Assign):
            tgt = st.targets[0]
            if isinstance(tgt, ast.Subscript):
                _record_store(an, tx, st, True)
                continue
            v = tx.expr(st.value)
            for t in st.targets:
                tx._assign(t, v)
            continue
        if isinstance(st, ast.If):
            body_only_raise = all(isinstance(s, ast.Raise) for s in st.body) and not st.orelse
            if body_only_raise:
                # a guard: whoever gets past it had the condition false (recorded for C01.R6 / C11.R3)
                try:
                    tx.guards.append(symx.c_not(tx.cond(st.test)))
                except symx.Unsupported:
                    pass
                continue
            # an `if` whose branches consist of in-place stores only: conditional overrides
            # (an if / elif chain of them as well: each store is recorded under the conjunction of the tests that lead to it)
            def only_stores(stmts):
                return all((isinstance(s, ast.Assign) and isinstance(s.targets[0], ast.Subscript)) or
                           (isinstance(s, ast.If) and only_stores(s.body) and only_stores(s.orelse)) or isinstance(s, ast.Pass) for s in stmts)

            def record(stmts, cond):
                for s in stmts:
                    if isinstance(s, ast.Assign):
                        _record_store(an, tx, s, cond)
                    elif isinstance(s, ast.If):
                        c_ = tx.cond(s.test)
                        record(s.body, symx.c_and(cond, c_) if cond is not True else c_)
                        record(s.orelse, symx.c_and(cond, symx.c_not(c_)) if cond is not True else symx.c_not(c_))
            if only_stores([st]) and (st.body or st.orelse):
                record([st], True)
                continue
            # an early exit `if c: ...; return p, history`: the test then has one more row, on which both components are those of
            # this return (simple statements only; in-place stores on the way make the early history opaque)
            if not st.orelse and st.body and isinstance(st.body[-1], ast.Return) and isinstance(st.body[-1].value, ast.Tuple) \
                    and len(st.body[-1].value.elts) == 2 and not any(isinstance(x, ast.Return) for b in st.body[:-1] for x in ast.walk(b)):
                c = tx.cond(st.test)
                tb = tx.child(dict(tx.env))
                tb.post = _recipes
                opaque = set()
                for s2 in st.body[:-1]:
                    if isinstance(s2, ast.Expr):
                        continue
                    if isinstance(s2, ast.Assign) and not isinstance(s2.targets[0], ast.Subscript):
                        v2 = tb.expr(s2.value)
                        for t2 in s2.targets:
                            tb._assign(t2, v2)
                        continue
                    if isinstance(s2, ast.Assign) and isinstance(s2.targets[0], ast.Subscript):
                        opaque.add(norm(s2.targets[0].value))
                        continue
                    raise AnalysisError(f"{name}: statement {type(s2).__name__} at line {s2.lineno} in an early exit, outside the dialect")
                for nm_ in opaque:
                    tb.env[nm_] = E(sp.Function("stored_into")(S(nm_)))
                r2 = st.body[-1]
                an.early.append((c, map_leaves(tb.expr(r2.value.elts[0]), _recipes), map_leaves(tb.expr(r2.value.elts[1]), _recipes), r2))
                continue
            r = tx.block([st])
            if r is not None:
                raise AnalysisError(f"{name}: conditional return outside the modelled dialect")
            continue
        from .npflow import _is_validation_loop
        if _is_validation_loop(st):
            continue
        if isinstance(st, ast.AugAssign) and isinstance(st.target, ast.Name):
            # x += g  is, for the value computed, x = x + g (that it may also write into the caller's array is the business of
            # the no-input-mutation rule, C12.R7)
            r = tx.block([st])
            continue
        raise AnalysisError(f"{name}: statement {type(st).__name__} at line {st.lineno} outside the dialect")
    # def-use bookkeeping for "computed from the final statistic" (C11.R3)
    an.assign_lines = {}
    for st in flatten(fd.body):
        if isinstance(st, ast.Assign):
            for t in st.targets:
                for nm in ast.walk(t):
                    if isinstance(nm, ast.Name) and isinstance(nm.ctx, ast.Store):
                        loaded = {q.id for q in ast.walk(st.value) if isinstance(q, ast.Name)}
                        an.assign_lines.setdefault(nm.id, []).append((st.lineno, loaded))
    if an.ret is None or not isinstance(an.ret.value, ast.Tuple) or len(an.ret.value.elts) != 2:
        raise AnalysisError(f"{name}: expected `return p, p_history`")
    an.overall = map_leaves(tx.expr(an.ret.value.elts[0]), _recipes)
    an.history = map_leaves(tx.expr(an.ret.value.elts[1]), _recipes)
    for c, ov, hv, _ in reversed(an.early):
        an.overall = I(c, ov, an.overall)
        an.history = I(c, hv, an.history)
    return an


def cumprod_count(e):
    n = 0
    for sub in sp.preorder_traversal(e):
        if _fn(sub, "np.cumprod"):
            n += 1
    return n


def find_cumprods(e):
    return [sub for sub in sp.preorder_traversal(e) if _fn(sub, "np.cumprod")]


def history_shape(h):
    """h is a leaf expression.  Returns (kind, T_or_P) where kind is
    'inv'  : h == Min(1, 1/X)       (X is the statistic T)
    'dir'  : h == Min(1, X)         (X is the p-value product)
    None   : not of the capped form."""
    if isinstance(h, sp.Min) and len(h.args) == 2 and sp.Integer(1) in h.args:
        other = [a for a in h.args if a != 1][0]
        inv = sp.together(1 / other)
        # 1/X form: `other` is a Pow(X, -1)
        if isinstance(other, sp.Pow) and other.exp == -1:
            return "inv", other.base
        return "dir", other
    return None, None


def method_term(idx, name, extra_inline=None):
    """Translate a straight-line NonnegMean method (estimator / bet / helper):
    returns (tx, returned Val, stores).  Warn-only / raise-only `if`s are skipped."""
    fd = idx.func_x(REL, f"{CLS}.{name}")
    tx = make_tx(idx)
    wf = idx.module(REL).defs.get("welford_mean_var")
    if extra_inline:
        tx.inline.update(extra_inline)
    stores = []
    ret = None
    for st in flatten(fd.body):
        if isinstance(st, (ast.Expr, ast.Assert)):
            continue
        if isinstance(st, ast.Return):
            ret = tx.expr(st.value)
            break
        if isinstance(st, ast.Assign):
            tgt = st.targets[0]
            if isinstance(tgt, ast.Subscript):
                stores.append((st, norm(tgt.value), tgt.slice, st.value))
                continue
            v = tx.expr(st.value)
            for t in st.targets:
                tx._assign(t, v)
            continue
        if isinstance(st, ast.If):
            simple = all(
                isinstance(x, ast.Raise) or (isinstance(x, ast.Expr) and isinstance(x.value, ast.Call)
                                             and norm(x.value.func) in ("warnings.warn", "warn", "print"))
                for x in st.body) and not st.orelse
            if simple:
                # evaluate the test for its walrus bindings only
                try:
                    tx.cond(st.test)
                except symx.Unsupported:
                    pass
                continue
            r = tx.block([st])
            if r is not None:
                raise AnalysisError(f"{name}: conditional return outside the modelled dialect")
            continue
        raise AnalysisError(f"{name}: statement {type(st).__name__} at line {st.lineno} outside the dialect")
    if ret is None:
        raise AnalysisError(f"{name}: no return")
    return tx, ret, stores, fd


def stale_statistic_uses(an: Anatomy, expr):
    """Lines at which a value flowing into `expr` was computed from the statistic
    *before* the last in-place store to it (such a value ignores the overrides)."""
    if not an.stores:
        return []
    stat_names = {t for _, t, _, _ in an.stores}
    last_store = max(st.lineno for st, *_ in an.stores)
    bad, seen = [], set()
    work = [q.id for q in ast.walk(expr) if isinstance(q, ast.Name)]
    while work:
        nm = work.pop()
        if nm in seen or nm in stat_names:
            continue
        seen.add(nm)
        for line, loaded in an.assign_lines.get(nm, []):
            if loaded & stat_names and line < last_store:
                bad.append(line)
            work.extend(loaded)
    return sorted(set(bad))


def used_callables(idx):
    """Widened scope (thorough tier): every `NonnegMean.<name>` handed over as test / estim / bet anywhere in the repository --
    library, tests and the code cells of examples/*.ipynb (parsed as JSON + ast, never executed).
    -> {role: {name: [origins]}}"""
    import json as _json
    import re as _re

    out = {"test": {}, "estim": {}, "bet": {}}
    sources = []
    repo = idx.repo
    for p in sorted(repo.rglob("*.py")):
        if ".git" in p.parts:
            continue
        try:
            sources.append((str(p.relative_to(repo)), p.read_text(errors="replace")))
        except OSError:
            pass
    for p in sorted((repo / "examples").glob("*.ipynb")) if (repo / "examples").is_dir() else []:
        try:
            nb = _json.loads(p.read_text())
        except Exception:
            continue
        for k, c in enumerate(nb.get("cells", [])):
            if c.get("cell_type") == "code":
                sources.append((f"{p.relative_to(repo)}#cell{k}", "".join(c.get("source", []))))
    pat = _re.compile(r"""['"]?(test|estim|estimator|bet)['"]?\s*[:=]\s*NonnegMean\.(\w+)""")
    for origin, src in sources:
        for role, name in pat.findall(src):
            role = "estim" if role == "estimator" else role
            out[role].setdefault(name, []).append(origin)
    return out
