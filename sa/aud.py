"""Helpers for rules over shangrla/core/Audit.py."""
from __future__ import annotations

import ast

import sympy as sp

from .core import AnalysisError, norm
from . import symx
from .symx import Tx, E, I, S, c_and, c_or, c_not
from .astutil import walk_local, parent

REL = "shangrla/core/Audit.py"
BOOL_FLAGS = {"cvr.phantom", "mvr.phantom", "c.phantom", "cvr.pool"}


def W(q):
    return f"{REL}:{q}"


def comps(node, local=True):
    it = walk_local(node) if local else ast.walk(node)
    return [n for n in it if isinstance(n, (ast.ListComp, ast.GeneratorExp, ast.SetComp))]


def single_gen(comp):
    if len(comp.generators) != 1:
        raise AnalysisError(f"comprehension with {len(comp.generators)} generators: {norm(comp)[:80]}")
    g = comp.generators[0]
    return comp.elt, g.target, g.iter, g.ifs


def style_filter(fn, name=None):
    """The repository's idiom
           if use_style: filtr = lambda c: c.has_contest(self.contest.id)
           else:         filtr = lambda c: True
       -> function(arg_symbol_name) -> cond,  plus the If node.  None if absent."""
    for st in walk_local(fn):
        # the same two lambdas selected by a conditional expression: filtr = (lambda ..) if use_style else (lambda ..)
        if isinstance(st, ast.Assign) and len(st.targets) == 1 and isinstance(st.targets[0], ast.Name) and isinstance(st.value, ast.IfExp) \
                and isinstance(st.value.body, ast.Lambda) and isinstance(st.value.orelse, ast.Lambda) \
                and (name is None or norm(st.targets[0]) == name):
            def g(argname, tx_factory, st=st):
                tx = tx_factory()
                c = tx.cond(st.value.test)
                res = []
                for lam in (st.value.body, st.value.orelse):
                    p = lam.args.args[0].arg
                    t2 = tx.child({**tx.env, p: E(S(argname))})
                    res.append(t2.cond(lam.body))
                return c_or(c_and(c, res[0]), c_and(c_not(c), res[1]))
            g.name = norm(st.targets[0])
            return g, st
        if isinstance(st, ast.If) and len(st.body) == 1 and len(st.orelse) == 1:
            a, b = st.body[0], st.orelse[0]
            if all(isinstance(x, ast.Assign) and len(x.targets) == 1 and isinstance(x.targets[0], ast.Name)
                   and isinstance(x.value, ast.Lambda) for x in (a, b)) and norm(a.targets[0]) == norm(b.targets[0]) \
                    and (name is None or norm(a.targets[0]) == name):
                def f(argname, tx_factory, st=st, a=a, b=b):
                    tx = tx_factory()
                    c = tx.cond(st.test)
                    res = []
                    for lam in (a.value, b.value):
                        p = lam.args.args[0].arg
                        t2 = tx.child({**tx.env, p: E(S(argname))})
                        res.append(t2.cond(lam.body))
                    return c_or(c_and(c, res[0]), c_and(c_not(c), res[1]))
                f.name = norm(a.targets[0])
                return f, st
    return None, None


def cond_equiv(c1, c2):
    from .symx import cond_atoms, rows, eval_cond

    atoms = cond_atoms(c1) | cond_atoms(c2)
    n = 0
    for row in rows(atoms):
        n += 1
        if eval_cond(c1, row) != eval_cond(c2, row):
            return False, n, row
    return True, n, None


def lambdas_in(node):
    return [n for n in ast.walk(node) if isinstance(n, ast.Lambda)]


def free_names(lam: ast.Lambda):
    """Names read in the lambda body that are not its parameters."""
    params = {a.arg for a in lam.args.args + lam.args.kwonlyargs}
    if lam.args.vararg:
        params.add(lam.args.vararg.arg)
    if lam.args.kwarg:
        params.add(lam.args.kwarg.arg)
    out = set()
    for n in ast.walk(lam.body):
        if isinstance(n, ast.Name) and isinstance(n.ctx, ast.Load) and n.id not in params:
            out.add(n.id)
    return out


def loop_rebound_names(lam, func):
    """Names (re)bound by the loops that enclose the lambda inside func
    (loop targets and every name assigned in those loop bodies)."""
    from .astutil import ancestors, names_stored

    out = set()
    for a in ancestors(lam):
        if a is func:
            break
        if isinstance(a, (ast.For, ast.While)):
            if isinstance(a, ast.For):
                out |= names_stored(a.target)
            for st in a.body:
                for n in ast.walk(st):
                    if isinstance(n, (ast.Assign, ast.AugAssign, ast.AnnAssign, ast.For, ast.NamedExpr, ast.comprehension)):
                        tgts = n.targets if isinstance(n, ast.Assign) else [n.target]
                        for t in tgts:
                            out |= names_stored(t)
    return out


def closure_lint(chk, rule, where, func, lam, label):
    """E7: a lambda created in a loop may use the loop's variables only through
    default-argument binding (late binding would make every lambda see the
    values of the last iteration)."""
    free = free_names(lam)
    rebound = loop_rebound_names(lam, func)
    bad = sorted(free & rebound)
    # defaults must bind a loop variable to the parameter of the same meaning: p=p or p=<expr over loop vars>
    chk.ob(rule, where, f"late-binding:{label}", not bad,
           "a lambda created inside a loop reads loop variables only through default-argument binding",
           node=lam, late_bound=bad)
    return not bad


def lambda_term(lam: ast.Lambda, outer_tx: Tx, arg_names=None):
    """Translate a lambda: parameters with defaults are bound to their default
    expressions evaluated in the enclosing environment (that is what Python does
    at creation time); positional parameters without default become symbols."""
    env = dict(outer_tx.env)
    args = lam.args.args
    defaults = lam.args.defaults
    n_nodef = len(args) - len(defaults)
    for i, a in enumerate(args):
        if i < n_nodef:
            nm = arg_names[i] if arg_names and i < len(arg_names) else a.arg
            env[a.arg] = E(S(nm))
        else:
            env[a.arg] = outer_tx.expr(defaults[i - n_nodef])
    t = outer_tx.child(env)
    return t.expr(lam.body), t


def ctor_fields(chk, rule, rel, cls, fields, why):
    """Constructor-field agreement: `cls.__init__` stores each named parameter, unconditionally and exactly once, into the attribute
    of the same name (what every other rule assumes when it reads `obj.field` as "the value the caller configured")."""
    import ast as _ast
    from .astutil import stores as _stores, parent as _parent
    fn = chk.fn(rel, f"{cls}.__init__")
    params = [a.arg for a in fn.args.args + fn.args.kwonlyargs]
    cdef = chk.idx.cls(rel, cls)
    # a property (or any class-level binding) of the field's name stands between `obj.field = v` and what is read back: a setter
    # may convert or reject, and objects filled through `__dict__.update` (from_dict) bypass it while reads do not
    shadows = {m.name for m in cdef.body if isinstance(m, _ast.FunctionDef) and m.decorator_list} | \
        {t.id for m in cdef.body if isinstance(m, (_ast.Assign, _ast.AnnAssign)) for t in (m.targets if isinstance(m, _ast.Assign) else [m.target])
         if isinstance(t, _ast.Name) and isinstance(getattr(m, "value", None), _ast.Call)}
    for f in fields:
        p_ = f if not isinstance(f, tuple) else f[1]
        a_ = f if not isinstance(f, tuple) else f[0]
        sts = [(t, v, s0) for t, v, s0 in _stores(fn) if isinstance(t, _ast.Attribute) and norm(t.value) == "self" and t.attr == a_]
        ok = p_ in params and len(sts) == 1 and isinstance(sts[0][1], _ast.Name) and sts[0][1].id == p_ and _parent(sts[0][2]) is fn \
            and a_ not in shadows
        chk.ob(rule, f"{rel}:{cls}.__init__", f"field-is-its-parameter[{a_}]", ok,
               f"`{cls}(…, {p_}=v)` makes `obj.{a_}` equal to v: one unconditional store of the parameter into a plain attribute ({why})",
               node=sts[0][2] if sts else fn, strength="N", stores=[norm(s0)[:80] for t, v, s0 in sts],
               **({"shadowed_by": "a property / descriptor of that name in the class"} if a_ in shadows else {}))


def mean_facts(chk):
    """What Assorter.mean computes, decided for the two spellings a maintainer would use:
         A.  np.mean([self.assort(c) for c in cvr_list if filtr(c)])                         (filter idiom in the method)
         B.  self.sum(cvr_list, use_style=use_style) / <number of cards passing the same filter>   (Assorter.sum being the np.sum
             over the same filtered comprehension)
       -> dict(filter=<cond over 'c'> or None, over_filtered=bool, node, detail).  Anything else is *decided* as "not the mean over
       the filtered cards" (filter None / over_filtered False), not given up on."""
    import ast as _ast
    from .symx import Tx as _Tx
    mean = chk.fn(REL, "Assorter.mean", canonical=True)
    out = dict(filter=None, over_filtered=False, node=mean, detail={})
    rets = [n for n in walk_local(mean) if isinstance(n, _ast.Return)]
    if len(rets) != 1:
        return out
    out["node"] = rets[0]
    v = rets[0].value

    def filtered_comp(fn, call_names, elt_of):
        """a call np.<agg>(comp) with comp = [<elt> for c in cvr_list if filtr(c)] and the filter idiom in fn -> cond or None"""
        f, _ = style_filter(fn)
        if f is None:
            return None, None
        return f, f.name

    if isinstance(v, _ast.Call) and norm(v.func) in ("np.mean", "numpy.mean") and style_filter(mean)[0] is not None:
        f, _ = style_filter(mean)
        cs = comps(v)
        if f is not None and len(cs) == 1 and len(cs[0].generators) == 1:
            elt, tgt, it, ifs = single_gen(cs[0])
            out["detail"] = dict(elt=norm(elt), iter=norm(it), ifs=[norm(i) for i in ifs])
            out["filter"] = f("c", lambda: _Tx())
            out["over_filtered"] = norm(elt) == f"self.assort({norm(tgt)})" and norm(it) == "cvr_list" and len(ifs) == 1 \
                and norm(ifs[0]) == f"{f.name}({norm(tgt)})"
        return out
    if isinstance(v, _ast.Call) and norm(v.func) in ("np.mean", "numpy.mean") and style_filter(mean)[0] is None:
        # C.  if use_style: R = filter(lambda c: P(c), cvr_list) [or a generator over cvr_list with that test]  else: R = cvr_list
        #     ... np.mean([self.assort(c) for c in R]):  the cards are those with (not use_style) or P(c)
        cs = comps(v)
        if len(cs) == 1 and len(cs[0].generators) == 1:
            elt, tgt, it, ifs = single_gen(cs[0])
            if isinstance(it, _ast.Name) and not ifs and norm(elt) == f"self.assort({norm(tgt)})":
                defs = [s_ for s_ in walk_local(mean) if isinstance(s_, _ast.Assign) and len(s_.targets) == 1 and norm(s_.targets[0]) == it.id]
                branch = parent(defs[0]) if defs else None
                if len(defs) == 2 and isinstance(branch, _ast.If) and parent(defs[1]) is branch and len(branch.body) == 1 and len(branch.orelse) == 1:
                    pos, neg = branch.body[0].value, branch.orelse[0].value
                    tcond = _Tx().cond(branch.test)
                    if norm(pos) in ("cvr_list", "list(cvr_list)"):
                        pos, neg, tcond = neg, pos, c_not(tcond)
                    pred = None
                    if norm(neg) in ("cvr_list", "list(cvr_list)"):
                        if isinstance(pos, _ast.Call) and norm(pos.func) == "filter" and len(pos.args) == 2 and isinstance(pos.args[0], _ast.Lambda) \
                                and norm(pos.args[1]) == "cvr_list" and len(pos.args[0].args.args) == 1:
                            pred = (pos.args[0].args.args[0].arg, pos.args[0].body)
                        elif isinstance(pos, (_ast.GeneratorExp, _ast.ListComp)) and len(pos.generators) == 1 and len(pos.generators[0].ifs) == 1 \
                                and norm(pos.generators[0].iter) == "cvr_list" and norm(pos.elt) == norm(pos.generators[0].target):
                            pred = (norm(pos.generators[0].target), pos.generators[0].ifs[0])
                    if pred is not None:
                        var, body = pred
                        t_ = _Tx(env={var: E(S("c"))})
                        out["filter"] = c_or(c_not(tcond), t_.cond(body))
                        out["over_filtered"] = True
                        out["detail"] = dict(elt=norm(elt), cards=f"{norm(pos)[:80]} if {norm(branch.test)} else {norm(neg)}")
                        return out
    if isinstance(v, _ast.BinOp) and isinstance(v.op, _ast.Div) and isinstance(v.left, _ast.Call) and norm(v.left.func) == "self.sum":
        # numerator: Assorter.sum over the filtered cards
        sm = chk.fn(REL, "Assorter.sum", canonical=True)
        fs, _ = style_filter(sm)
        srets = [n for n in walk_local(sm) if isinstance(n, _ast.Return)]
        num_ok = False
        if fs is not None and len(srets) == 1 and isinstance(srets[0].value, _ast.Call) and norm(srets[0].value.func) in ("np.sum", "numpy.sum", "sum"):
            cs = comps(srets[0].value)
            if len(cs) == 1 and len(cs[0].generators) == 1:
                elt, tgt, it, ifs = single_gen(cs[0])
                num_ok = norm(elt) == f"self.assort({norm(tgt)})" and norm(it) == "cvr_list" and len(ifs) == 1 and norm(ifs[0]) == f"{fs.name}({norm(tgt)})"
        kw = {k.arg: norm(k.value) for k in v.left.keywords}
        args = [norm(a) for a in v.left.args]
        passes = (args[:1] == ["cvr_list"]) and (kw.get("use_style") == "use_style" or args[1:2] == ["use_style"])
        # denominator: the number of cards passing the same filter (in mean itself)
        fm, _ = style_filter(mean)
        den_ok = False
        from .canon import expand_locals as _xl
        d = _xl(v.right, mean)
        if fm is not None:
            if isinstance(d, _ast.Call) and norm(d.func) == "len" and len(d.args) == 1 and isinstance(d.args[0], _ast.ListComp):
                elt, tgt, it, ifs = single_gen(d.args[0])
                den_ok = norm(it) == "cvr_list" and len(ifs) == 1 and norm(ifs[0]) == f"{fm.name}({norm(tgt)})"
            if isinstance(d, _ast.Call) and norm(d.func) in ("np.sum", "sum") and len(d.args) == 1 and isinstance(d.args[0], (_ast.ListComp, _ast.GeneratorExp)):
                elt, tgt, it, ifs = single_gen(d.args[0])
                den_ok = norm(it) == "cvr_list" and ((not ifs and norm(elt) == f"{fm.name}({norm(tgt)})") or
                                                     (len(ifs) == 1 and norm(ifs[0]) == f"{fm.name}({norm(tgt)})" and norm(elt) == "1"))
            out["filter"] = fm("c", lambda: _Tx())
        elif fs is not None:
            out["filter"] = fs("c", lambda: _Tx())
        same = fs is not None and fm is not None and cond_equiv(fs("c", lambda: _Tx()), fm("c", lambda: _Tx()))[0]
        out["detail"] = dict(numerator=norm(v.left), denominator=norm(d), sum_over_filtered=num_ok, count_over_filtered=den_ok,
                             numerator_and_denominator_use_the_same_filter=same)
        out["over_filtered"] = num_ok and passes and den_ok and same
        return out
    out["detail"] = dict(returned=norm(v)[:160])
    return out


def same_name_arguments(chk, rule, rel, caller_q, callee_q, what, strict=False):
    """Argument discipline between a wrapper and the function it delegates to: every argument of the call that is a plain name
    equal to one of the callee's parameter names must be bound to *that* parameter (positionally or by keyword), and every
    parameter the two functions share is handed on.  Swapped positional arguments of the same type compile and run."""
    import ast as _ast
    caller = chk.fn(rel, caller_q)
    callee = chk.fn(rel, callee_q)
    cps = [a.arg for a in callee.args.args]
    if cps and cps[0] in ("self", "cls"):
        cps = cps[1:]
    short = callee_q.split(".")[-1]
    calls = [c for c in _ast.walk(caller) if isinstance(c, _ast.Call) and norm(c.func).split(".")[-1] == short]
    problems = []
    shared = set(cps) & {a.arg for a in caller.args.args}
    for c in calls:
        bound = {}
        for k, a in enumerate(c.args):
            if k < len(cps):
                bound[cps[k]] = a
        for kw in c.keywords:
            if kw.arg:
                bound[kw.arg] = kw.value
        for p_, a in bound.items():
            if isinstance(a, _ast.Name) and a.id in cps and a.id != p_:
                problems.append(f"`{a.id}` is passed as `{p_}`")
        for p_ in sorted(shared):
            if p_ not in bound:
                problems.append(f"`{p_}` is not handed on")
            elif strict:
                # the callee gets the caller's own argument, not something derived from it (a filtered copy, a sorted copy, ...)
                from .canon import expand_locals as _xl
                got = _xl(bound[p_], caller, stop=(p_,))
                rebound = any(isinstance(x, _ast.Name) and x.id == p_ and isinstance(x.ctx, (_ast.Store, _ast.Del)) for x in _ast.walk(caller))
                if norm(got) != p_ or rebound:
                    problems.append(f"`{p_}` of the callee receives {norm(got)[:60]}, not the caller's `{p_}`")
    chk.ob(rule, f"{rel}:{caller_q}", f"arguments-reach-their-namesakes[{short}]", bool(calls) and not problems,
           f"{what}: each option of {caller_q} is passed to the parameter of {callee_q} with the same name", node=calls[0] if calls else caller,
           strength="N", problems=problems, calls=len(calls))


def or_defaults(fn, is_configured):
    """`value or default` used as a *value* (not as a condition) whose earlier operands satisfy is_configured(node): the idiom
    that replaces a configured 0 / empty value by the default.  -> [text]"""
    from .astutil import parent as _parent
    bad = []
    for b in ast.walk(fn):
        if not (isinstance(b, ast.BoolOp) and isinstance(b.op, ast.Or)):
            continue
        if not any(is_configured(v) for v in b.values[:-1]):
            continue
        p_ = _parent(b)
        in_cond = False
        while p_ is not None and not isinstance(p_, ast.stmt):
            if isinstance(p_, (ast.Compare, ast.UnaryOp, ast.BoolOp)) or (isinstance(p_, ast.IfExp) and p_.test is b) or \
                    (isinstance(p_, ast.comprehension) and any(b is i_ for i_ in p_.ifs)):
                in_cond = True
            p_ = _parent(p_)
        if isinstance(p_, (ast.If, ast.While, ast.Assert)):
            in_cond = True
        if not in_cond:
            bad.append(norm(b)[:100])
    return bad


def adjacent_grouping(node):
    """calls of itertools.groupby whose input is not sorted by the same key first: groupby starts a new group whenever the key
    changes, so items with equal keys that are not adjacent end up in different groups.  -> [Call]"""
    out = []
    for c in ast.walk(node):
        if isinstance(c, ast.Call) and norm(c.func) in ("groupby", "itertools.groupby") and c.args:
            src = c.args[0]
            key = next((k.value for k in c.keywords if k.arg == "key"), c.args[1] if len(c.args) > 1 else None)
            sorted_first = isinstance(src, ast.Call) and norm(src.func) == "sorted" and \
                norm(next((k.value for k in src.keywords if k.arg == "key"), None) or ast.Constant(value=None)) == norm(key or ast.Constant(value=None))
            if not sorted_first:
                out.append(c)
    return out


def unvalidated_cache(fd, st, target, recv, module_names):
    """A store into self is harmless only as a *validated* cache: it sits under a test that compares (== / !=), against the
    stored key, every input the cached value is computed from -- every attribute of self and every name defined outside the
    guarded block that the block reads.  Returns None when that is the case, else what is missing.  A sample array can never be
    a validated input (the same object may hold other numbers at the next call)."""
    import builtins
    from .astutil import ancestors
    guard = next((a for a in ancestors(st) if isinstance(a, ast.If)), None)
    if guard is None or not any(st is n_ for b in guard.body for n_ in ast.walk(b)):
        return "not under a test that validates it"
    key_txt = set()
    for c in ast.walk(guard.test):
        if isinstance(c, ast.Compare) and all(isinstance(o, (ast.Eq, ast.NotEq)) for o in c.ops):
            for side in [c.left] + list(c.comparators):
                for n_ in ast.walk(side):
                    if isinstance(n_, (ast.Name, ast.Attribute)):
                        key_txt.add(norm(n_))
    assigned = {n_.id for b in guard.body for n_ in ast.walk(b) if isinstance(n_, ast.Name) and isinstance(n_.ctx, ast.Store)}
    params = {a.arg for a in fd.args.posonlyargs + fd.args.args + fd.args.kwonlyargs} - {recv}
    cache_attr = norm(target).split("[")[0]
    missing = []
    for b in guard.body:
        for n_ in ast.walk(b):
            if isinstance(n_, ast.Name) and isinstance(n_.ctx, ast.Load):
                if n_.id in assigned or n_.id == recv or n_.id in module_names or hasattr(builtins, n_.id) or n_.id in ("np", "math", "warnings"):
                    continue
                if n_.id in params:
                    missing.append(f"parameter {n_.id} (an argument cannot be validated by a stored key)")
                elif n_.id not in key_txt:
                    missing.append(n_.id)
            elif isinstance(n_, ast.Attribute) and isinstance(n_.ctx, ast.Load) and norm(n_).startswith(recv + "."):
                from .core import norm as _n
                par = getattr(n_, "_parent", None)
                if isinstance(par, ast.Attribute):
                    continue  # a longer chain is looked at instead
                txt = norm(n_)
                if txt == cache_attr or txt.startswith(cache_attr + "."):
                    continue
                if isinstance(par, ast.Call) and par.func is n_:
                    missing.append(f"{txt}(...) (a method's result cannot be validated by a stored key)")
                elif txt not in key_txt:
                    missing.append(txt)
            elif isinstance(n_, ast.Call) and norm(n_.func) == "getattr" and n_.args and norm(n_.args[0]) == recv:
                missing.append(norm(n_)[:40])
    if missing:
        return "the value depends on " + ", ".join(sorted(set(missing))[:4]) + ", which the guard does not compare with the stored key"
    return None



_MUTATORS = {"append", "extend", "insert", "pop", "popitem", "clear", "update", "setdefault", "add", "discard", "remove", "sort",
             "reverse", "__setitem__", "move_to_end"}


def state_problems(module_tree, q, fd):
    """what makes a call of fd depend on earlier calls: stores into self / cls (a validated cache excepted), into module-level
    objects, global / nonlocal declarations, mutable defaults.  -> [text]"""
    from .astutil import walk_local
    module_names, module_mutables = set(), set()
    for st in module_tree.body:
        if isinstance(st, (ast.Assign, ast.AnnAssign)):
            tg = st.targets if isinstance(st, ast.Assign) else [st.target]
            for t in tg:
                if isinstance(t, ast.Name):
                    module_names.add(t.id)
                    v = st.value
                    if isinstance(v, (ast.List, ast.Dict, ast.Set, ast.ListComp, ast.DictComp, ast.SetComp)) or \
                            (isinstance(v, ast.Call) and norm(v.func).split(".")[-1] in ("dict", "list", "set", "defaultdict", "OrderedDict",
                                                                                      "WeakKeyDictionary", "WeakValueDictionary", "deque")):
                        module_mutables.add(t.id)
        elif isinstance(st, ast.ClassDef):
            module_names.add(st.name)
    local_names = {a.arg for a in fd.args.posonlyargs + fd.args.args + fd.args.kwonlyargs} | \
        {x.id for x in walk_local(fd) if isinstance(x, ast.Name) and isinstance(x.ctx, ast.Store)}
    first = fd.args.args[0].arg if ("." in q and fd.args.args) else None
    recv = first if first in ("self", "cls") else None
    problems = []
    for d in list(fd.args.defaults) + [k for k in fd.args.kw_defaults if k is not None]:
        if isinstance(d, (ast.List, ast.Dict, ast.Set, ast.ListComp, ast.DictComp, ast.SetComp)) or \
                (isinstance(d, ast.Call) and norm(d.func) in ("dict", "list", "set", "defaultdict", "OrderedDict", "collections.defaultdict")):
            # (a mutable default that is only read is the repo's idiom for "no options"; one that is written is state)
            nm = next((a.arg for a, dd in zip(reversed(fd.args.args), reversed(fd.args.defaults)) if dd is d), None) or \
                next((a.arg for a, dd in zip(fd.args.kwonlyargs, fd.args.kw_defaults) if dd is d), None)
            written = nm is not None and any(
                (isinstance(x, (ast.Subscript, ast.Attribute)) and isinstance(x.ctx, (ast.Store, ast.Del)) and _root_name(x) == nm) or
                (isinstance(x, ast.Call) and isinstance(x.func, ast.Attribute) and _root_name(x.func.value) == nm and x.func.attr in _MUTATORS)
                for x in walk_local(fd))
            if written or nm is None:
                problems.append(f"mutable default {norm(d)[:40]} that is written (line {d.lineno})")
    for nd in walk_local(fd):
        if isinstance(nd, (ast.Global, ast.Nonlocal)):
            problems.append(f"{type(nd).__name__.lower()} {', '.join(nd.names)} (line {nd.lineno})")
        tg = []
        if isinstance(nd, ast.Assign):
            tg = nd.targets
        elif isinstance(nd, (ast.AugAssign, ast.AnnAssign)):
            tg = [nd.target]
        elif isinstance(nd, ast.Delete):
            tg = nd.targets
        for t in tg:
            for sub in ([t] if not isinstance(t, (ast.Tuple, ast.List)) else t.elts):
                root = sub
                while isinstance(root, (ast.Attribute, ast.Subscript)):
                    root = root.value
                if recv and isinstance(sub, (ast.Attribute, ast.Subscript)) and isinstance(root, ast.Name) and root.id == recv:
                    why = unvalidated_cache(fd, nd, sub, recv, module_names)
                    if why:
                        problems.append(f"stores {norm(sub)[:50]} (line {nd.lineno}): {why}")
                elif isinstance(sub, (ast.Attribute, ast.Subscript)) and isinstance(root, ast.Name) and root.id in module_names \
                        and root.id not in local_names:
                    problems.append(f"stores {norm(sub)[:50]}, rooted at a module-level name (line {nd.lineno})")
        if isinstance(nd, ast.Call):
            f = norm(nd.func)
            if f in ("setattr", "object.__setattr__", "delattr") and nd.args and recv and norm(nd.args[0]) == recv:
                problems.append(f"{f}({recv}, ...) (line {nd.lineno})")
            if recv and f in (f"{recv}.__dict__.update", f"{recv}.__dict__.setdefault", f"vars({recv}).update", f"{recv}.__dict__.pop"):
                problems.append(f"{f}(...) (line {nd.lineno})")
            if isinstance(nd.func, ast.Attribute) and nd.func.attr in _MUTATORS:
                r_ = _root_name(nd.func.value)
                if r_ in module_mutables and r_ not in local_names:
                    problems.append(f"{f}(...) mutates a module-level container (line {nd.lineno})")
                elif recv and r_ == recv and isinstance(nd.func.value, (ast.Attribute, ast.Subscript)):
                    problems.append(f"{f}(...) mutates an attribute of {recv} (line {nd.lineno})")
    return problems


def _root_name(x):
    while isinstance(x, (ast.Attribute, ast.Subscript)):
        x = x.value
    return x.id if isinstance(x, ast.Name) else None


def keeps_no_state(chk, rule, rel, quals, why):
    """the functions a rule reads as *value* functions compute their value from their arguments and the object's configuration:
    they do not remember anything between calls (see state_problems)"""
    m = chk.idx.module(rel)
    for q in quals:
        if not chk.idx.has_func(rel, q):
            continue
        chk.fn(rel, q)  # (records R0 for it: the body is what the name runs -- a cache decorator is state, too)
        fd = chk.idx.func(rel, q)
        pr = state_problems(m.tree, q, fd)
        chk.ob(rule, f"{rel}:{q}", "keeps-no-state", not pr,
               why + ": nothing is stored into self or a module-level object (a cache validated against every input excepted), no "
               "global declaration, no written mutable default", node=fd, strength="N", **({"problems": pr} if pr else {}))


def from_dict_verbatim(chk, rule, rel, cls, why):
    """`cls.from_dict(d)` makes an object whose attributes are the entries of d, verbatim: a default object, one `__dict__.update(d)`,
    nothing else stored (an entry that is cleaned, converted or dropped on the way is no longer what the caller configured)"""
    fn = chk.fn(rel, f"{cls}.from_dict")
    from .astutil import stores as _stores
    ups = [c for c in ast.walk(fn) if isinstance(c, ast.Call) and norm(c.func).endswith(".__dict__.update") and len(c.args) == 1]
    obj = norm(ups[0].func).split(".")[0] if ups else None
    dpar = fn.args.args[1].arg if len(fn.args.args) > 1 else "d"
    other = [norm(s0)[:70] for t_, v_, s0 in _stores(fn) if isinstance(t_, (ast.Attribute, ast.Subscript)) and _root_name(t_) in (obj, dpar)]
    rebound = [x.id for x in ast.walk(fn) if isinstance(x, ast.Name) and x.id == dpar and isinstance(x.ctx, (ast.Store, ast.Del))]
    ok = len(ups) == 1 and norm(ups[0].args[0]) == dpar and not other and not rebound
    chk.ob(rule, f"{rel}:{cls}.from_dict", "entries-become-attributes-verbatim", ok,
           f"{cls}.from_dict(d) updates a default object's __dict__ with d and stores nothing else ({why})", node=fn, strength="N",
           **({"other_stores": other} if other else {}))


def ids_only_translation(chk, rule, rel, qual, why):
    """`Dominion.raire_to_dominion(cvr_list)` translates identifiers and nothing else: it returns the list it was given, and the only
    thing it stores is the `id` of the list's own elements (a copy that carries over a chosen set of attributes loses the others:
    the phantom flag, for one)"""
    if not chk.idx.has_func(rel, qual):
        return
    fn = chk.fn(rel, qual)
    from .astutil import stores as _stores
    par = fn.args.args[-1].arg if fn.args.args else "cvr_list"
    rets = [r for r in walk_local(fn) if isinstance(r, ast.Return)]
    loops = [l for l in walk_local(fn) if isinstance(l, ast.For) and norm(l.iter) == par]
    lv = norm(loops[0].target) if loops else None
    sts = [(t_, v_, s0) for t_, v_, s0 in _stores(fn)]
    only_ids = bool(sts) and all(isinstance(t_, ast.Attribute) and t_.attr == "id" and norm(t_.value) == lv for t_, v_, s0 in sts)
    ctor = [c for c in ast.walk(fn) if isinstance(c, ast.Call) and norm(c.func) in ("CVR", "copy.copy", "copy.deepcopy", "deepcopy")]
    ok = len(rets) == 1 and norm(rets[0].value) == par and len(loops) == 1 and only_ids and not ctor
    chk.ob(rule, f"{rel}:{qual}", "translates-ids-in-place", ok,
           f"the identifier translation returns the very records it was given with only their id re-written ({why})", node=fn, strength="N")


# ---------------------------------------------------------------------------
# who may write the configuration of an assertion's test object (added with the eighth wave)

TEST_CONFIG_WRITERS = {
    # (function, attribute): why this store is part of the design
    ("Assertion.set_margin_from_cvrs", "u"): "the bound of the data follows the margin (C06.R3 reads the value stored)",
    ("Assertion.set_all_margins_from_cvrs", "u"): "the same, for every assertion of a contest",
    ("Assertion.set_p_values", "u"): "the bound mvrs_to_data reports for the data it hands over (C06.R4)",
}


def _test_attr_target(t, aliases):
    """-> the attribute of a test object that the store target t writes (`<x>.test.<attr>`, `<x>.test.<attr>[i]`, or the same
    through a local alias of `<x>.test`), else None"""
    chain = []
    x = t
    while isinstance(x, (ast.Attribute, ast.Subscript)):
        chain.append(x)
        x = x.value
    # chain: outermost first; look for an Attribute whose value is `<...>.test` or an alias
    for nd in chain:
        if isinstance(nd, ast.Attribute):
            v = nd.value
            if isinstance(v, ast.Attribute) and v.attr == "test":
                return nd.attr
            if isinstance(v, ast.Name) and v.id in aliases:
                return nd.attr
    return None


def test_config_writers(chk, rule, why):
    """The NonnegMean object of an assertion is configured by the constructor call in Assertion.__init__ (and `u` by the three
    confirmed sites above).  Every other store into an attribute of `<x>.test` -- from any module of the package -- makes the
    configuration a function of the audit's history or of the sample itself: a rate 'learned' from the observations, a value
    left behind by sample-size planning, a margin copied at one moment and stale at the next.  Whole-package scan; a local alias
    `t = <x>.test` is followed; setattr / __dict__ / vars forms count."""
    from .astutil import walk_local
    seen = 0
    for rel, m in sorted(chk.idx.modules.items()):
        for q, fd in sorted(m.defs.items()):
            if not isinstance(fd, (ast.FunctionDef, ast.AsyncFunctionDef)):
                continue
            aliases = set()
            for nd in walk_local(fd):
                if isinstance(nd, ast.Assign) and isinstance(nd.value, ast.Attribute) and nd.value.attr == "test":
                    for t in nd.targets:
                        if isinstance(t, ast.Name):
                            aliases.add(t.id)
                elif isinstance(nd, ast.NamedExpr) and isinstance(nd.value, ast.Attribute) and nd.value.attr == "test":
                    aliases.add(nd.target.id)
            if fd.name in ("__init__",) and rel.endswith("NonnegMean.py"):
                continue
            for nd in walk_local(fd):
                hits = []
                tg = []
                if isinstance(nd, ast.Assign):
                    tg = nd.targets
                elif isinstance(nd, (ast.AugAssign, ast.AnnAssign)):
                    tg = [nd.target]
                elif isinstance(nd, ast.Delete):
                    tg = nd.targets
                for t in tg:
                    for sub in (t.elts if isinstance(t, (ast.Tuple, ast.List)) else [t]):
                        a = _test_attr_target(sub, aliases)
                        if a is not None:
                            hits.append(a)
                if isinstance(nd, ast.Call):
                    f = norm(nd.func)
                    a0 = nd.args[0] if nd.args else None
                    is_test = lambda e: (isinstance(e, ast.Attribute) and e.attr == "test") or (isinstance(e, ast.Name) and e.id in aliases)
                    if f in ("setattr", "object.__setattr__", "delattr") and a0 is not None and is_test(a0):
                        hits.append(norm(nd.args[1]) if len(nd.args) > 1 else "?")
                    elif isinstance(nd.func, ast.Attribute) and nd.func.attr in ("update", "setdefault", "pop", "clear", "__setitem__"):
                        recv = nd.func.value
                        if isinstance(recv, ast.Attribute) and recv.attr == "__dict__" and is_test(recv.value):
                            hits.append("__dict__")
                        elif isinstance(recv, ast.Call) and norm(recv.func) == "vars" and recv.args and is_test(recv.args[0]):
                            hits.append("__dict__")
                for a in hits:
                    seen += 1
                    ok = (q, a) in TEST_CONFIG_WRITERS and rel == REL
                    chk.ob(rule, f"{rel}:{q}", f"test-config-write[{a}]", ok,
                           why + ": the attributes of an assertion's test object are written by its constructor only, and `u` by "
                           "set_margin_from_cvrs / set_all_margins_from_cvrs / set_p_values; any other store makes the test's "
                           "configuration depend on the history of calls or on the sample", node=nd, strength="N",
                           **({} if ok else {"store": norm(nd)[:120]}))
    chk.need(rule, seen, 2, "stores into attributes of a test object (the confirmed `u` sites)")


# ---------------------------------------------------------------------------
# frame condition on arguments: a function that only *reads* its inputs (added with the eighth wave)

_BY_REFERENCE_METHODS = {"get", "items", "values", "setdefault", "__getitem__"}
_ARRAY_VIEWS = {"np.asarray", "np.asanyarray", "numpy.asarray", "np.ravel", "np.atleast_1d"}


def argument_mutations(fd, skip=()):
    """-> [(parameter, text, node)]: the places where fd changes an object it was handed -- a mutating method call, a store or
    del through a subscript or an attribute, an augmented assignment of an array view, an `out=` argument -- on a parameter or
    on something reached from a parameter *by reference* (an alias, an element, an attribute, a loop variable over it, .get /
    .items / .values, np.asarray of it).  Anything that makes a new object (a call, a comprehension, a literal, arithmetic)
    ends the chain.  Names are resolved through the bindings that can reach the use: a binding in the other arm of an `if`
    does not, and an unconditional re-binding earlier in the same (or an enclosing) statement list hides what came before it."""
    from .astutil import ancestors
    params = [a.arg for a in fd.args.posonlyargs + fd.args.args + fd.args.kwonlyargs]
    if fd.args.vararg:
        params.append(fd.args.vararg.arg)
    if fd.args.kwarg:
        params.append(fd.args.kwarg.arg)
    params = [p for p in params if p not in ("self", "cls") and p not in skip]
    # bindings: name -> [(stmt, value expression or ("iter", expr))]
    binds = {}

    def add(t, stmt, val):
        if isinstance(t, ast.Name):
            binds.setdefault(t.id, []).append((stmt, val))
        elif isinstance(t, (ast.Tuple, ast.List)):
            for el in t.elts:
                add(el.value if isinstance(el, ast.Starred) else el, stmt, val)

    for nd in walk_local(fd):
        if isinstance(nd, ast.Assign):
            for t in nd.targets:
                add(t, nd, nd.value)
        elif isinstance(nd, ast.AnnAssign) and nd.value is not None:
            add(nd.target, nd, nd.value)
        elif isinstance(nd, ast.NamedExpr):
            add(nd.target, nd, nd.value)
        elif isinstance(nd, (ast.For, ast.AsyncFor)):
            add(nd.target, nd, ("iter", nd.iter))
        elif isinstance(nd, ast.With):
            for it in nd.items:
                if it.optional_vars is not None:
                    add(it.optional_vars, nd, it.context_expr)
        elif isinstance(nd, ast.AugAssign) and isinstance(nd.target, ast.Name):
            pass  # keeps what the name referred to (in place) or makes a new object: neither adds a reference

    # what is put *into* a local container: name -> [(stmt, expression, whole)] (whole: its elements are added, not itself)
    puts = {}
    for nd in walk_local(fd):
        if isinstance(nd, ast.Assign):
            for t in nd.targets:
                if isinstance(t, ast.Subscript) and isinstance(t.value, ast.Name):
                    puts.setdefault(t.value.id, []).append((nd, nd.value, False))
        elif isinstance(nd, ast.Expr) and isinstance(nd.value, ast.Call) and isinstance(nd.value.func, ast.Attribute) \
                and isinstance(nd.value.func.value, ast.Name) and nd.value.args:
            c_ = nd.value
            if c_.func.attr in ("append", "add", "appendleft"):
                puts.setdefault(c_.func.value.id, []).append((nd, c_.args[0], False))
            elif c_.func.attr in ("insert", "setdefault") and len(c_.args) > 1:
                puts.setdefault(c_.func.value.id, []).append((nd, c_.args[1], False))
            elif c_.func.attr in ("extend", "update"):
                puts.setdefault(c_.func.value.id, []).append((nd, c_.args[0], True))

    def chain(n):
        """[(statement list owner, field, index)] from the function body down to n"""
        out = []
        cur = n
        while cur is not fd and cur is not None:
            par = getattr(cur, "_parent", None)
            if par is None:
                break
            for field in ("body", "orelse", "finalbody", "handlers"):
                lst = getattr(par, field, None)
                if isinstance(lst, list) and any(cur is x for x in lst):
                    out.append((par, field, next(i for i, x in enumerate(lst) if x is cur)))
                    break
            cur = par
        return out[::-1]

    def reaching(name, use):
        uc = chain(use)
        res = []
        cands = binds.get(name, [])
        kill_before = None  # (position key) of the latest unconditional earlier binding
        for stmt, val in cands:
            bc = chain(stmt)
            # exclusive arms of a common If / Try?
            excl = False
            for (po, fo, io), (pb, fb, ib) in zip(uc, bc):
                if po is pb and fo != fb and isinstance(po, ast.If):
                    excl = True
                if po is not pb or fo != fb or io != ib:
                    break
            if excl:
                continue
            res.append((stmt, val, bc))
        # inside the body of a loop over this very name: that loop's binding (and re-bindings inside the body) are what reaches
        for (pu, fu, iu) in reversed(uc):
            if isinstance(pu, (ast.For, ast.AsyncFor)) and fu == "body" and \
                    any(isinstance(n_, ast.Name) and n_.id == name for n_ in ast.walk(pu.target)):
                inner = [(s_, v, bc) for s_, v, bc in res if s_ is pu or any(po is pu for po, _f, _i in bc)]
                if inner:
                    return inner, True
                break
        # unconditional earlier binding in a statement list on the use's chain
        best = None
        for stmt, val, bc in res:
            if not bc:
                continue
            po, fo, io = bc[-1]
            for (pu, fu, iu) in uc:
                if pu is po and fu == fo and io < iu and not isinstance(stmt, (ast.For, ast.AsyncFor)):
                    # stmt is a plain statement of a list the use is (nested) in, before it
                    inloop = any(isinstance(a, (ast.For, ast.While, ast.AsyncFor)) for a, _, _ in uc[uc.index((pu, fu, iu)):])
                    if best is None or stmt.lineno > best.lineno:
                        best = stmt
        if best is not None:
            # bindings textually before `best` are hidden unless inside a loop that contains both (conservative: keep later ones)
            res = [(s_, v, bc) for s_, v, bc in res if s_.lineno >= best.lineno]
            hidden_param = True
        else:
            hidden_param = False
        return res, hidden_param

    def comp_env(comp, at, depth, env):
        env = dict(env)
        for g in comp.generators:
            o = ref_origin(g.iter, at, depth, env) | elem_origin(g.iter, at, depth, env)
            for n_ in ast.walk(g.target):
                if isinstance(n_, ast.Name):
                    env[n_.id] = o
        return env

    def elem_origin(e, at, depth=0, env=None):
        """the parameters the *elements* of the (possibly fresh) container e may refer into"""
        env = env or {}
        if depth > 12:
            return set()
        if isinstance(e, ast.Name):
            if e.id in env:
                return set(env[e.id])
            res, hidden = reaching(e.id, at)
            out = set()
            if e.id in params and not hidden:
                out.add(e.id)
            for stmt, val, _ in res:
                if stmt is at and not isinstance(stmt, (ast.For, ast.AsyncFor)):
                    continue
                if isinstance(val, tuple):
                    continue  # elements of a loop variable: its own reference covers them (ref_origin)
                out |= elem_origin(val, stmt, depth + 1) | ref_origin(val, stmt, depth + 1)
            if e.id not in params:
                for stmt, val, whole in puts.get(e.id, []):
                    out |= (elem_origin(val, stmt, depth + 1) if whole else ref_origin(val, stmt, depth + 1))
            return out
        if isinstance(e, (ast.ListComp, ast.SetComp, ast.GeneratorExp)):
            env2 = comp_env(e, at, depth, env)
            return ref_origin(e.elt, at, depth + 1, env2)  # (one level: the elements themselves, not what they contain)
        if isinstance(e, ast.DictComp):
            env2 = comp_env(e, at, depth, env)
            return ref_origin(e.value, at, depth + 1, env2)
        if isinstance(e, (ast.List, ast.Tuple, ast.Set)):
            out = set()
            for x in e.elts:
                out |= ref_origin(x, at, depth + 1, env)
            return out
        if isinstance(e, ast.Dict):
            out = set()
            for x in e.values:
                if x is not None:
                    out |= ref_origin(x, at, depth + 1, env)
            return out
        if isinstance(e, ast.Call):
            f = norm(e.func)
            if f in ("list", "tuple", "sorted", "reversed", "set", "filter", "iter", "enumerate", "zip", "dict", "OrderedDict", "np.array",
                     "itertools.chain", "chain") and e.args:
                out = set()
                for a in e.args:
                    out |= elem_origin(a, at, depth + 1, env) | (ref_origin(a, at, depth + 1, env) if f not in ("np.array",) else set())
                return out
            if isinstance(e.func, ast.Attribute) and e.func.attr in ("copy", "values", "items"):
                return elem_origin(e.func.value, at, depth + 1, env) | ref_origin(e.func.value, at, depth + 1, env)
            return set()
        if isinstance(e, ast.IfExp):
            return elem_origin(e.body, at, depth, env) | elem_origin(e.orelse, at, depth, env)
        if isinstance(e, ast.Subscript) and isinstance(e.slice, ast.Slice):
            return elem_origin(e.value, at, depth, env)
        return set()

    def ref_origin(e, at, depth=0, env=None):
        """the parameters e may refer into at statement `at`"""
        env = env or {}
        if depth > 12:
            return set()
        if isinstance(e, ast.Name):
            if e.id in env:
                return set(env[e.id])
            res, hidden = reaching(e.id, at)
            out = set()
            if e.id in params and not hidden:
                out.add(e.id)
            for stmt, val, _ in res:
                if stmt is at and not isinstance(stmt, (ast.For, ast.AsyncFor)):
                    continue
                if isinstance(val, tuple):
                    out |= ref_origin(val[1], stmt, depth + 1) | elem_origin(val[1], stmt, depth + 1)
                else:
                    out |= ref_origin(val, stmt, depth + 1)
            return out
        if isinstance(e, ast.Attribute):
            return ref_origin(e.value, at, depth, env)
        if isinstance(e, ast.Subscript):
            if isinstance(e.slice, ast.Constant) and isinstance(e.slice.value, int) and isinstance(e.value, ast.Name) \
                    and e.value.id not in env and e.value.id not in params:
                # element k of a name bound to list / tuple displays only: that element's own origin
                res, _h = reaching(e.value.id, at)
                k = e.slice.value
                if res and all(isinstance(v, (ast.List, ast.Tuple)) and -len(v.elts) <= k < len(v.elts)
                               and not any(isinstance(x, ast.Starred) for x in v.elts) for _s, v, _c in res):
                    out = set()
                    for st_, v, _c in res:
                        out |= ref_origin(v.elts[k], st_, depth + 1)
                    return out
            return ref_origin(e.value, at, depth, env) | elem_origin(e.value, at, depth, env)
        if isinstance(e, ast.Starred):
            return ref_origin(e.value, at, depth, env)
        if isinstance(e, ast.Call):
            f = norm(e.func)
            if f in _ARRAY_VIEWS and e.args:
                return ref_origin(e.args[0], at, depth, env)
            if isinstance(e.func, ast.Attribute) and e.func.attr in _BY_REFERENCE_METHODS:
                return ref_origin(e.func.value, at, depth, env) | elem_origin(e.func.value, at, depth, env)
            if f in ("enumerate", "zip", "reversed", "iter", "next") and e.args:
                out = set()
                for a in e.args:
                    out |= ref_origin(a, at, depth, env) | (elem_origin(a, at, depth, env) if f == "next" else set())
                return out
            return set()
        if isinstance(e, ast.IfExp):
            return ref_origin(e.body, at, depth, env) | ref_origin(e.orelse, at, depth, env)
        if isinstance(e, ast.BoolOp):
            out = set()
            for v in e.values:
                out |= ref_origin(v, at, depth, env)
            return out
        if isinstance(e, ast.NamedExpr):
            return ref_origin(e.value, at, depth, env)
        return set()

    def stmt_of(n):
        cur = n
        while cur is not None and not isinstance(cur, ast.stmt):
            cur = getattr(cur, "_parent", None)
        return cur or n

    out = []
    for nd in walk_local(fd):
        tg = []
        if isinstance(nd, ast.Assign):
            tg = nd.targets
        elif isinstance(nd, ast.AnnAssign):
            tg = [nd.target]
        elif isinstance(nd, ast.Delete):
            tg = nd.targets
        elif isinstance(nd, ast.AugAssign):
            if isinstance(nd.target, ast.Name):
                if _maybe_array(fd, nd.target.id):
                    for o in sorted(ref_origin(nd.target, nd)):
                        out.append((o, f"{norm(nd)[:70]} (in place on an array view of {o})", nd))
            else:
                tg = [nd.target]
        for t in tg:
            for sub in (t.elts if isinstance(t, (ast.Tuple, ast.List)) else [t]):
                if isinstance(sub, (ast.Subscript, ast.Attribute)):
                    for o in sorted(ref_origin(sub.value, nd)):
                        out.append((o, f"stores {norm(sub)[:60]}", nd))
        if isinstance(nd, ast.Call) and isinstance(nd.func, ast.Attribute) and nd.func.attr in _MUTATORS | {"fill", "resize", "put", "itemset", "sort_values", "popleft", "appendleft"}:
            for o in sorted(ref_origin(nd.func.value, stmt_of(nd))):
                out.append((o, f"{norm(nd.func)[:60]}(...)", nd))
        if isinstance(nd, ast.Call):
            for kw in nd.keywords:
                if kw.arg == "out":
                    for o in sorted(ref_origin(kw.value, stmt_of(nd))):
                        out.append((o, f"{norm(nd.func)[:40]}(..., out={norm(kw.value)[:30]})", nd))
    return out


def _maybe_array(fd, name):
    """name is bound (somewhere in fd) through np.asarray & co.: an augmented assignment then works in place"""
    for nd in walk_local(fd):
        if isinstance(nd, ast.Assign) and any(isinstance(t, ast.Name) and t.id == name for t in nd.targets):
            if isinstance(nd.value, ast.Call) and norm(nd.value.func) in _ARRAY_VIEWS:
                return True
    return False


def reads_arguments_only(chk, rule, rel, quals, why, allowed=None, skip=None):
    """none of the named functions changes an object it is handed, except as listed in `allowed`
    {(qual, parameter): reason} (the function's documented effect).  See argument_mutations."""
    allowed = allowed or {}
    skip = skip or {}
    n = 0
    for q in quals:
        if not chk.idx.has_func(rel, q):
            continue
        fd = chk.idx.func(rel, q)
        n += 1
        muts = [(o, txt, nd) for o, txt, nd in argument_mutations(fd, skip=skip.get(q, ())) if (q, o) not in allowed]
        chk.ob(rule, f"{rel}:{q}", "reads-arguments-only", not muts,
               why + ": the function does not change the objects it is handed (the caller's records, dicts, lists and arrays "
               "are the same before and after the call), so a second call, or a later step that reads them, sees what the first did",
               node=(muts[0][2] if muts else fd), strength="N",
               **({"mutations": [f"{txt} (line {nd.lineno}, reached from parameter {o})" for o, txt, nd in muts][:6]} if muts else {}))
    return n


def _effect_kind(txt):
    import re as _re
    if txt.startswith("stores "):
        tgt = txt[7:]
        m_ = _re.search(r"\.([A-Za-z_][A-Za-z_0-9]*)(\[.*)?$", tgt)
        if tgt.rstrip().endswith("]") and not (m_ and m_.group(2) is None):
            # item store: name the container attribute if there is one
            return (m_.group(1) + "[]") if m_ else "[]"
        return m_.group(1) if m_ else "[]"
    m_ = _re.match(r"(.*)\.([A-Za-z_]+)\(\.\.\.\)$", txt)
    if m_:
        return m_.group(2) + "()"
    return txt.split(" ")[0]


# the effects on arguments confirmed by reading (pinned tree + fix commits): function -> parameter -> what it writes there.
# Every one of them is the function's documented purpose (a setter over the contests / cards it is given).
ARG_EFFECTS = {
    "shangrla/core/Audit.py": {
        "Assertion.make_all_assertions": {"contests": {"assertions"}},
        "Assertion.reset_p_values": {"contests": {"p_history", "p_value", "proved", "p_values", "p_values[]", "proved[]", "max_p"}},
        "Assertion.set_all_margins_from_cvrs": {"contests": {"u", "margins", "margins[]", "update()"}},
        "Assertion.set_p_values": {"contests": {"p_history", "p_value", "proved", "u", "p_values", "proved[]", "p_values[]", "max_p", "update()"}},
        "Audit.find_sample_size": {"contests": {"sample_size"}, "cvrs": {"p"}},
        "Audit.from_dict": {"d": {"[]"}},
        "CVR.assign_sample_nums": {"cvr_list": {"sample_num"}},
        "CVR.consistent_sampling": {"contests": {"sample_threshold"}, "cvr_list": {"sampled"}},
        "CVR.make_phantoms": {"contests": {"cards", "cvrs"}},
        "CVR.merge_cvrs": {"cvr_list": {"votes", "phantom", "pool", "tally_pool"}},  # the first record of an id absorbs the later ones
        "CVR.check_tally_pools": {"cvr_list": {"votes", "phantom", "pool"}},
        "CVR.prep_comparison_sample": {"cvr_sample": {"sort()"}, "mvr_sample": {"sort()"}},
        "CVR.prep_polling_sample": {"mvr_sample": {"sort()"}},
        "CVR.set_card_in_batch_lex": {"cvr_list": {"card_in_batch"}},
        "CVR.sort_cvr_sample_num": {"cvr_list": {"sort()"}},
        "Contest.check_cards": {"contests": {"cards"}},
        "Contest.tally": {"con_dict": {"tally", "tally[]"}},
    },
    "shangrla/formats/Dominion.py": {
        "Dominion.prep_manifest": {"manifest": {"[]"}},
        "Dominion.raire_to_dominion": {"cvr_list": {"id"}},
    },
    "shangrla/formats/Hart.py": {
        "Hart.prep_manifest": {"manifest": {"[]"}},
    },
    "shangrla/raire/raire_utils.py": {
        "find_best_audit": {"node": {"best_assertion", "estimate"}},
        "perform_dive": {"node": {"append()"}},
    },
}


def argument_effects(chk, rule, rel, why, only=None, minimum=1):
    """whole-module frame condition: every function of module `rel` (those for which only(qual) holds) changes the objects it
    is handed only as ARG_EFFECTS says.  A new in-place effect on an argument is how a later step, a second call or the caller
    itself comes to see something other than what the property talks about."""
    m = chk.idx.module(rel)
    table = ARG_EFFECTS.get(rel, {})
    n = 0
    for q, fd in sorted(m.defs.items()):
        if not isinstance(fd, (ast.FunctionDef, ast.AsyncFunctionDef)) or (only and not only(q)):
            continue
        last = q.split(".")[-1]
        if last.startswith("_") and not last.startswith("__"):
            continue  # a private helper is read where it is called (expanded in place below)
        try:
            fd = chk.idx.func_x(rel, q)
        except AnalysisError:
            raise
        for par_ in ast.walk(fd):
            for ch_ in ast.iter_child_nodes(par_):
                ch_._parent = par_
        n += 1
        allowed = table.get(q, {})
        extra = []
        for o, txt, nd in argument_mutations(fd):
            k = _effect_kind(txt)
            if k not in allowed.get(o, ()):
                extra.append((o, k, txt, nd))
        chk.ob(rule, f"{rel}:{q}", "argument-effects", not extra,
               why + ": the function changes the objects it is handed only in the ways confirmed for it ("
               + (", ".join(f"{p}: {sorted(v)}" for p, v in sorted(allowed.items())) or "none: it only reads them") + ")",
               node=(extra[0][3] if extra else fd), strength="N",
               **({"new_effects": [f"{txt} (line {nd.lineno}; reached from parameter {o})" for o, k, txt, nd in extra][:6]} if extra else {}))
    chk.need(rule, n, minimum, f"functions of {rel} examined for effects on their arguments")
