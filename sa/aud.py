"""Helpers for rules over shangrla/core/Audit.py."""
from __future__ import annotations

import ast

import sympy as sp

from .core import AnalysisError, norm
from . import symx
from .symx import Tx, E, I, S, c_and, c_or, c_not
from .astutil import walk_local, parent

REL = "shangrla/core/Audit.py"
BOOL_FLAGS = {"cvr.phantom", "mvr.phantom", "c.phantom", "cvr.pool"}


def W(q):
    return f"{REL}:{q}"


def comps(node, local=True):
    it = walk_local(node) if local else ast.walk(node)
    return [n for n in it if isinstance(n, (ast.ListComp, ast.GeneratorExp, ast.SetComp))]


def single_gen(comp):
    if len(comp.generators) != 1:
        raise AnalysisError(f"comprehension with {len(comp.generators)} generators: {norm(comp)[:80]}")
    g = comp.generators[0]
    return comp.elt, g.target, g.iter, g.ifs


def style_filter(fn, name=None):
    """The repository's idiom
           if use_style: filtr = lambda c: c.has_contest(self.contest.id)
           else:         filtr = lambda c: True
       -> function(arg_symbol_name) -> cond,  plus the If node.  None if absent."""
    for st in walk_local(fn):
        # the same two lambdas selected by a conditional expression: filtr = (lambda ..) if use_style else (lambda ..)
        if isinstance(st, ast.Assign) and len(st.targets) == 1 and isinstance(st.targets[0], ast.Name) and isinstance(st.value, ast.IfExp) \
                and isinstance(st.value.body, ast.Lambda) and isinstance(st.value.orelse, ast.Lambda) \
                and (name is None or norm(st.targets[0]) == name):
            def g(argname, tx_factory, st=st):
                tx = tx_factory()
                c = tx.cond(st.value.test)
                res = []
                for lam in (st.value.body, st.value.orelse):
                    p = lam.args.args[0].arg
                    t2 = tx.child({**tx.env, p: E(S(argname))})
                    res.append(t2.cond(lam.body))
                return c_or(c_and(c, res[0]), c_and(c_not(c), res[1]))
            g.name = norm(st.targets[0])
            return g, st
        if isinstance(st, ast.If) and len(st.body) == 1 and len(st.orelse) == 1:
            a, b = st.body[0], st.orelse[0]
            if all(isinstance(x, ast.Assign) and len(x.targets) == 1 and isinstance(x.targets[0], ast.Name)
                   and isinstance(x.value, ast.Lambda) for x in (a, b)) and norm(a.targets[0]) == norm(b.targets[0]) \
                    and (name is None or norm(a.targets[0]) == name):
                def f(argname, tx_factory, st=st, a=a, b=b):
                    tx = tx_factory()
                    c = tx.cond(st.test)
                    res = []
                    for lam in (a.value, b.value):
                        p = lam.args.args[0].arg
                        t2 = tx.child({**tx.env, p: E(S(argname))})
                        res.append(t2.cond(lam.body))
                    return c_or(c_and(c, res[0]), c_and(c_not(c), res[1]))
                f.name = norm(a.targets[0])
                return f, st
    return None, None


def cond_equiv(c1, c2):
    from .symx import cond_atoms, rows, eval_cond

    atoms = cond_atoms(c1) | cond_atoms(c2)
    n = 0
    for row in rows(atoms):
        n += 1
        if eval_cond(c1, row) != eval_cond(c2, row):
            return False, n, row
    return True, n, None


def lambdas_in(node):
    return [n for n in ast.walk(node) if isinstance(n, ast.Lambda)]


def free_names(lam: ast.Lambda):
    """Names read in the lambda body that are not its parameters."""
    params = {a.arg for a in lam.args.args + lam.args.kwonlyargs}
    if lam.args.vararg:
        params.add(lam.args.vararg.arg)
    if lam.args.kwarg:
        params.add(lam.args.kwarg.arg)
    out = set()
    for n in ast.walk(lam.body):
        if isinstance(n, ast.Name) and isinstance(n.ctx, ast.Load) and n.id not in params:
            out.add(n.id)
    return out


def loop_rebound_names(lam, func):
    """Names (re)bound by the loops that enclose the lambda inside func
    (loop targets and every name assigned in those loop bodies)."""
    from .astutil import ancestors, names_stored

    out = set()
    for a in ancestors(lam):
        if a is func:
            break
        if isinstance(a, (ast.For, ast.While)):
            if isinstance(a, ast.For):
                out |= names_stored(a.target)
            for st in a.body:
                for n in ast.walk(st):
                    if isinstance(n, (ast.Assign, ast.AugAssign, ast.AnnAssign, ast.For, ast.NamedExpr, ast.comprehension)):
                        tgts = n.targets if isinstance(n, ast.Assign) else [n.target]
                        for t in tgts:
                            out |= names_stored(t)
    return out


def closure_lint(chk, rule, where, func, lam, label):
    """E7: a lambda created in a loop may use the loop's variables only through
    default-argument binding (late binding would make every lambda see the
    values of the last iteration)."""
    free = free_names(lam)
    rebound = loop_rebound_names(lam, func)
    bad = sorted(free & rebound)
    # defaults must bind a loop variable to the parameter of the same meaning: p=p or p=<expr over loop vars>
    chk.ob(rule, where, f"late-binding:{label}", not bad,
           "a lambda created inside a loop reads loop variables only through default-argument binding",
           node=lam, late_bound=bad)
    return not bad


def lambda_term(lam: ast.Lambda, outer_tx: Tx, arg_names=None):
    """Translate a lambda: parameters with defaults are bound to their default
    expressions evaluated in the enclosing environment (that is what Python does
    at creation time); positional parameters without default become symbols."""
    env = dict(outer_tx.env)
    args = lam.args.args
    defaults = lam.args.defaults
    n_nodef = len(args) - len(defaults)
    for i, a in enumerate(args):
        if i < n_nodef:
            nm = arg_names[i] if arg_names and i < len(arg_names) else a.arg
            env[a.arg] = E(S(nm))
        else:
            env[a.arg] = outer_tx.expr(defaults[i - n_nodef])
    t = outer_tx.child(env)
    return t.expr(lam.body), t


def ctor_fields(chk, rule, rel, cls, fields, why):
    """Constructor-field agreement: `cls.__init__` stores each named parameter, unconditionally and exactly once, into the attribute
    of the same name (what every other rule assumes when it reads `obj.field` as "the value the caller configured")."""
    import ast as _ast
    from .astutil import stores as _stores, parent as _parent
    fn = chk.fn(rel, f"{cls}.__init__")
    params = [a.arg for a in fn.args.args + fn.args.kwonlyargs]
    cdef = chk.idx.cls(rel, cls)
    # a property (or any class-level binding) of the field's name stands between `obj.field = v` and what is read back: a setter
    # may convert or reject, and objects filled through `__dict__.update` (from_dict) bypass it while reads do not
    shadows = {m.name for m in cdef.body if isinstance(m, _ast.FunctionDef) and m.decorator_list} | \
        {t.id for m in cdef.body if isinstance(m, (_ast.Assign, _ast.AnnAssign)) for t in (m.targets if isinstance(m, _ast.Assign) else [m.target])
         if isinstance(t, _ast.Name) and isinstance(getattr(m, "value", None), _ast.Call)}
    for f in fields:
        p_ = f if not isinstance(f, tuple) else f[1]
        a_ = f if not isinstance(f, tuple) else f[0]
        sts = [(t, v, s0) for t, v, s0 in _stores(fn) if isinstance(t, _ast.Attribute) and norm(t.value) == "self" and t.attr == a_]
        ok = p_ in params and len(sts) == 1 and isinstance(sts[0][1], _ast.Name) and sts[0][1].id == p_ and _parent(sts[0][2]) is fn \
            and a_ not in shadows
        chk.ob(rule, f"{rel}:{cls}.__init__", f"field-is-its-parameter[{a_}]", ok,
               f"`{cls}(…, {p_}=v)` makes `obj.{a_}` equal to v: one unconditional store of the parameter into a plain attribute ({why})",
               node=sts[0][2] if sts else fn, strength="N", stores=[norm(s0)[:80] for t, v, s0 in sts],
               **({"shadowed_by": "a property / descriptor of that name in the class"} if a_ in shadows else {}))


def mean_facts(chk):
    """What Assorter.mean computes, decided for the two spellings a maintainer would use:
         A.  np.mean([self.assort(c) for c in cvr_list if filtr(c)])                         (filter idiom in the method)
         B.  self.sum(cvr_list, use_style=use_style) / <number of cards passing the same filter>   (Assorter.sum being the np.sum
             over the same filtered comprehension)
       -> dict(filter=<cond over 'c'> or None, over_filtered=bool, node, detail).  Anything else is *decided* as "not the mean over
       the filtered cards" (filter None / over_filtered False), not given up on."""
    import ast as _ast
    from .symx import Tx as _Tx
    mean = chk.fn(REL, "Assorter.mean", canonical=True)
    out = dict(filter=None, over_filtered=False, node=mean, detail={})
    rets = [n for n in walk_local(mean) if isinstance(n, _ast.Return)]
    if len(rets) != 1:
        return out
    out["node"] = rets[0]
    v = rets[0].value

    def filtered_comp(fn, call_names, elt_of):
        """a call np.<agg>(comp) with comp = [<elt> for c in cvr_list if filtr(c)] and the filter idiom in fn -> cond or None"""
        f, _ = style_filter(fn)
        if f is None:
            return None, None
        return f, f.name

    if isinstance(v, _ast.Call) and norm(v.func) in ("np.mean", "numpy.mean") and style_filter(mean)[0] is not None:
        f, _ = style_filter(mean)
        cs = comps(v)
        if f is not None and len(cs) == 1 and len(cs[0].generators) == 1:
            elt, tgt, it, ifs = single_gen(cs[0])
            out["detail"] = dict(elt=norm(elt), iter=norm(it), ifs=[norm(i) for i in ifs])
            out["filter"] = f("c", lambda: _Tx())
            out["over_filtered"] = norm(elt) == f"self.assort({norm(tgt)})" and norm(it) == "cvr_list" and len(ifs) == 1 \
                and norm(ifs[0]) == f"{f.name}({norm(tgt)})"
        return out
    if isinstance(v, _ast.Call) and norm(v.func) in ("np.mean", "numpy.mean") and style_filter(mean)[0] is None:
        # C.  if use_style: R = filter(lambda c: P(c), cvr_list) [or a generator over cvr_list with that test]  else: R = cvr_list
        #     ... np.mean([self.assort(c) for c in R]):  the cards are those with (not use_style) or P(c)
        cs = comps(v)
        if len(cs) == 1 and len(cs[0].generators) == 1:
            elt, tgt, it, ifs = single_gen(cs[0])
            if isinstance(it, _ast.Name) and not ifs and norm(elt) == f"self.assort({norm(tgt)})":
                defs = [s_ for s_ in walk_local(mean) if isinstance(s_, _ast.Assign) and len(s_.targets) == 1 and norm(s_.targets[0]) == it.id]
                branch = parent(defs[0]) if defs else None
                if len(defs) == 2 and isinstance(branch, _ast.If) and parent(defs[1]) is branch and len(branch.body) == 1 and len(branch.orelse) == 1:
                    pos, neg = branch.body[0].value, branch.orelse[0].value
                    tcond = _Tx().cond(branch.test)
                    if norm(pos) in ("cvr_list", "list(cvr_list)"):
                        pos, neg, tcond = neg, pos, c_not(tcond)
                    pred = None
                    if norm(neg) in ("cvr_list", "list(cvr_list)"):
                        if isinstance(pos, _ast.Call) and norm(pos.func) == "filter" and len(pos.args) == 2 and isinstance(pos.args[0], _ast.Lambda) \
                                and norm(pos.args[1]) == "cvr_list" and len(pos.args[0].args.args) == 1:
                            pred = (pos.args[0].args.args[0].arg, pos.args[0].body)
                        elif isinstance(pos, (_ast.GeneratorExp, _ast.ListComp)) and len(pos.generators) == 1 and len(pos.generators[0].ifs) == 1 \
                                and norm(pos.generators[0].iter) == "cvr_list" and norm(pos.elt) == norm(pos.generators[0].target):
                            pred = (norm(pos.generators[0].target), pos.generators[0].ifs[0])
                    if pred is not None:
                        var, body = pred
                        t_ = _Tx(env={var: E(S("c"))})
                        out["filter"] = c_or(c_not(tcond), t_.cond(body))
                        out["over_filtered"] = True
                        out["detail"] = dict(elt=norm(elt), cards=f"{norm(pos)[:80]} if {norm(branch.test)} else {norm(neg)}")
                        return out
    if isinstance(v, _ast.BinOp) and isinstance(v.op, _ast.Div) and isinstance(v.left, _ast.Call) and norm(v.left.func) == "self.sum":
        # numerator: Assorter.sum over the filtered cards
        sm = chk.fn(REL, "Assorter.sum", canonical=True)
        fs, _ = style_filter(sm)
        srets = [n for n in walk_local(sm) if isinstance(n, _ast.Return)]
        num_ok = False
        if fs is not None and len(srets) == 1 and isinstance(srets[0].value, _ast.Call) and norm(srets[0].value.func) in ("np.sum", "numpy.sum", "sum"):
            cs = comps(srets[0].value)
            if len(cs) == 1 and len(cs[0].generators) == 1:
                elt, tgt, it, ifs = single_gen(cs[0])
                num_ok = norm(elt) == f"self.assort({norm(tgt)})" and norm(it) == "cvr_list" and len(ifs) == 1 and norm(ifs[0]) == f"{fs.name}({norm(tgt)})"
        kw = {k.arg: norm(k.value) for k in v.left.keywords}
        args = [norm(a) for a in v.left.args]
        passes = (args[:1] == ["cvr_list"]) and (kw.get("use_style") == "use_style" or args[1:2] == ["use_style"])
        # denominator: the number of cards passing the same filter (in mean itself)
        fm, _ = style_filter(mean)
        den_ok = False
        from .canon import expand_locals as _xl
        d = _xl(v.right, mean)
        if fm is not None:
            if isinstance(d, _ast.Call) and norm(d.func) == "len" and len(d.args) == 1 and isinstance(d.args[0], _ast.ListComp):
                elt, tgt, it, ifs = single_gen(d.args[0])
                den_ok = norm(it) == "cvr_list" and len(ifs) == 1 and norm(ifs[0]) == f"{fm.name}({norm(tgt)})"
            if isinstance(d, _ast.Call) and norm(d.func) in ("np.sum", "sum") and len(d.args) == 1 and isinstance(d.args[0], (_ast.ListComp, _ast.GeneratorExp)):
                elt, tgt, it, ifs = single_gen(d.args[0])
                den_ok = norm(it) == "cvr_list" and ((not ifs and norm(elt) == f"{fm.name}({norm(tgt)})") or
                                                     (len(ifs) == 1 and norm(ifs[0]) == f"{fm.name}({norm(tgt)})" and norm(elt) == "1"))
            out["filter"] = fm("c", lambda: _Tx())
        elif fs is not None:
            out["filter"] = fs("c", lambda: _Tx())
        same = fs is not None and fm is not None and cond_equiv(fs("c", lambda: _Tx()), fm("c", lambda: _Tx()))[0]
        out["detail"] = dict(numerator=norm(v.left), denominator=norm(d), sum_over_filtered=num_ok, count_over_filtered=den_ok,
                             numerator_and_denominator_use_the_same_filter=same)
        out["over_filtered"] = num_ok and passes and den_ok and same
        return out
    out["detail"] = dict(returned=norm(v)[:160])
    return out


def same_name_arguments(chk, rule, rel, caller_q, callee_q, what, strict=False):
    """Argument discipline between a wrapper and the function it delegates to: every argument of the call that is a plain name
    equal to one of the callee's parameter names must be bound to *that* parameter (positionally or by keyword), and every
    parameter the two functions share is handed on.  Swapped positional arguments of the same type compile and run."""
    import ast as _ast
    caller = chk.fn(rel, caller_q)
    callee = chk.fn(rel, callee_q)
    cps = [a.arg for a in callee.args.args]
    if cps and cps[0] in ("self", "cls"):
        cps = cps[1:]
    short = callee_q.split(".")[-1]
    calls = [c for c in _ast.walk(caller) if isinstance(c, _ast.Call) and norm(c.func).split(".")[-1] == short]
    problems = []
    shared = set(cps) & {a.arg for a in caller.args.args}
    for c in calls:
        bound = {}
        for k, a in enumerate(c.args):
            if k < len(cps):
                bound[cps[k]] = a
        for kw in c.keywords:
            if kw.arg:
                bound[kw.arg] = kw.value
        for p_, a in bound.items():
            if isinstance(a, _ast.Name) and a.id in cps and a.id != p_:
                problems.append(f"`{a.id}` is passed as `{p_}`")
        for p_ in sorted(shared):
            if p_ not in bound:
                problems.append(f"`{p_}` is not handed on")
            elif strict:
                # the callee gets the caller's own argument, not something derived from it (a filtered copy, a sorted copy, ...)
                from .canon import expand_locals as _xl
                got = _xl(bound[p_], caller, stop=(p_,))
                rebound = any(isinstance(x, _ast.Name) and x.id == p_ and isinstance(x.ctx, (_ast.Store, _ast.Del)) for x in _ast.walk(caller))
                if norm(got) != p_ or rebound:
                    problems.append(f"`{p_}` of the callee receives {norm(got)[:60]}, not the caller's `{p_}`")
    chk.ob(rule, f"{rel}:{caller_q}", f"arguments-reach-their-namesakes[{short}]", bool(calls) and not problems,
           f"{what}: each option of {caller_q} is passed to the parameter of {callee_q} with the same name", node=calls[0] if calls else caller,
           strength="N", problems=problems, calls=len(calls))


def or_defaults(fn, is_configured):
    """`value or default` used as a *value* (not as a condition) whose earlier operands satisfy is_configured(node): the idiom
    that replaces a configured 0 / empty value by the default.  -> [text]"""
    from .astutil import parent as _parent
    bad = []
    for b in ast.walk(fn):
        if not (isinstance(b, ast.BoolOp) and isinstance(b.op, ast.Or)):
            continue
        if not any(is_configured(v) for v in b.values[:-1]):
            continue
        p_ = _parent(b)
        in_cond = False
        while p_ is not None and not isinstance(p_, ast.stmt):
            if isinstance(p_, (ast.Compare, ast.UnaryOp, ast.BoolOp)) or (isinstance(p_, ast.IfExp) and p_.test is b) or \
                    (isinstance(p_, ast.comprehension) and any(b is i_ for i_ in p_.ifs)):
                in_cond = True
            p_ = _parent(p_)
        if isinstance(p_, (ast.If, ast.While, ast.Assert)):
            in_cond = True
        if not in_cond:
            bad.append(norm(b)[:100])
    return bad


def adjacent_grouping(node):
    """calls of itertools.groupby whose input is not sorted by the same key first: groupby starts a new group whenever the key
    changes, so items with equal keys that are not adjacent end up in different groups.  -> [Call]"""
    out = []
    for c in ast.walk(node):
        if isinstance(c, ast.Call) and norm(c.func) in ("groupby", "itertools.groupby") and c.args:
            src = c.args[0]
            key = next((k.value for k in c.keywords if k.arg == "key"), c.args[1] if len(c.args) > 1 else None)
            sorted_first = isinstance(src, ast.Call) and norm(src.func) == "sorted" and \
                norm(next((k.value for k in src.keywords if k.arg == "key"), None) or ast.Constant(value=None)) == norm(key or ast.Constant(value=None))
            if not sorted_first:
                out.append(c)
    return out


def unvalidated_cache(fd, st, target, recv, module_names):
    """A store into self is harmless only as a *validated* cache: it sits under a test that compares (== / !=), against the
    stored key, every input the cached value is computed from -- every attribute of self and every name defined outside the
    guarded block that the block reads.  Returns None when that is the case, else what is missing.  A sample array can never be
    a validated input (the same object may hold other numbers at the next call)."""
    import builtins
    from .astutil import ancestors
    guard = next((a for a in ancestors(st) if isinstance(a, ast.If)), None)
    if guard is None or not any(st is n_ for b in guard.body for n_ in ast.walk(b)):
        return "not under a test that validates it"
    key_txt = set()
    for c in ast.walk(guard.test):
        if isinstance(c, ast.Compare) and all(isinstance(o, (ast.Eq, ast.NotEq)) for o in c.ops):
            for side in [c.left] + list(c.comparators):
                for n_ in ast.walk(side):
                    if isinstance(n_, (ast.Name, ast.Attribute)):
                        key_txt.add(norm(n_))
    assigned = {n_.id for b in guard.body for n_ in ast.walk(b) if isinstance(n_, ast.Name) and isinstance(n_.ctx, ast.Store)}
    params = {a.arg for a in fd.args.posonlyargs + fd.args.args + fd.args.kwonlyargs} - {recv}
    cache_attr = norm(target).split("[")[0]
    missing = []
    for b in guard.body:
        for n_ in ast.walk(b):
            if isinstance(n_, ast.Name) and isinstance(n_.ctx, ast.Load):
                if n_.id in assigned or n_.id == recv or n_.id in module_names or hasattr(builtins, n_.id) or n_.id in ("np", "math", "warnings"):
                    continue
                if n_.id in params:
                    missing.append(f"parameter {n_.id} (an argument cannot be validated by a stored key)")
                elif n_.id not in key_txt:
                    missing.append(n_.id)
            elif isinstance(n_, ast.Attribute) and isinstance(n_.ctx, ast.Load) and norm(n_).startswith(recv + "."):
                from .core import norm as _n
                par = getattr(n_, "_parent", None)
                if isinstance(par, ast.Attribute):
                    continue  # a longer chain is looked at instead
                txt = norm(n_)
                if txt == cache_attr or txt.startswith(cache_attr + "."):
                    continue
                if isinstance(par, ast.Call) and par.func is n_:
                    missing.append(f"{txt}(...) (a method's result cannot be validated by a stored key)")
                elif txt not in key_txt:
                    missing.append(txt)
            elif isinstance(n_, ast.Call) and norm(n_.func) == "getattr" and n_.args and norm(n_.args[0]) == recv:
                missing.append(norm(n_)[:40])
    if missing:
        return "the value depends on " + ", ".join(sorted(set(missing))[:4]) + ", which the guard does not compare with the stored key"
    return None



_MUTATORS = {"append", "extend", "insert", "pop", "popitem", "clear", "update", "setdefault", "add", "discard", "remove", "sort",
             "reverse", "__setitem__", "move_to_end"}


def state_problems(module_tree, q, fd):
    """what makes a call of fd depend on earlier calls: stores into self / cls (a validated cache excepted), into module-level
    objects, global / nonlocal declarations, mutable defaults.  -> [text]"""
    from .astutil import walk_local
    module_names, module_mutables = set(), set()
    for st in module_tree.body:
        if isinstance(st, (ast.Assign, ast.AnnAssign)):
            tg = st.targets if isinstance(st, ast.Assign) else [st.target]
            for t in tg:
                if isinstance(t, ast.Name):
                    module_names.add(t.id)
                    v = st.value
                    if isinstance(v, (ast.List, ast.Dict, ast.Set, ast.ListComp, ast.DictComp, ast.SetComp)) or \
                            (isinstance(v, ast.Call) and norm(v.func).split(".")[-1] in ("dict", "list", "set", "defaultdict", "OrderedDict",
                                                                                      "WeakKeyDictionary", "WeakValueDictionary", "deque")):
                        module_mutables.add(t.id)
        elif isinstance(st, ast.ClassDef):
            module_names.add(st.name)
    local_names = {a.arg for a in fd.args.posonlyargs + fd.args.args + fd.args.kwonlyargs} | \
        {x.id for x in walk_local(fd) if isinstance(x, ast.Name) and isinstance(x.ctx, ast.Store)}
    first = fd.args.args[0].arg if ("." in q and fd.args.args) else None
    recv = first if first in ("self", "cls") else None
    problems = []
    for d in list(fd.args.defaults) + [k for k in fd.args.kw_defaults if k is not None]:
        if isinstance(d, (ast.List, ast.Dict, ast.Set, ast.ListComp, ast.DictComp, ast.SetComp)) or \
                (isinstance(d, ast.Call) and norm(d.func) in ("dict", "list", "set", "defaultdict", "OrderedDict", "collections.defaultdict")):
            # (a mutable default that is only read is the repo's idiom for "no options"; one that is written is state)
            nm = next((a.arg for a, dd in zip(reversed(fd.args.args), reversed(fd.args.defaults)) if dd is d), None) or \
                next((a.arg for a, dd in zip(fd.args.kwonlyargs, fd.args.kw_defaults) if dd is d), None)
            written = nm is not None and any(
                (isinstance(x, (ast.Subscript, ast.Attribute)) and isinstance(x.ctx, (ast.Store, ast.Del)) and _root_name(x) == nm) or
                (isinstance(x, ast.Call) and isinstance(x.func, ast.Attribute) and _root_name(x.func.value) == nm and x.func.attr in _MUTATORS)
                for x in walk_local(fd))
            if written or nm is None:
                problems.append(f"mutable default {norm(d)[:40]} that is written (line {d.lineno})")
    for nd in walk_local(fd):
        if isinstance(nd, (ast.Global, ast.Nonlocal)):
            problems.append(f"{type(nd).__name__.lower()} {', '.join(nd.names)} (line {nd.lineno})")
        tg = []
        if isinstance(nd, ast.Assign):
            tg = nd.targets
        elif isinstance(nd, (ast.AugAssign, ast.AnnAssign)):
            tg = [nd.target]
        elif isinstance(nd, ast.Delete):
            tg = nd.targets
        for t in tg:
            for sub in ([t] if not isinstance(t, (ast.Tuple, ast.List)) else t.elts):
                root = sub
                while isinstance(root, (ast.Attribute, ast.Subscript)):
                    root = root.value
                if recv and isinstance(sub, (ast.Attribute, ast.Subscript)) and isinstance(root, ast.Name) and root.id == recv:
                    why = unvalidated_cache(fd, nd, sub, recv, module_names)
                    if why:
                        problems.append(f"stores {norm(sub)[:50]} (line {nd.lineno}): {why}")
                elif isinstance(sub, (ast.Attribute, ast.Subscript)) and isinstance(root, ast.Name) and root.id in module_names \
                        and root.id not in local_names:
                    problems.append(f"stores {norm(sub)[:50]}, rooted at a module-level name (line {nd.lineno})")
        if isinstance(nd, ast.Call):
            f = norm(nd.func)
            if f in ("setattr", "object.__setattr__", "delattr") and nd.args and recv and norm(nd.args[0]) == recv:
                problems.append(f"{f}({recv}, ...) (line {nd.lineno})")
            if recv and f in (f"{recv}.__dict__.update", f"{recv}.__dict__.setdefault", f"vars({recv}).update", f"{recv}.__dict__.pop"):
                problems.append(f"{f}(...) (line {nd.lineno})")
            if isinstance(nd.func, ast.Attribute) and nd.func.attr in _MUTATORS:
                r_ = _root_name(nd.func.value)
                if r_ in module_mutables and r_ not in local_names:
                    problems.append(f"{f}(...) mutates a module-level container (line {nd.lineno})")
                elif recv and r_ == recv and isinstance(nd.func.value, (ast.Attribute, ast.Subscript)):
                    problems.append(f"{f}(...) mutates an attribute of {recv} (line {nd.lineno})")
    return problems


def _root_name(x):
    while isinstance(x, (ast.Attribute, ast.Subscript)):
        x = x.value
    return x.id if isinstance(x, ast.Name) else None


def keeps_no_state(chk, rule, rel, quals, why):
    """the functions a rule reads as *value* functions compute their value from their arguments and the object's configuration:
    they do not remember anything between calls (see state_problems)"""
    m = chk.idx.module(rel)
    for q in quals:
        if not chk.idx.has_func(rel, q):
            continue
        chk.fn(rel, q)  # (records R0 for it: the body is what the name runs -- a cache decorator is state, too)
        fd = chk.idx.func(rel, q)
        pr = state_problems(m.tree, q, fd)
        chk.ob(rule, f"{rel}:{q}", "keeps-no-state", not pr,
               why + ": nothing is stored into self or a module-level object (a cache validated against every input excepted), no "
               "global declaration, no written mutable default", node=fd, strength="N", **({"problems": pr} if pr else {}))


def from_dict_verbatim(chk, rule, rel, cls, why):
    """`cls.from_dict(d)` makes an object whose attributes are the entries of d, verbatim: a default object, one `__dict__.update(d)`,
    nothing else stored (an entry that is cleaned, converted or dropped on the way is no longer what the caller configured)"""
    fn = chk.fn(rel, f"{cls}.from_dict")
    from .astutil import stores as _stores
    ups = [c for c in ast.walk(fn) if isinstance(c, ast.Call) and norm(c.func).endswith(".__dict__.update") and len(c.args) == 1]
    obj = norm(ups[0].func).split(".")[0] if ups else None
    dpar = fn.args.args[1].arg if len(fn.args.args) > 1 else "d"
    other = [norm(s0)[:70] for t_, v_, s0 in _stores(fn) if isinstance(t_, (ast.Attribute, ast.Subscript)) and _root_name(t_) in (obj, dpar)]
    rebound = [x.id for x in ast.walk(fn) if isinstance(x, ast.Name) and x.id == dpar and isinstance(x.ctx, (ast.Store, ast.Del))]
    ok = len(ups) == 1 and norm(ups[0].args[0]) == dpar and not other and not rebound
    chk.ob(rule, f"{rel}:{cls}.from_dict", "entries-become-attributes-verbatim", ok,
           f"{cls}.from_dict(d) updates a default object's __dict__ with d and stores nothing else ({why})", node=fn, strength="N",
           **({"other_stores": other} if other else {}))


def ids_only_translation(chk, rule, rel, qual, why):
    """`Dominion.raire_to_dominion(cvr_list)` translates identifiers and nothing else: it returns the list it was given, and the only
    thing it stores is the `id` of the list's own elements (a copy that carries over a chosen set of attributes loses the others:
    the phantom flag, for one)"""
    if not chk.idx.has_func(rel, qual):
        return
    fn = chk.fn(rel, qual)
    from .astutil import stores as _stores
    par = fn.args.args[-1].arg if fn.args.args else "cvr_list"
    rets = [r for r in walk_local(fn) if isinstance(r, ast.Return)]
    loops = [l for l in walk_local(fn) if isinstance(l, ast.For) and norm(l.iter) == par]
    lv = norm(loops[0].target) if loops else None
    sts = [(t_, v_, s0) for t_, v_, s0 in _stores(fn)]
    only_ids = bool(sts) and all(isinstance(t_, ast.Attribute) and t_.attr == "id" and norm(t_.value) == lv for t_, v_, s0 in sts)
    ctor = [c for c in ast.walk(fn) if isinstance(c, ast.Call) and norm(c.func) in ("CVR", "copy.copy", "copy.deepcopy", "deepcopy")]
    ok = len(rets) == 1 and norm(rets[0].value) == par and len(loops) == 1 and only_ids and not ctor
    chk.ob(rule, f"{rel}:{qual}", "translates-ids-in-place", ok,
           f"the identifier translation returns the very records it was given with only their id re-written ({why})", node=fn, strength="N")
