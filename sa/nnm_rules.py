"""Rules over shangrla/core/NonnegMean.py shared by C01, C11, C12 (and C10, C16).

Every rule works on the symbolic anatomy (nnm.anatomy: AST -> sympy terms, no
execution) and/or on the dependency-lag analysis (npflow).
"""
from __future__ import annotations

import ast

import sympy as sp

from .core import AnalysisError, norm
from . import nnm, symx
from .symx import Tx, E, I, T, S, eval_val, val_atoms, rows, is_zero, fmt_cond, cond_atoms, eval_cond
from .npflow import Arr, Sc, Tup, TOP, CONST, NINF
from .astutil import walk_local

REL = nnm.REL
FIN = "truthy(np.isfinite(self.N))"
RAND = "truthy(self.random_order)"

x = S("x")
u, N, t, g, eta0 = S("self.u"), S("self.N"), S("self.t"), S("self.g"), S("self.eta")
ETA, LAM, J = S("ETA"), S("LAM"), S("J")
SX = sp.Function("SX")
STOT = sp.Function("STOT")


def W(name):
    return f"{REL}:NonnegMean.{name}" if not name.startswith("welford") else f"{REL}:{name}"


def mu(fin, tt=t, xx=x):
    return (N * tt - SX(xx)) / (N - J + 1) if fin else tt


def alpha_factor(e, m):
    return (x * e / m + (u - x) * (u - e) / (u - m)) / u


# per test: (factor(fin), null mean of the draw (fin), shift of the draw)
SPEC = {
    "alpha_mart": dict(f=lambda fin: alpha_factor(ETA, mu(fin)), mean=lambda fin: mu(fin), shift=0,
                       text="prod [x*eta/mu + (u-x)(u-eta)/(u-mu)]/u"),
    "betting_mart": dict(f=lambda fin: 1 + LAM * (x - mu(fin)), mean=lambda fin: mu(fin), shift=0,
                         text="prod [1 + lambda (x - mu)]"),
    "kaplan_kolmogorov": dict(f=lambda fin: (x + g) / mu(fin, t + g, x + g), mean=lambda fin: mu(fin, t + g, x + g),
                              shift=g, text="prod (x+g)/mu', mu' = null mean of the padded population"),
    "kaplan_markov": dict(f=lambda fin: (x + g) / (t + g), mean=lambda fin: t + g, shift=g, iid=True,
                          text="p_j = prod (t+g)/(x+g)"),
    "kaplan_wald": dict(f=lambda fin: (1 - g) * x / t + g, mean=lambda fin: t, shift=0, iid=True,
                        text="prod ((1-g) x/t + g)"),
    "wald_sprt": dict(f=lambda fin: alpha_factor(mu(fin, eta0), mu(fin)), mean=lambda fin: mu(fin), shift=0,
                      text="ALPHA factor with eta_j = (N eta - S_j)/(N-j+1) (finite N) or eta"),
}


def _fn(e, name):
    return nnm._fn(e, name)


class TestFacts:
    """Everything the rules need about one test method."""

    def __init__(self, idx, name):
        self.name = name
        self.an = nnm.anatomy(idx, name)
        self.rows = []
        atoms = val_atoms(self.an.history) | val_atoms(self.an.overall)
        for row in rows(atoms):
            self.rows.append(row)


def facts(idx):
    return {n: TestFacts(idx, n) for n in nnm.test_names(idx)}


def _row_key(tf, row, fin):
    """one obligation per regime *and* per value of every other condition the history branches on (an early exit, a special
    case): rows that differ only in conditions the history does not read collapse"""
    key = ("finite" if fin else "infinite") if fin is not None else "any"
    hist_atoms = val_atoms(tf.an.history) - {FIN}
    extra = [f"{a}={'T' if row[a] else 'F'}" for a in sorted(hist_atoms) if a in row]
    return key + ("|" + ",".join(extra) if extra else "")


def decompose_history(leaf):
    """-> (kind, X, product_arg) ; kind None when the capped form is absent."""
    kind, X = nnm.history_shape(leaf)
    return kind, X


def scan_name(e):
    if isinstance(e, sp.Function) or getattr(e, "is_Function", False):
        return e.func.__name__
    return None


# ---------------------------------------------------------------------------
# C12.R1 / C12.R3 / C01.R1: factor identity, composition, single product


def rule_factor_and_composition(chk, tf: TestFacts, rules):
    """rules: dict with keys 'single', 'identity', 'composition' -> rule ids (or None)."""
    name = tf.name
    spec = SPEC.get(name)
    if spec is None:
        raise AnalysisError(f"test {name} has no published definition in the checker's oracle table")
    seen = set()
    for row in tf.rows:
        fin = row.get(FIN, None)
        key_row = _row_key(tf, row, fin)
        if key_row in seen:
            continue
        seen.add(key_row)
        leaf = eval_val(tf.an.history, row)
        kind, X = decompose_history(leaf)
        n_cp = nnm.cumprod_count(leaf)
        if rules.get("single"):
            scans = [scan_name(s) for s in sp.preorder_traversal(leaf)
                     if scan_name(s) in ("np.cumprod", "np.cumsum", "np.multiply.accumulate", "np.add.accumulate")]
            chk.ob(rules["single"], W(name), "single-product", scans == ["np.cumprod"],
                   "the reported history is built from exactly one cumulative product of per-draw factors",
                   node=tf.an.ret, row=key_row, scans=scans)
        if rules.get("composition"):
            ok = kind in ("inv", "dir") and scan_name(X) == "np.cumprod" and len(X.args) == 1 and n_cp == 1
            chk.ob(rules["composition"], W(name), f"history-form[{key_row}]", ok,
                   "history == minimum(1, 1/cumprod(factor)) (or minimum(cumprod(1/factor), 1))",
                   node=tf.an.ret, extracted=sp.sstr(leaf)[:300])
        if rules.get("identity"):
            if kind is None or scan_name(X) != "np.cumprod" or len(X.args) != 1:
                # composition already refuted (or will be); identity cannot be formed
                inner = [s for s in sp.preorder_traversal(leaf) if scan_name(s) == "np.cumprod"]
                if not inner:
                    chk.ob(rules["identity"], W(name), f"factor[{key_row}]", False,
                           f"factor equals the published one ({spec['text']})", node=tf.an.ret,
                           extracted=sp.sstr(leaf)[:300], reason="no cumulative product found")
                    continue
                # innermost product's argument is still comparable
                X = [s for s in inner if not any(scan_name(q) == "np.cumprod" for q in sp.preorder_traversal(s.args[0]))][0]
                kind = "dir" if name == "kaplan_markov" else "inv"
            a = X.args[0]
            f = a if kind == "inv" else 1 / a
            # a history that does not branch on np.isfinite(N) ("any") claims one factor for both regimes: it has to equal the
            # published factor of *each* (only tests whose published factor does not involve N can)
            wants = [spec["f"](True), spec["f"](False)] if fin is None else [spec["f"](bool(fin))]
            ok, res, want = True, sp.Integer(0), wants[0]
            for w_ in wants:
                r_ = sp.cancel(sp.together(f - w_))
                if not (r_ == 0 or is_zero(f - w_)):
                    ok, res, want = False, r_, w_
                    break
            chk.ob(rules["identity"], W(name), f"factor[{key_row}]", ok,
                   f"factor equals the published one ({spec['text']})", node=tf.an.ret,
                   extracted=sp.sstr(f)[:300], oracle=sp.sstr(want)[:300], residue=sp.sstr(res)[:200] if not ok else "0")


# ---------------------------------------------------------------------------
# C01.R2: unit conditional mean (affine in the draw, value 1 at the null mean)


def _freeze(e):
    """Replace applications of SX(.) / STOT(.) by fresh symbols (they depend on
    earlier draws only -- E3 -- and are constants w.r.t. the current draw)."""
    repl = {}
    for sub in sp.preorder_traversal(e):
        if scan_name(sub) in ("SX", "STOT"):
            repl[sub] = S("_past_" + str(len(repl)))
    return e.xreplace(repl), repl


from .symx import show as _show  # noqa: E402


def rule_unit_mean(chk, tf: TestFacts, rule):
    name = tf.name
    spec = SPEC[name]
    seen = set()
    for row in tf.rows:
        fin = row.get(FIN, None)
        key_row = _row_key(tf, row, fin)
        if key_row in seen:
            continue
        seen.add(key_row)
        leaf = eval_val(tf.an.history, row)
        kind, X = decompose_history(leaf)
        inner = [s for s in sp.preorder_traversal(leaf) if scan_name(s) == "np.cumprod"]
        if not inner:
            chk.ob(rule, W(name), f"unit-mean[{key_row}]", False, "factor has conditional mean 1 under the null",
                   node=tf.an.ret, reason="no cumulative product")
            continue
        Xi = [s for s in inner if not any(scan_name(q) == "np.cumprod" for q in sp.preorder_traversal(s.args[0]))][0]
        a = Xi.args[0]
        f = 1 / a if (kind == "dir" or (kind is None and name == "kaplan_markov")) else a
        sh = spec["shift"]
        means = [spec["mean"](True), spec["mean"](False)] if fin is None else [spec["mean"](bool(fin))]
        unit, affine, m, at_mean, d2 = True, True, means[0], sp.Integer(1), sp.Integer(0)
        for m_cand in means:  # "any": the same factor must have unit mean in both regimes
            both = sp.Tuple(f, m_cand)
            frozen, repl = _freeze(both)
            f_, m_ = frozen[0], frozen[1]
            d2_ = sp.diff(f_, x, 2)
            at_ = f_.subs(x, m_ - sh)
            if not is_zero(d2_):
                affine, d2 = False, d2_
            if not is_zero(at_ - 1):
                unit, m, at_mean = False, m_cand, at_
        chk.ob(rule, W(name), f"affine[{key_row}]", affine,
               "the factor is affine in the current draw (so E[f(X)|past] = f(E[X|past]))", node=tf.an.ret,
               factor=sp.sstr(f)[:300], d2=_show(d2, 120) if not affine else "0")
        chk.ob(rule, W(name), f"unit-at-null-mean[{key_row}]", unit,
               "the factor equals 1 when the draw equals the null conditional mean", node=tf.an.ret,
               null_mean=sp.sstr(m)[:200], value=_show(at_mean, 200) if not unit else "1")


# ---------------------------------------------------------------------------
# C01.R4 / C12.R2: the null conditional mean


def null_mean_sites(idx):
    """(where, Val of the mean, node) for sjm, and for every place that
    recomputes it (agrapa's t_adj, and any `m`/`t_adj` assigned in a test)."""
    sites = []
    tx = nnm.make_tx(idx)
    sjm = idx.func_x(REL, "NonnegMean.sjm")
    # translate sjm's body with symbolic parameters
    t2 = tx.child({"N": E(N), "t": E(t), "x": E(x), "self": E(S("self"))})
    t2.post = nnm._recipes
    ret = None
    for st in sjm.body:
        if isinstance(st, (ast.Expr, ast.Assert)):
            continue
        if isinstance(st, ast.Return):
            ret = t2.expr(st.value)
            break
        if isinstance(st, ast.Assign):
            v = t2.expr(st.value)
            for tg in st.targets:
                t2._assign(tg, v)
            continue
        if isinstance(st, ast.If):  # (an expanded helper with two exits: if-converted)
            try:
                if t2.block([st]) is None:
                    continue
            except symx.Unsupported:
                pass
        raise AnalysisError(f"sjm: statement {type(st).__name__} outside the dialect")
    if not isinstance(ret, T) or len(ret.items) != 4:
        raise AnalysisError("sjm does not return a 4-tuple")
    sites.append(("sjm", ret.items[3], sjm, ret))
    # any other method that recomputes a null mean itself: a local whose value is selected by np.isfinite(N)
    # and built from the exclusive running sum of the sample (today: agrapa's adjusted null mean)
    for mname in nnm.registry(idx)["estim"] + nnm.registry(idx)["bet"]:
        fd = idx.func_x(REL, f"NonnegMean.{mname}")
        t3 = nnm.make_tx(idx)
        t3.skip_calls = True
        for st in nnm.flatten(fd.body):
            cands = []
            if isinstance(st, ast.Assign) and len(st.targets) == 1 and isinstance(st.targets[0], ast.Name):
                try:
                    v = t3.expr(st.value)
                except symx.Unsupported:
                    continue
                t3._assign(st.targets[0], v)
                # a direct recomputation (not a call of sjm, which is site 1)
                if any(isinstance(c, ast.Call) and norm(c.func) == "self.sjm" for c in ast.walk(st.value)):
                    continue
                cands.append(v)
            elif isinstance(st, ast.If) and not all(isinstance(x, ast.Raise) for x in st.body):
                # the same selection written as an if/else statement: the names it (re)binds
                before = dict(t3.env)
                try:
                    if t3.block([st]) is not None:
                        continue
                except symx.Unsupported:
                    continue
                if any(isinstance(c, ast.Call) and norm(c.func) == "self.sjm" for c in ast.walk(st)):
                    continue
                for k, v in t3.env.items():
                    if before.get(k) is not v and isinstance(v, I):
                        cands.append(v)
            for v in cands:
                pv = symx.prune(v)
                if FIN in val_atoms(pv):
                    leaf = eval_val(pv, {a: True for a in val_atoms(pv)})
                    leaf_inf = eval_val(pv, {a: (a != FIN) for a in val_atoms(pv)})
                    # "a null mean": for infinite N it is t itself; for finite N it is built from the exclusive running sum
                    if isinstance(leaf, sp.Basic) and any(scan_name(q) == "SX" for q in sp.preorder_traversal(leaf)) \
                            and isinstance(leaf_inf, sp.Basic) and is_zero(leaf_inf - t):
                        sites.append((mname, v, st, None))
    return sites


def rule_null_mean(chk, idx, rule, tfs):
    sites = null_mean_sites(idx)
    found = 0
    for name, val, node, _ in sites:
        ok_all = True
        detail = {}
        val = symx.prune(val)
        for row in rows(val_atoms(val)):
            fin = row.get(FIN)
            if fin is None:
                ok_all = False
                detail["reason"] = "the mean is not selected by np.isfinite(N)"
                break
            leaf = eval_val(val, row)
            want = mu(bool(fin))
            ok = is_zero(leaf - want)
            detail["finite" if fin else "infinite"] = sp.sstr(leaf)[:200]
            if not ok:
                ok_all = False
                detail["oracle"] = sp.sstr(want)
        found += 1
        chk.ob(rule, W(name), "null-mean-formula", ok_all,
               "mu_j == (N t - sum_{k<j} x_k)/(N-j+1) for finite N (exclusive running sum), t otherwise",
               node=node, **detail)
    # (wald_sprt computes its mean in-line: covered by the factor identity, rule_factor_and_composition)
    chk.need(rule, found, 2, "sites computing the null conditional mean (sjm and every direct recomputation)")


# ---------------------------------------------------------------------------
# C01.R5 / C12.R4: in-place overrides of the statistic


def _cond_of_mask(tx, node):
    return tx.cond(node)


def cond_equiv(c1, c2):
    atoms = cond_atoms(c1) | cond_atoms(c2)
    for row in rows(atoms):
        if eval_cond(c1, row) != eval_cond(c2, row):
            return False
    return True


INF_TXT = ("np.inf", "numpy.inf", "math.inf", "inf")


def classify_overrides(chk, tf: TestFacts, rule, require=None):
    """Every in-place store into the statistic either assigns a constant <= 1
    (p_j = 1, conservative) or assigns +inf under a null-impossibility mask."""
    name = tf.name
    an = tf.an
    tx = an.tx
    spec = SPEC[name]
    kinds = []
    # which variable is the statistic: the one whose cumprod reaches the return
    for st, target, idx_node, val_node in an.stores:
        stat = target
        try:
            v = tx.child(dict(tx.env)).expr(val_node)
        except symx.Unsupported as e:
            raise AnalysisError(f"{name}: override value {norm(val_node)} outside the dialect: {e}")
        key = f"store:{norm(idx_node)[:60]}"
        scond = an.store_cond.get(id(st), True)
        if an.store_kind.get(id(st)) == "history":
            # a store into the capped history: 1 is conservative; 0 (p = 0) only at the last entry when the total exceeds N t
            okh = False
            if isinstance(v, E) and v.e == 1:
                okh = True
            elif isinstance(v, E) and v.e == 0 and nnm_const_int(idx_node) == -1 and scond is not True:
                sh = spec["shift"]
                want = ("atom", f"lt({sp.sstr(N * (t + sh) if sh != 0 else N * t)},{sp.sstr(STOT(x + sh) if sh != 0 else STOT(x))})")
                okh = cond_equiv(scond, want)
            chk.ob(rule, W(name), key + "@history", okh,
                   "a store into the p-value history assigns 1 (conservative), or 0 at the last entry only when the observed total exceeds N t",
                   node=st, statement=norm(st)[:160], condition=fmt_cond(scond) if scond is not True else "unconditional")
            continue
        if scond is not True and not (isinstance(v, E) and v.e.is_Number and 0 <= v.e <= 1):
            # a conditional +inf override: the condition itself must be a null-impossible event
            sh = spec["shift"]
            want = ("atom", f"lt({sp.sstr(N * (t + sh) if sh != 0 else N * t)},{sp.sstr(STOT(x + sh) if sh != 0 else STOT(x))})")
            okc = isinstance(v, E) and sp.sstr(v.e) in INF_TXT and nnm_const_int(idx_node) == -1 and cond_equiv(scond, want)
            chk.ob(rule, W(name), key + "@conditional", okc,
                   "a conditional +inf override is confined to the last entry and to the event `observed total exceeds N t`",
                   node=st, statement=norm(st)[:160], condition=fmt_cond(scond))
            continue
        if isinstance(v, E) and v.e.is_Number:
            ok = bool(v.e <= 1) and bool(v.e >= 0)
            kinds.append(("const", norm(idx_node), v.e))
            chk.ob(rule, W(name), key, ok,
                   "an override assigns a constant in [0,1] to the statistic (reported p-value 1: conservative)",
                   node=st, statement=norm(st)[:160], value=str(v.e))
            continue
        # +inf overrides
        is_last = nnm_const_int(idx_node) == -1
        if is_last and isinstance(val_node, ast.IfExp):
            a, b = norm(val_node.body), norm(val_node.orelse)
            same = f"{stat}[-1]"
            if b == same and a in INF_TXT:
                c = tx.child(dict(tx.env)).cond(val_node.test)
            elif a == same and b in INF_TXT:
                c = symx.c_not(tx.child(dict(tx.env)).cond(val_node.test))
            else:
                chk.ob(rule, W(name), key, False, "last-entry override has the form `inf if <null impossible> else same`",
                       node=st, statement=norm(st)[:160])
                continue
            # null-impossible event: the observed total exceeds N*t (for the method's own N, t)
            sh = spec["shift"]
            want = ("atom", f"lt({sp.sstr(N * (t + sh) if sh != 0 else N * t)},{sp.sstr(STOT(x + sh) if sh != 0 else STOT(x))})")
            ok = cond_equiv(c, want)
            kinds.append(("inf-last", fmt_cond(c), None))
            chk.ob(rule, W(name), key, ok,
                   "the last entry is set to +inf (p = 0) only when the observed total exceeds N*t (impossible "
                   "under the null)", node=st, statement=norm(st)[:160], condition=fmt_cond(c), oracle=fmt_cond(want))
            continue
        if isinstance(v, E) and sp.sstr(v.e) in INF_TXT:
            c = tx.child(dict(tx.env)).cond(idx_node)
            shown = fmt_cond(c)
            want = Tx(env={"MU": spec_mean_val(spec)}).cond(ast.parse("MU < 0", mode="eval").body)
            ok = cond_equiv(c, want)
            kinds.append(("inf-mask", shown, None))
            chk.ob(rule, W(name), key, ok,
                   "+inf (p = 0) is assigned only where the null conditional mean is negative (impossible under "
                   "the null), using the method's own null mean", node=st, statement=norm(st)[:160],
                   mask=shown, oracle=fmt_cond(want))
            continue
        chk.ob(rule, W(name), key, False,
               "override assigns neither a constant in [0,1] nor +inf under a null-impossibility mask",
               node=st, statement=norm(st)[:160], value=repr(v)[:120])
    return kinds


def spec_mean_val(spec):
    """the specified null mean of a test as a term (selected by np.isfinite(N) unless the test is IID-only)"""
    if spec.get("iid"):
        return E(spec["mean"](False))
    return I(("atom", FIN), E(spec["mean"](True)), E(spec["mean"](False)))


def nnm_const_int(n):
    from .npflow import _const_int

    return _const_int(n)


def rule_boundary_conventions(chk, tf: TestFacts, rule):
    """C12.R4: p = 1 where mu_j > u, p = 0 once the total exceeds N t (alpha/betting)."""
    name = tf.name
    an, tx = tf.an, tf.an.tx
    spec = SPEC[name]
    have_gt_u = False
    have_last = False
    for st, target, idx_node, val_node in an.stores:
        try:
            v = tx.child(dict(tx.env)).expr(val_node)
        except symx.Unsupported:
            continue
        if isinstance(v, E) and v.e == 0:
            c = tx.child(dict(tx.env)).cond(idx_node)
            want = Tx(env={"MU": spec_mean_val(spec), "U": E(u)}).cond(ast.parse("MU > U", mode="eval").body)
            if cond_equiv(c, want):
                have_gt_u = True
        scond = an.store_cond.get(id(st), True)
        if nnm_const_int(idx_node) == -1 and scond is not True:
            want = ("atom", f"lt({sp.sstr(N * t)},{sp.sstr(STOT(x))})")
            hist0 = an.store_kind.get(id(st)) == "history" and isinstance(v, E) and v.e == 0
            stat_inf = an.store_kind.get(id(st)) == "stat" and isinstance(v, E) and sp.sstr(v.e) in INF_TXT
            if (hist0 or stat_inf) and cond_equiv(scond, want):
                have_last = True
        if nnm_const_int(idx_node) == -1 and isinstance(val_node, ast.IfExp):
            a, b = norm(val_node.body), norm(val_node.orelse)
            if (a in INF_TXT and b == f"{target}[-1]"):
                c = tx.child(dict(tx.env)).cond(val_node.test)
                want = ("atom", f"lt({sp.sstr(N * t)},{sp.sstr(STOT(x))})")
                if cond_equiv(c, want):
                    have_last = True
    chk.ob(rule, W(name), "p=1-where-mu>u", have_gt_u,
           "the statistic is set to 0 (p = 1) where the null conditional mean exceeds u", node=an.fdef, strength="N")
    chk.ob(rule, W(name), "p=0-when-total-exceeds-Nt", have_last,
           "the last entry is set to +inf (p = 0) when the observed total exceeds N t", node=an.fdef, strength="N")


# ---------------------------------------------------------------------------
# C11.R1 / C11.R3: cap and overall-vs-history


def rule_cap(chk, tf: TestFacts, rule):
    name = tf.name
    ok_o, ok_h = True, True
    bad = {}
    for row in tf.rows:
        o = eval_val(tf.an.overall, row)
        h = eval_val(tf.an.history, row)
        const01 = lambda e_: getattr(e_, "is_number", False) and e_.is_real and 0 <= e_ <= 1  # a literal in [0, 1] is capped as it stands
        ones = lambda e_: scan_name(e_) in ("np.ones", "np.ones_like") or (scan_name(e_) in ("np.full", "np.full_like") and len(e_.args) >= 2 and const01(e_.args[1]))
        if not ((isinstance(o, sp.Min) and sp.Integer(1) in o.args) or const01(o)):
            ok_o = False
            bad["overall"] = sp.sstr(o)[:200]
        if not ((isinstance(h, sp.Min) and sp.Integer(1) in h.args) or ones(h) or const01(h)):
            ok_h = False
            bad["history"] = sp.sstr(h)[:200]
    chk.ob(rule, W(name), "overall-cap", ok_o, "the overall p-value is min(1, .)", node=tf.an.ret,
           **({"extracted": bad["overall"]} if not ok_o else {}))
    chk.ob(rule, W(name), "history-cap", ok_h, "every history entry is minimum(1, .)", node=tf.an.ret,
           **({"extracted": bad["history"]} if not ok_h else {}))


def rule_overall_matches_history(chk, tf: TestFacts, rule):
    """overall == extremum of the same history under random_order, else its last entry.
    One obligation per value of random_order; the key records what the code returns
    instead (extremum / last / other) so that a known finding covers exactly one
    specific deviation."""
    name = tf.name
    an = tf.an
    late = nnm.stale_statistic_uses(an, an.ret.value.elts[0])
    hist_stores = [st.lineno for st, *_ in an.stores if an.store_kind.get(id(st)) == "history"]
    for rnd in (True, False):
        ok = True
        observed = set()
        detail = {}
        n_rows = 0
        for row0 in tf.rows:
            row = dict(row0)
            if RAND in row and row[RAND] != rnd:
                continue
            row[RAND] = rnd
            # rows excluded by the method's own guards (it raises instead of returning)
            if any(not eval_cond(gd, {**{a: False for a in cond_atoms(gd)}, **row}) for gd in an.tx.guards):
                continue
            n_rows += 1
            o = _norm_extrema(eval_val(an.overall, row))
            h = eval_val(an.history, row)
            kind, X = nnm.history_shape(h)
            if kind is None:
                ok = False
                observed.add("history-not-capped")
                continue
            if kind == "inv":
                ext = sp.Min(1, 1 / sp.Function("MAX")(X))
                last = sp.Min(1, 1 / sp.Function("index")(X, -1))
            else:
                ext = sp.Min(1, sp.Function("MIN")(X))
                last = sp.Min(1, sp.Function("index")(X, -1))
            want = ext if rnd else last
            cls = "extremum" if o == ext else ("last" if o == last else "other")
            # an uncapped but otherwise right value is C11.R1's business, not this rule's
            if cls == "other":
                o_c = sp.Min(1, o)
                cls = "extremum" if o_c == ext else ("last" if o_c == last else "other")
            observed.add(cls)
            if cls != ("extremum" if rnd else "last"):
                ok = False
                detail["overall"] = sp.sstr(o)[:240]
                detail["expected"] = sp.sstr(want)[:240]
        if late:
            ok = False
            observed.add("computed-before-overrides")
            detail["stale_lines"] = late
        if hist_stores:
            # an in-place store into the capped history is invisible to an overall value computed from the statistic
            ok = False
            observed.add("history-modified-in-place")
            detail["history_stores"] = hist_stores
        if n_rows == 0:
            continue
        got = "+".join(sorted(observed))
        chk.ob(rule, W(name), f"overall-vs-history[random_order={rnd}]:returns-{got}", ok,
               f"with random_order={rnd} the overall p-value is the "
               f"{'smallest history entry' if rnd else 'last history entry'} of the same final statistic",
               node=an.ret, rows=n_rows, **detail)


def _norm_extrema(e):
    """np.max / max / np.amax -> one symbol; same for min."""
    repl = {}
    for sub in sp.preorder_traversal(e):
        nm = scan_name(sub)
        if nm in ("np.max", "max", "np.amax", "np.nanmax") and len(sub.args) == 1:
            repl[sub] = sp.Function("MAX")(sub.args[0])
        if nm in ("np.min", "min", "np.amin", "np.nanmin") and len(sub.args) == 1:
            repl[sub] = sp.Function("MIN")(sub.args[0])
    return e.xreplace(repl)


# ---------------------------------------------------------------------------
# statelessness: every method is a function of the configuration and its arguments


def rule_stateless(chk, rule):
    """Every rule about NonnegMean.py reads one method body as *the* definition of what a call computes.  That is the case only
    if no method keeps state between calls: outside __init__ nothing is stored into `self` (attribute, item of an attribute,
    setattr, __dict__), no global / nonlocal is declared, no parameter has a mutable default, and no attribute is read through
    getattr with a fall-back (the idiom of a lazily created cache).  Memoising a value that "does not depend on the data" is the
    realistic way to break this: the cached value is stale as soon as the library re-assigns test.u, or the caller refills an
    array in place."""
    from . import aud as _aud
    idx = chk.idx
    m = idx.module(REL)
    n = 0
    for q, fd in sorted(m.defs.items()):
        if not isinstance(fd, ast.FunctionDef):
            continue
        if q.endswith(".__init__") or q.endswith(".__str__") or q.endswith(".__repr__"):
            continue
        problems = _aud.state_problems(m.tree, q, fd)
        n += 1
        chk.ob(rule, f"{REL}:{q}", "keeps-no-state", not problems,
               "a call computes a function of the configuration installed by the constructor and of its arguments: nothing is "
               "stored into self or into a module-level object outside __init__, no global declaration, no mutable default",
               node=fd, strength="N", **({"problems": problems} if problems else {}))
    chk.need(rule, n, 12, "functions of NonnegMean.py examined for state")


# ---------------------------------------------------------------------------
# the constructor's positional protocol

CTOR_ORDER = ["self", "test", "estim", "bet", "u", "N", "t", "random_order"]  # as documented in the class docstring and used
#                                                                               positionally by callers outside the package


def rule_ctor_signature(chk, rule):
    """NonnegMean(test, estim, bet, u, N, t, random_order, **kwargs): the positional parameters keep this order and these
    defaults' meaning; a new parameter is appended or keyword-only.  One inserted in the middle binds a positional
    `random_order=False` (or N, t) to something else without any error."""
    fd = chk.idx.func(REL, "NonnegMean.__init__")
    got = [a.arg for a in fd.args.posonlyargs + fd.args.args]
    ok = got[:len(CTOR_ORDER)] == CTOR_ORDER
    dflt = dict(zip([a.arg for a in fd.args.args][len(fd.args.args) - len(fd.args.defaults):], [norm(d) for d in fd.args.defaults]))
    ok_d = dflt.get("random_order") == "True" and dflt.get("u") == "1" and dflt.get("t") in ("1/2", "0.5", ".5")
    chk.ob(rule, f"{REL}:NonnegMean.__init__", "positional-protocol", ok and ok_d,
           "the constructor's positional parameters are (test, estim, bet, u, N, t, random_order), in this order, with random_order "
           "defaulting to True, u to 1 and t to 1/2: anything new comes after them or is keyword-only", node=fd, strength="N",
           parameters=got, defaults={k: dflt.get(k) for k in ("u", "N", "t", "random_order")})
