"""E3: dependency-lag and shape analysis for the NumPy dialect of NonnegMean.py.

Abstract values over the sample `x` (length n >= 1):

  Sc(dep)            scalar: dep in {'const', 'len', 'whole'}
                       const  no dependence on the data nor on n
                       len    depends on n only
                       whole  may depend on the entire sample
  Arr(lag, dlen)     array of length n+dlen whose entry j depends on x[0..j+lag]
                       lag = NINF   no dependence on the data (and not on n as a value)
                       lag <= -1    "predictable"
                       lag = INF    some entry may depend on the whole sample / on n
                     data=True marks (an alias of) the raw sample itself
                     last = abstract of a sanctioned store at index -1 (or None)
  Tup(items)         tuple
  TOP                unknown: a rule that needs it answers "cannot decide"

The analysis is a sound over-approximation of "may depend on": a reported
lag <= -1 is a proof that entry j is a function of x[0..j-1] and parameters.
The transfer table below is the trusted base.
"""
from __future__ import annotations

import ast
from dataclasses import dataclass, field, replace

from .core import AnalysisError, norm
from .astutil import walk_local
from .canon import _dc

INF = 10 ** 6
NINF = -(10 ** 6)


@dataclass(frozen=True)
class Sc:
    dep: str = "const"
    why: str = ""

    def __str__(self):
        return f"Sc({self.dep})"


@dataclass(frozen=True)
class Arr:
    lag: int = 0
    dlen: int | None = 0
    data: bool = False
    last: object = None
    why: str = ""
    first: object = None  # what sits in entry 0 when that differs from the rule of the other entries (np.roll)
    minn: int = 1  # the length formula n + dlen is exact for samples of at least this length (a slice [a:-b] needs n >= a + b)

    def __str__(self):
        lag = "-inf" if self.lag <= NINF else ("+inf" if self.lag >= INF else str(self.lag))
        dl = "?" if self.dlen is None else (f"n{self.dlen:+d}" if self.dlen else "n")
        s = f"Arr(lag={lag},len={dl}"
        if self.data:
            s += ",data"
        if self.last is not None:
            s += f",last={self.last}"
        if self.first is not None:
            s += f",first={self.first}"
        if self.minn > 1:
            s += f",for n>={self.minn}"
        return s + ")"


@dataclass(frozen=True)
class Tup:
    items: tuple

    def __str__(self):
        return "(" + ", ".join(str(i) for i in self.items) + ")"


class _Top:
    def __str__(self):
        return "Top"

    __repr__ = __str__


TOP = _Top()
CONST = Sc("const")
LEN = Sc("len")


def WHOLE(why=""):
    return Sc("whole", why)


def clamp(l):
    return max(NINF, min(INF, l))


def sc_join(a: Sc, b: Sc) -> Sc:
    order = {"const": 0, "len": 1, "whole": 2}
    return a if order[a.dep] >= order[b.dep] else b


def elementwise(*vals):
    """Abstract result of an element-wise operation / ufunc / comparison."""
    if any(v is TOP for v in vals):
        return TOP
    if any(isinstance(v, Tup) for v in vals):
        return TOP
    arrs = [v for v in vals if isinstance(v, Arr)]
    scs = [v for v in vals if isinstance(v, Sc)]
    if not arrs:
        out = CONST
        for s in scs:
            out = sc_join(out, s)
        return out
    lag = max(a.lag for a in arrs)
    why = next((a.why for a in arrs if a.lag == lag and a.why), "")
    dlens = {a.dlen for a in arrs}
    dlen = dlens.pop() if len(dlens) == 1 else None
    for s in scs:
        if s.dep == "whole":
            lag, why = INF, (s.why or "whole-sample scalar used element-wise")
        elif s.dep == "len":
            lag, why = INF, "len(x) used as a value element-wise"
    last = None
    first = None
    for a in arrs:
        if a.last is not None:
            last = a.last
        if a.first is not None:
            first = a.first
    return Arr(clamp(lag), dlen, False, last, why, first, max(a.minn for a in arrs))


ELEMENTWISE = {
    "sqrt", "abs", "absolute", "exp", "log", "log1p", "isfinite", "isnan", "isinf", "isclose", "minimum",
    "maximum", "power", "square", "sign", "floor", "ceil", "where", "clip", "nan_to_num", "fmax", "fmin",
    "logical_and", "logical_or", "logical_not", "reciprocal", "divide", "multiply", "add", "subtract",
}
CAUSAL_SCANS = {"cumsum", "cumprod", "maximum.accumulate", "minimum.accumulate", "fmax.accumulate"}
REDUCTIONS = {"sum", "max", "min", "mean", "std", "var", "prod", "median", "any", "all", "amax", "amin",
              "nanmax", "nanmin", "nansum", "argmax", "argmin", "average", "quantile", "percentile", "ptp"}
IDENTITY = {"array", "asarray", "copy", "float64", "asfarray", "ascontiguousarray"}
CONST_CALLS = {"finfo", "errstate", "isinf"}


@dataclass
class Event:
    kind: str  # 'index_store' | 'mask_store' | 'slice_store'
    target: str
    node: ast.AST
    before: object
    value: object
    index: object = None
    mask: object = None
    value_node: ast.AST | None = None
    mask_node: ast.AST | None = None


class Flow:
    """Inter-procedural abstract interpreter (memoised summaries)."""

    def __init__(self, module, registry=None):
        self.module = module  # core.Module of NonnegMean.py
        self.memo = {}
        self.registry = registry or {}
        self.stack = []
        imports = {}
        for n in module.tree.body:
            if isinstance(n, ast.Import):
                for a in n.names:
                    imports[a.asname or a.name] = a.name
        self.imports = imports
        self.np_aliases = {k for k, v in imports.items() if v == "numpy"}
        self.math_aliases = {k for k, v in imports.items() if v == "math"}
        if not self.np_aliases:
            raise AnalysisError("NonnegMean.py no longer imports numpy under an alias")

    def func(self, qual):
        n = self.module.defs.get(qual)
        if not isinstance(n, ast.FunctionDef):
            raise AnalysisError(f"anchor vanished: {self.module.rel}:{qual}")
        x = getattr(self, "expanded", None)
        if x is not None:  # (private helpers expanded in place, as every other reader of the code sees them)
            try:
                return x(qual)
            except Exception:
                return n
        return n

    def analyse(self, qual, args: dict):
        """args: param name -> abstract.  Returns Frame (with .ret, .events)."""
        key = (qual, tuple(sorted((k, str(v)) for k, v in args.items())))
        if key in self.memo:
            return self.memo[key]
        if qual in self.stack:
            raise AnalysisError(f"recursion in {qual}")
        self.stack.append(qual)
        try:
            fr = Frame(self, qual, self.func(qual), args)
            fr.run()
        finally:
            self.stack.pop()
        self.memo[key] = fr
        return fr


class Frame:
    def __init__(self, flow: Flow, qual, fdef, args):
        self.flow = flow
        self.qual = qual
        self.fdef = fdef
        self.env: dict[str, object] = {}
        self.defs: dict[str, ast.AST] = {}  # name -> last defining value node
        self.events: list[Event] = []
        self.rets: list[tuple[ast.Return, object]] = []
        self.ret = None
        self.expr_abs: dict[int, object] = {}  # id(node) -> abstract at evaluation time
        params = [a.arg for a in fdef.args.args]
        for p in params:
            if p in args:
                self.env[p] = args[p]
            elif p in ("self", "cls"):
                self.env[p] = CONST
            else:
                self.env[p] = CONST
        if fdef.args.kwarg:
            self.env[fdef.args.kwarg.arg] = CONST
        self.taint = []  # stack of data-dependent branch conditions
        self.sticky = []  # data-dependent conditions under which the function may already have returned: everything later is
        #                   control-dependent on them

    # -- driver -----------------------------------------------------------
    def run(self):
        self.block(self.fdef.body)
        vals = [v for _, v in self.rets]
        if not vals:
            self.ret = CONST
        else:
            out = vals[0]
            for v in vals[1:]:
                out = join(out, v)
            self.ret = out

    def block(self, stmts):
        for st in stmts:
            self.stmt(st)

    def stmt(self, st):
        if isinstance(st, ast.Expr):
            if isinstance(st.value, ast.Constant):
                return
            self.ev(st.value)
            return
        if isinstance(st, (ast.Assert, ast.Raise, ast.Pass, ast.Import, ast.ImportFrom)):
            if isinstance(st, ast.Assert):
                self.ev(st.test)
            return
        if isinstance(st, ast.Return):
            v = self.ev(st.value) if st.value is not None else CONST
            if self.taint or self.sticky:
                v = taint(v, "returned under (or after an early return under) a data-dependent branch")
            self.rets.append((st, v))
            return
        if isinstance(st, ast.Assign):
            v = self.ev(st.value)
            for t in st.targets:
                self.assign(t, v, st.value, st)
            return
        if isinstance(st, ast.AnnAssign):
            if st.value is not None:
                self.assign(st.target, self.ev(st.value), st.value, st)
            return
        if isinstance(st, ast.AugAssign):
            cur = self.ev(_load(st.target))
            v = elementwise(cur, self.ev(st.value))
            self.assign(st.target, v, st.value, st)
            return
        if isinstance(st, ast.With):
            for it in st.items:
                self.ev(it.context_expr)
            self.block(st.body)
            return
        if isinstance(st, ast.If):
            c = self.ev(st.test)
            data_dep = _depends(c)
            only_raises = all(isinstance(s, ast.Raise) for s in st.body) and not st.orelse
            only_warns = all(_is_warn(s) for s in st.body) and not st.orelse
            env0 = dict(self.env)
            if data_dep and not (only_raises or only_warns):
                self.taint.append(c)
            self.block(st.body)
            env1 = self.env
            self.env = dict(env0)
            self.block(st.orelse)
            env2 = self.env
            if data_dep and not (only_raises or only_warns):
                self.taint.pop()
                if any(isinstance(r, ast.Return) for b in st.body + st.orelse for r in ast.walk(b)):
                    self.sticky.append(c)
            merged = {}
            for k in set(env1) | set(env2):
                a, b = env1.get(k), env2.get(k)
                if a is None or b is None:
                    merged[k] = a if b is None else b
                else:
                    merged[k] = join(a, b)
            self.env = merged
            return
        if isinstance(st, ast.For):
            if _is_validation_loop(st):
                return  # only raises: no value flows out of it
            if self.try_builder_loop(st):
                return
            raise AnalysisError(
                f"{self.qual}: loop at line {st.lineno} is outside the modelled dialect (not an append-builder)")
        if isinstance(st, ast.While):
            raise AnalysisError(f"{self.qual}: while loop at line {st.lineno} outside the modelled dialect")
        if isinstance(st, (ast.FunctionDef, ast.ClassDef)):
            return
        raise AnalysisError(f"{self.qual}: statement {type(st).__name__} at line {st.lineno} outside the dialect")

    # -- assignment ----------------------------------------------------------
    def assign(self, tgt, v, value_node, st):
        if self.taint or self.sticky:
            v = taint(v, "assigned under a data-dependent branch")
        if isinstance(tgt, ast.Name):
            self.env[tgt.id] = v
            self.defs[tgt.id] = value_node
            return
        if isinstance(tgt, (ast.Tuple, ast.List)):
            if isinstance(v, Tup) and len(v.items) == len(tgt.elts):
                for t, x in zip(tgt.elts, v.items):
                    self.assign(t, x, None, st)
            else:
                for t in tgt.elts:
                    self.assign(t, TOP if v is TOP else v, None, st)
            return
        if isinstance(tgt, ast.Subscript) and isinstance(tgt.value, ast.Name):
            name = tgt.value.id
            before = self.env.get(name, TOP)
            sl = tgt.slice
            if isinstance(sl, ast.Slice):
                new = elementwise(before, v) if isinstance(before, Arr) else TOP
                if isinstance(new, Arr) and isinstance(before, Arr):
                    new = replace(new, dlen=before.dlen, data=False)
                self.events.append(Event("slice_store", name, st, before, v, index=norm(sl), value_node=value_node))
                self.env[name] = new
                return
            k = _const_int(sl)
            if k is not None:
                self.events.append(Event("index_store", name, st, before, v, index=k, value_node=value_node))
                if isinstance(before, Arr):
                    if k == -1:
                        # only the last entry changes; remember what flows there
                        self.env[name] = replace(before, data=False, last=v)
                    elif isinstance(v, Sc) and v.dep == "const":
                        self.env[name] = replace(before, data=False, first=None) if k == 0 else replace(before, data=False)
                    else:
                        self.env[name] = taint(before, f"store at index {k} of a data-dependent value")
                return
            m = self.ev(sl)
            self.events.append(Event("mask_store", name, st, before, v, mask=m, value_node=value_node, mask_node=sl))
            if isinstance(before, Arr):
                new = elementwise(before, m, v)
                if isinstance(new, Arr):
                    new = replace(new, dlen=before.dlen, data=False)
                self.env[name] = new
            else:
                self.env[name] = TOP
            return
        if isinstance(tgt, ast.Attribute):
            return  # attribute stores on self do not feed the sample analysis
        raise AnalysisError(f"{self.qual}: assignment target {norm(tgt)} outside the dialect")

    # -- the Welford-style append-builder -------------------------------------
    def try_builder_loop(self, st: ast.For) -> bool:
        """for [i,] xi in [enumerate(]x[1:][, start=k)]:  <local temporaries>;  L.append(f(...))
        -- at most one append per list per iteration; element k of each list depends on x[0..k] only when the appended
        value is built from the loop element, the index, constants and the entries built so far."""
        it = st.iter
        idx_name = None
        if isinstance(it, ast.Call) and norm(it.func) == "enumerate" and len(it.args) >= 1:
            ok_kw = all(k.arg == "start" and _const_int(k.value) is not None for k in it.keywords) and len(it.args) <= 2 \
                and (len(it.args) == 1 or _const_int(it.args[1]) is not None)
            if not ok_kw:
                return False
            it = it.args[0]
            if not (isinstance(st.target, ast.Tuple) and len(st.target.elts) == 2 and isinstance(st.target.elts[0], ast.Name)):
                return False
            idx_name, elt = st.target.elts[0].id, st.target.elts[1]
        else:
            elt = st.target
        if not isinstance(elt, ast.Name):
            return False
        if not (isinstance(it, ast.Subscript) and isinstance(it.slice, ast.Slice)):
            return False
        base = self.ev(it.value)
        if not (isinstance(base, Arr) and base.lag == 0 and base.dlen == 0):
            return False
        lo, hi, step = it.slice.lower, it.slice.upper, it.slice.step
        if not (lo is not None and _const_int(lo) == 1 and hi is None and step is None):
            return False
        if st.orelse:
            return False
        # which lists are built: initialised (before the loop) with exactly one element
        builders = []
        temps = []
        for s in st.body:
            if isinstance(s, ast.Expr) and isinstance(s.value, ast.Call) and isinstance(s.value.func, ast.Attribute) \
                    and s.value.func.attr == "append" and isinstance(s.value.func.value, ast.Name) and len(s.value.args) == 1:
                lname = s.value.func.value.id
                if lname in builders:
                    return False  # two appends to the same list in one iteration
                init = self.defs.get(lname)
                if not (isinstance(init, ast.List) and len(init.elts) == 1):
                    return False
                builders.append(lname)
            elif isinstance(s, ast.Assign) and len(s.targets) == 1 and isinstance(s.targets[0], ast.Name):
                temps.append(s.targets[0].id)
            else:
                return False
        if not builders:
            return False
        # loop-carried scalars (`mean`, `ssd` read before they are re-assigned in the body): the value carried into iteration k
        # was computed from x[0..k]; it is admissible when it starts from a constant or from x[0]
        carried, seen_assigned = [], set()
        for s in st.body:
            val = s.value if isinstance(s, ast.Assign) else s.value.args[0]
            for nd in ast.walk(val):
                if isinstance(nd, ast.Name) and nd.id in temps and nd.id not in seen_assigned and nd.id not in carried:
                    carried.append(nd.id)
            if isinstance(s, ast.Assign):
                seen_assigned.add(s.targets[0].id)

        def init_ok(node, depth=0):
            if node is None or depth > 4:
                return False
            if isinstance(node, ast.Name) and node.id in self.defs:
                return init_ok(self.defs[node.id], depth + 1)
            iv = self.ev(node)
            return (isinstance(iv, Sc) and iv.dep == "const") or (
                isinstance(node, ast.Subscript) and _const_int(node.slice) == 0
                and isinstance(self.ev(node.value), Arr) and self.ev(node.value).lag == 0)

        carried_bad = [c for c in carried if not init_ok(self.defs.get(c))]
        saved = dict(self.env)
        worst = {}
        try:
            self.env[elt.id] = CONST
            if idx_name:
                self.env[idx_name] = CONST
            for c in carried:
                self.env[c] = CONST
            # at iteration 0 every list holds its single initial element; an append executed earlier in the same
            # iteration adds one (lengths only grow)
            for lname in builders:
                self.env[lname] = Arr(NINF, 0)
            for s in st.body:  # body order
                if isinstance(s, ast.Assign):
                    v = self.ev(s.value)
                    if v is TOP:
                        return False
                    self.env[s.targets[0].id] = v
                else:
                    lname = s.value.func.value.id
                    v = self.ev(s.value.args[0])
                    if v is TOP:
                        return False
                    worst[lname] = v
                    self.env[lname] = Arr(NINF, 1)
        finally:
            self.env = saved
        for lname in builders:
            init = self.defs[lname].elts[0]
            if not init_ok(init):
                worst[lname] = WHOLE(f"initial element {norm(init)} is not x[0] or a constant")
            if carried_bad:
                worst[lname] = WHOLE(f"loop-carried value {carried_bad[0]} does not start from x[0] or a constant")
        self.builder_lists = sorted(builders)
        for lname in builders:
            v = worst[lname]
            if isinstance(v, Sc) and v.dep == "const":
                self.env[lname] = Arr(0, 0, False, None, "append-builder over enumerate(x[1:])")
            else:
                why = getattr(v, "why", "") or "appended value depends on more than the draws seen so far"
                self.env[lname] = Arr(INF, 0, False, None, "append-builder looks ahead: " + why)
        # loop temporaries and loop variables hold values of the last iteration afterwards
        for nm in temps + [elt.id] + ([idx_name] if idx_name else []):
            self.env[nm] = WHOLE("value of a loop variable after the loop")
        return True

    # -- expressions ----------------------------------------------------------
    def ev(self, n):
        v = self._ev(n)
        self.expr_abs[id(n)] = v
        return v

    def _ev(self, n):
        np_al = self.flow.np_aliases
        if isinstance(n, ast.Constant):
            return CONST
        if isinstance(n, ast.Name):
            if n.id in self.env:
                return self.env[n.id]
            if n.id in np_al or n.id in self.flow.math_aliases or n.id in ("float", "int", "math", "warnings",
                                                                           "True", "False", "None"):
                return CONST
            return CONST  # module-level constants / builtins
        if isinstance(n, ast.NamedExpr):
            v = self.ev(n.value)
            self.env[n.target.id] = v
            self.defs[n.target.id] = n.value
            return v
        if isinstance(n, ast.Attribute):
            b = self.ev(n.value)
            if isinstance(b, Sc):
                return b
            if isinstance(b, Arr) and n.attr in ("T", "real"):
                return b
            if isinstance(b, Arr) and n.attr in ("size", "shape"):
                return LEN
            return TOP
        if isinstance(n, ast.JoinedStr):
            return CONST
        if isinstance(n, (ast.Tuple, ast.List)):
            items = [self.ev(e) for e in n.elts]
            if isinstance(n, ast.List):
                # a literal list of scalars handed to np.min/np.max: keep the items
                return Tup(tuple(items))
            return Tup(tuple(items))
        if isinstance(n, ast.UnaryOp):
            return elementwise(self.ev(n.operand))
        if isinstance(n, ast.BinOp):
            return elementwise(self.ev(n.left), self.ev(n.right))
        if isinstance(n, ast.BoolOp):
            return elementwise(*[self.ev(v) for v in n.values])
        if isinstance(n, ast.Compare):
            return elementwise(self.ev(n.left), *[self.ev(c) for c in n.comparators])
        if isinstance(n, ast.IfExp):
            c = self.ev(n.test)
            a, b = self.ev(n.body), self.ev(n.orelse)
            r = join(a, b)
            if _depends(c):
                r = taint(r, "selected by a data-dependent condition")
                if isinstance(r, Sc):
                    r = sc_join(r, c if isinstance(c, Sc) else WHOLE("array condition"))
            return r
        if isinstance(n, ast.Subscript):
            return self.subscript(n)
        if isinstance(n, ast.Call):
            return self.call(n)
        if isinstance(n, (ast.GeneratorExp, ast.ListComp)) and len(n.generators) == 1 and not n.generators[0].ifs:
            # [E(e) for e in A] over an array A whose entry j depends on x[0..j+lag]: an element-wise map when E reads nothing of
            # the data but its element (the targets are bound to the array itself in the element-wise view)
            g = n.generators[0]
            a = self.ev(g.iter)
            if isinstance(a, Arr) and NINF < a.lag < INF:
                names = [t.id for t in ast.walk(g.target) if isinstance(t, ast.Name)]
                saved = {k: self.env.get(k) for k in names}
                for k in names:
                    self.env[k] = replace(a, data=False, last=None)
                try:
                    r = self.ev(n.elt)
                finally:
                    for k, v0 in saved.items():
                        if v0 is None:
                            self.env.pop(k, None)
                        else:
                            self.env[k] = v0
                if isinstance(r, Arr):
                    return replace(r, dlen=a.dlen, minn=max(r.minn, a.minn))
                if isinstance(r, Sc) and r.dep == "const":
                    return Arr(NINF, a.dlen, False, None, "", None, a.minn)
        if isinstance(n, (ast.GeneratorExp, ast.ListComp, ast.SetComp)):
            # element-wise comprehension over the sample -> a data-dependent collection
            deps = [self.ev(g.iter) for g in n.generators]
            if any(_depends(d) for d in deps):
                return Arr(INF, None, False, None, "comprehension over the sample")
            return CONST
        if isinstance(n, ast.Lambda):
            return CONST
        if isinstance(n, ast.Dict):
            return CONST
        return TOP

    def subscript(self, n):
        b = self.ev(n.value)
        sl = n.slice
        if isinstance(b, Tup):
            k = _const_int(sl)
            if k is not None and -len(b.items) <= k < len(b.items):
                return b.items[k]
            return TOP
        if isinstance(b, Sc):
            return b
        if b is TOP:
            return TOP
        assert isinstance(b, Arr)
        if isinstance(sl, ast.Slice):
            lo = 0 if sl.lower is None else _const_int(sl.lower)
            hi_n = sl.upper
            if sl.step is not None:
                return TOP
            if lo is None:
                return TOP
            if hi_n is None:
                if lo < 0:
                    return TOP
                return Arr(clamp(b.lag + lo) if b.lag > NINF else NINF,
                           None if b.dlen is None else b.dlen - lo, False, b.last, b.why)
            hi = _const_int(hi_n)
            if lo != 0:
                if lo > 0 and hi is not None and hi < 0 and b.dlen is not None:
                    # a[lo:-k]: entry i is a[i + lo]; n + dlen - lo - k entries, provided the array is that long
                    return Arr(clamp(b.lag + lo) if b.lag > NINF else NINF, b.dlen - lo + hi, False, None, b.why, None,
                               max(b.minn, lo - hi - b.dlen))
                return TOP
            if hi is not None and hi < 0:
                return Arr(b.lag, None if b.dlen is None else b.dlen + hi, False, None, b.why, None,
                           b.minn if b.dlen is None else max(b.minn, -hi - b.dlen))
            # [0:k] with k const or data-independent expression: a prefix
            hv = self.ev(hi_n)
            if isinstance(hv, Sc) and hv.dep in ("const", "len"):
                return Arr(b.lag, None, False, None, b.why)
            return TOP
        k = _const_int(sl)
        if k is not None:
            self.events.append(Event("index_load", norm(n.value)[:40], n, b, None, index=k))
            if b.lag <= NINF:
                return CONST
            return WHOLE(f"{norm(n)} (entry at a fixed position of a data-dependent array)")
        m = self.ev(sl)
        return elementwise(b, m)

    def call(self, n):
        f = n.func
        name = norm(f)
        np_al = self.flow.np_aliases
        args = n.args
        # numpy / math
        short = None
        if isinstance(f, ast.Attribute):
            root = f
            parts = []
            while isinstance(root, ast.Attribute):
                parts.append(root.attr)
                root = root.value
            if isinstance(root, ast.Name) and (root.id in np_al or root.id in self.flow.math_aliases):
                short = ".".join(reversed(parts))
        if short is not None:
            av = [self.ev(a) for a in args]
            kv = [self.ev(k.value) for k in n.keywords]
            if short in IDENTITY and av:
                v = av[0]
                if isinstance(v, Tup):
                    return elementwise(*v.items) if all(isinstance(i, Sc) for i in v.items) else TOP
                return v
            if short in CAUSAL_SCANS and len(av) == 1:
                v = av[0]
                if isinstance(v, Arr):
                    return replace(v, data=False, last=None)
                return v if isinstance(v, Sc) else TOP
            if short == "insert" and len(av) == 3:
                a, i, c = av
                if isinstance(a, Arr) and _const_int(args[1]) == 0 and isinstance(c, Sc) and c.dep == "const":
                    return Arr(clamp(a.lag - 1) if a.lag > NINF and a.lag < INF else a.lag,
                               None if a.dlen is None else a.dlen + 1, False, None, a.why)
                return TOP
            if short == "roll" and len(av) == 2:
                a = av[0]
                if isinstance(a, Arr) and _const_int(args[1]) == 1:
                    # entry j >= 1 is a[j-1] (one step older), entry 0 is the *last* entry of a: the whole sample
                    return Arr(clamp(a.lag - 1) if NINF < a.lag < INF else a.lag, a.dlen, False, None, a.why,
                               WHOLE("np.roll wraps the last entry round to the front"))
                return TOP
            if short == "append" and len(av) == 2:
                a, c = av
                if isinstance(a, Arr) and isinstance(c, Sc) and c.dep == "const":
                    return Arr(a.lag, None if a.dlen is None else a.dlen + 1, False, None, a.why)
                return TOP
            if short == "concatenate" and len(args) == 1 and isinstance(args[0], (ast.Tuple, ast.List)) and len(args[0].elts) == 2 and not kv:
                # (constants, array): k constant entries in front shift every entry of the array k places to the right
                head, tail = args[0].elts
                tv = self.ev(tail)
                if isinstance(head, (ast.List, ast.Tuple)) and all(isinstance(self.ev(e), Sc) and self.ev(e).dep == "const" for e in head.elts) \
                        and isinstance(tv, Arr) and tv.dlen is not None:
                    k_ = len(head.elts)
                    return Arr(clamp(tv.lag - k_) if NINF < tv.lag < INF else tv.lag, tv.dlen + k_, False, None, tv.why, None, tv.minn)
                return TOP
            if short in ("arange",):
                if all(isinstance(v, Sc) and v.dep in ("const", "len") for v in av + kv):
                    return Arr(NINF, _arange_dlen(args, self), False, None, "")
                return TOP
            if short in ("ones", "zeros", "empty", "full"):
                if all(isinstance(v, Sc) and v.dep in ("const", "len") for v in av + kv):
                    dl = 0 if (args and _is_len_of_sample(args[0], self)) else None
                    return Arr(NINF, dl, False, None, "")
                return TOP
            if short in ("ones_like", "zeros_like", "empty_like", "full_like") and av:
                v = av[0]
                if short == "full_like" and len(av) >= 2 and not (isinstance(av[1], Sc) and av[1].dep == "const"):
                    return elementwise(Arr(NINF, v.dlen, False, None, "") if isinstance(v, Arr) else CONST, av[1])  # the fill value's dependence
                if isinstance(v, Arr):
                    return Arr(NINF, v.dlen, False, None, "")
                return CONST
            if short in ELEMENTWISE:
                return elementwise(*av, *kv)
            if short in REDUCTIONS:
                flat = []
                for v in av:
                    flat.extend(v.items if isinstance(v, Tup) else [v])
                if any(v is TOP for v in flat):
                    return TOP
                if any(isinstance(v, Arr) and v.lag > NINF for v in flat):
                    return WHOLE(f"{norm(n)[:60]}")
                out = CONST
                for v in flat:
                    if isinstance(v, Sc):
                        out = sc_join(out, v)
                    elif isinstance(v, Arr):
                        out = sc_join(out, LEN)
                return out
            if short in CONST_CALLS or short.startswith("finfo") or short in ("isfinite", "isinf", "ceil", "floor",
                                                                               "sqrt", "inf"):
                return elementwise(*av) if av else CONST
            if short.startswith("random."):
                return TOP
            return TOP
        # builtins
        if name in ("len",) and len(args) == 1:
            v = self.ev(args[0])
            if isinstance(v, Arr):
                return LEN
            return CONST if isinstance(v, Sc) else TOP
        if name in ("min", "max", "sum", "any", "all", "abs", "float", "int", "bool", "round"):
            av = [self.ev(a) for a in args]
            flat = []
            for v in av:
                flat.extend(v.items if isinstance(v, Tup) else [v])
            if any(v is TOP for v in flat):
                return TOP
            if any(isinstance(v, Arr) and v.lag > NINF for v in flat):
                return WHOLE(f"{norm(n)[:60]}")
            out = CONST
            for v in flat:
                if isinstance(v, Sc):
                    out = sc_join(out, v)
                elif isinstance(v, Arr):
                    out = sc_join(out, LEN)
            return out
        if name in ("enumerate", "list", "tuple", "iter") and len(args) >= 1:
            v0 = self.ev(args[0])
            if isinstance(v0, Arr):
                return v0  # the same entries in the same order
        if name in ("itertools.accumulate", "accumulate") and len(args) == 2 and isinstance(args[1], ast.Name):
            # a fold that reports every intermediate state is a causal scan, provided the step function sees nothing but the
            # state and the item (a module-level function without free names) and the initial state is a constant or x[0]
            v0 = self.ev(args[0])
            step = self.flow.module.defs.get(args[1].id)
            init = next((k.value for k in n.keywords if k.arg == "initial"), None)
            closed = False
            if isinstance(step, ast.FunctionDef):
                import builtins as _b
                params = {a_.arg for a_ in step.args.args}
                stored = {x.id for x in ast.walk(step) if isinstance(x, ast.Name) and isinstance(x.ctx, ast.Store)}
                free = {x.id for x in ast.walk(step) if isinstance(x, ast.Name) and isinstance(x.ctx, ast.Load)} - params - stored
                closed = all(hasattr(_b, f_) or f_ in self.flow.np_aliases or f_ in self.flow.math_aliases for f_ in free) \
                    and not any(isinstance(x, (ast.Global, ast.Nonlocal, ast.Attribute)) and not (isinstance(x, ast.Attribute) and isinstance(x.value, ast.Name)
                                and (x.value.id in self.flow.np_aliases or x.value.id in self.flow.math_aliases)) for x in ast.walk(step)
                                if isinstance(x, (ast.Global, ast.Nonlocal, ast.Attribute)))

            def start_ok(nd, depth=0):
                if nd is None or depth > 4:
                    return nd is None
                while isinstance(nd, ast.Name) and isinstance(self.defs.get(nd.id), ast.AST) and depth < 4:
                    nd, depth = self.defs[nd.id], depth + 1
                if isinstance(nd, ast.Constant):
                    return True
                if isinstance(nd, (ast.Tuple, ast.List)):
                    return all(start_ok(e, depth + 1) for e in nd.elts)
                if isinstance(nd, ast.Subscript) and _const_int(nd.slice) == 0:
                    b0 = self.ev(nd.value)
                    return isinstance(b0, Arr) and b0.lag == 0 and b0.dlen == 0
                return False
            if isinstance(v0, Arr) and NINF < v0.lag < INF and v0.dlen is not None and closed and start_ok(init):
                k0 = 1 if init is not None else 0
                return Arr(clamp(v0.lag - k0), v0.dlen + k0, False, None, v0.why, None, v0.minn)
            return TOP
        if name in ("getattr", "isinstance", "hasattr", "range", "str", "print", "type"):
            for a in args:
                self.ev(a)
            return CONST
        if name in ("warnings.warn", "kwargs.get", "math.isinf", "math.ceil", "math.floor", "math.sqrt"):
            vs = [self.ev(a) for a in args]
            if name.startswith("math."):
                return elementwise(*vs)
            return CONST
        # calls into the module itself
        target = None
        if isinstance(f, ast.Attribute) and isinstance(f.value, ast.Name) and f.value.id == "self":
            if f.attr in ("estim", "bet"):
                return self.registry_call(f.attr, n)
            if f.attr == "test":
                return TOP
            cls = self.qual.rsplit(".", 1)[0] if "." in self.qual else None
            if cls and f"{cls}.{f.attr}" in self.flow.module.defs:
                target = f"{cls}.{f.attr}"
        elif isinstance(f, ast.Name) and f.id in self.flow.module.defs:
            target = f.id
        if target is not None:
            fd = self.flow.func(target)
            params = [a.arg for a in fd.args.args]
            if params and params[0] in ("self", "cls") and isinstance(f, ast.Attribute):
                params = params[1:]
            amap = {}
            for p, a in zip(params, args):
                amap[p] = self.ev(a)
            for k in n.keywords:
                if k.arg:
                    amap[k.arg] = self.ev(k.value)
            fr = self.flow.analyse(target, amap)
            return fr.ret
        if isinstance(f, ast.Attribute):
            # method on a value (e.g. x.sum(), arr.copy())
            b = self.ev(f.value)
            if f.attr in ("get", "items", "keys", "values") and isinstance(b, Sc):
                return b
            if isinstance(b, Arr):
                if f.attr in ("copy", "astype", "flatten", "ravel"):
                    return replace(b, data=b.data and f.attr == "copy")
                if f.attr in REDUCTIONS:
                    return WHOLE(norm(n)[:60]) if b.lag > NINF else LEN
                if f.attr in ("cumsum", "cumprod"):
                    return replace(b, data=False, last=None)
            return TOP
        return TOP

    def registry_call(self, role, n):
        reg = self.flow.registry.get(role)
        if not reg:
            raise AnalysisError(f"empty registry for self.{role}")
        args = [self.ev(a) for a in n.args]
        out = None
        self.role_results = getattr(self, "role_results", {})
        for q in reg:
            fd = self.flow.func(q)
            params = [a.arg for a in fd.args.args][1:]
            amap = dict(zip(params, args))
            fr = self.flow.analyse(q, amap)
            self.role_results[(role, q)] = fr.ret
            out = fr.ret if out is None else join(out, fr.ret)
        return out


# ---------------------------------------------------------------------------


def join(a, b):
    if a is TOP or b is TOP:
        return TOP
    if isinstance(a, Tup) and isinstance(b, Tup) and len(a.items) == len(b.items):
        return Tup(tuple(join(x, y) for x, y in zip(a.items, b.items)))
    if isinstance(a, Sc) and isinstance(b, Sc):
        return sc_join(a, b)
    if isinstance(a, Arr) and isinstance(b, Arr):
        lag = max(a.lag, b.lag)
        return Arr(lag, a.dlen if a.dlen == b.dlen else None, a.data and b.data,
                   a.last if a.last is not None else b.last, a.why if a.lag >= b.lag else b.why, None, max(a.minn, b.minn))
    if isinstance(a, Arr) and isinstance(b, Sc):
        a, b = b, a
    if isinstance(a, Sc) and isinstance(b, Arr):
        # scalar or array (e.g. `m = t` when N is infinite): broadcast view
        if a.dep == "const":
            return replace(b, data=False)
        return Arr(INF, b.dlen, False, b.last, a.why or "scalar depending on the whole sample / its length")
    return TOP


def taint(v, why):
    if isinstance(v, Arr):
        return replace(v, lag=INF, why=why, data=False)
    if isinstance(v, Sc):
        return WHOLE(why)
    if isinstance(v, Tup):
        return Tup(tuple(taint(i, why) for i in v.items))
    return v


def _depends(v):
    if v is TOP:
        return True
    if isinstance(v, Sc):
        return v.dep == "whole"
    if isinstance(v, Arr):
        return v.lag > NINF
    if isinstance(v, Tup):
        return any(_depends(i) for i in v.items)
    return True


def _const_int(n):
    if isinstance(n, ast.Constant) and isinstance(n.value, int) and not isinstance(n.value, bool):
        return n.value
    if isinstance(n, ast.UnaryOp) and isinstance(n.op, ast.USub) and isinstance(n.operand, ast.Constant) \
            and isinstance(n.operand.value, int):
        return -n.operand.value
    return None


def _load(t):
    import copy

    n = _dc(t)
    for x in ast.walk(n):
        if hasattr(x, "ctx"):
            x.ctx = ast.Load()
    return n


def _is_validation_loop(st):
    """`for v in <iter>: if <cond>: raise ...` -- a loop that binds nothing but its own target and can only raise"""
    def only_raises(stmts):
        for q in stmts:
            if isinstance(q, ast.Raise):
                continue
            if isinstance(q, ast.If) and only_raises(q.body) and only_raises(q.orelse):
                continue
            if isinstance(q, ast.Pass):
                continue
            return False
        return True
    return isinstance(st, ast.For) and not st.orelse and only_raises(st.body)


def _is_warn(s):
    return isinstance(s, ast.Expr) and isinstance(s.value, ast.Call) and norm(s.value.func) in (
        "warnings.warn", "warn", "print")


def _through_names(n, frame, depth=0):
    """a local name stands for the expression it was last assigned (`n = len(x)` ... `np.arange(n)`)"""
    while isinstance(n, ast.Name) and frame is not None and n.id in getattr(frame, "defs", {}) and depth < 4:
        d = frame.defs[n.id]
        if not isinstance(d, ast.AST) or isinstance(d, (ast.Tuple, ast.List)):
            break
        n, depth = d, depth + 1
    return n


def _is_len_of_sample(n, frame):
    n = _through_names(n, frame)
    if isinstance(n, ast.Call) and norm(n.func) == "len" and len(n.args) == 1:
        v = frame.ev(n.args[0])
        return isinstance(v, Arr) and v.dlen == 0
    return False


def _arange_dlen(args, frame=None):
    """Length of np.arange(...) relative to n = len(x), for the forms in use."""

    def lin(n):
        # returns (coef_of_len, const) or None
        n = _through_names(n, frame)
        if isinstance(n, ast.Call) and norm(n.func) == "len":
            return (1, 0)
        k = _const_int(n)
        if k is not None:
            return (0, k)
        if isinstance(n, ast.BinOp) and isinstance(n.op, (ast.Add, ast.Sub)):
            a, b = lin(n.left), lin(n.right)
            if a is None or b is None:
                return None
            s = 1 if isinstance(n.op, ast.Add) else -1
            return (a[0] + s * b[0], a[1] + s * b[1])
        return None

    if len(args) == 1:
        l = lin(args[0])
        if l and l[0] == 1:
            return l[1]
        return None
    if len(args) == 2:
        a, b = lin(args[0]), lin(args[1])
        if a and b and a[0] == 0 and b[0] == 1:
            return b[1] - a[1]
    return None
