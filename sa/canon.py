"""Canonicalisation of a function's AST before structural rules look at it.

`inline_aliases(fn)` returns a deep copy of the function in which every *alias temporary* has been substituted away:
a local name that is bound exactly once, by a plain assignment whose right-hand side is a pure, cheap expression
(names, attributes, subscripts, constants, arithmetic, comparisons, boolean operators, and str/int/float/len/bool of
such), and none of whose free names is rebound between the binding and a use.  `card = cvr_list[k]` followed by
`card.sample_num` and the direct `cvr_list[k].sample_num` thus have one canonical form, whichever way the maintainers
write it.  Reads and writes through the alias (`first = od[c.id]; first.votes = ...`) are covered: the alias and the
expression denote the same object as long as the binding of the expression's names is unchanged, which is checked.

This is a syntactic normal form, not an optimisation: nothing is executed, the original tree is not modified.
"""
from __future__ import annotations

import ast
import copy

PURE_CALLS = {"str", "int", "float", "len", "bool"}


def _dc(node):
    """structural copy of an AST (fields and positions only: the `_parent` back-links that the index adds would drag the whole
    module into a copy.deepcopy)"""
    if isinstance(node, list):
        return [_dc(x) for x in node]
    if not isinstance(node, ast.AST):
        return node
    new = type(node)()
    for f in node._fields:
        if hasattr(node, f):
            setattr(new, f, _dc(getattr(node, f)))
    for a in ("lineno", "col_offset", "end_lineno", "end_col_offset"):
        if hasattr(node, a):
            setattr(new, a, getattr(node, a))
    return new


def is_pure(e) -> bool:
    if isinstance(e, (ast.Name, ast.Constant)):
        return True
    if isinstance(e, ast.Attribute):
        return is_pure(e.value)
    if isinstance(e, ast.Subscript):
        return is_pure(e.value) and is_pure_slice(e.slice)
    if isinstance(e, ast.BinOp):
        return is_pure(e.left) and is_pure(e.right)
    if isinstance(e, ast.UnaryOp):
        return is_pure(e.operand)
    if isinstance(e, ast.Compare):
        return is_pure(e.left) and all(is_pure(c) for c in e.comparators)
    if isinstance(e, ast.BoolOp):
        return all(is_pure(v) for v in e.values)
    if isinstance(e, ast.Call):
        return isinstance(e.func, ast.Name) and e.func.id in PURE_CALLS and not e.keywords and all(is_pure(a) for a in e.args)
    if isinstance(e, ast.Tuple):
        return all(is_pure(x) for x in e.elts)
    if isinstance(e, ast.Lambda):
        return not e.args.defaults and not e.args.kw_defaults  # making a closure evaluates nothing (its body runs when it is called)
    return False


def is_pure_slice(s):
    if isinstance(s, ast.Slice):
        return all(p is None or is_pure(p) for p in (s.lower, s.upper, s.step))
    return is_pure(s)


def _names(e):
    return {n.id for n in ast.walk(e) if isinstance(n, ast.Name)}


def _bound_names(stmt):
    """names (re)bound anywhere inside a statement"""
    out = set()
    for n in ast.walk(stmt):
        if isinstance(n, ast.Name) and isinstance(n.ctx, (ast.Store, ast.Del)):
            out.add(n.id)
        elif isinstance(n, ast.arg):
            pass
    return out


def _assign_count(fn):
    cnt = {}
    for n in ast.walk(fn):
        if isinstance(n, ast.Name) and isinstance(n.ctx, (ast.Store, ast.Del)):
            cnt[n.id] = cnt.get(n.id, 0) + 1
    for a in fn.args.args + fn.args.kwonlyargs:
        cnt[a.arg] = cnt.get(a.arg, 0) + 1
    for n in ast.walk(fn):
        if isinstance(n, ast.Name) and isinstance(n.ctx, ast.Load):
            cnt["@loads:" + n.id] = cnt.get("@loads:" + n.id, 0) + 1
    return cnt


class _Subst(ast.NodeTransformer):
    def __init__(self, name, value):
        self.name, self.value = name, value
        self.n = 0

    def visit_Name(self, node):
        if node.id == self.name and isinstance(node.ctx, ast.Load):
            self.n += 1
            return _dc(self.value)
        return node

    # do not descend into nested scopes that rebind the name as a parameter
    def visit_Lambda(self, node):
        if self.name in [a.arg for a in node.args.args]:
            return node
        return self.generic_visit(node)


MUTATORS = {"append", "extend", "insert", "add", "update", "pop", "remove", "discard", "clear", "sort", "reverse", "setdefault",
            "popitem", "__setitem__", "__delitem__"}


def _root(e):
    while isinstance(e, (ast.Attribute, ast.Subscript, ast.Call)):
        e = e.func if isinstance(e, ast.Call) else e.value
    return e.id if isinstance(e, ast.Name) else None


def _simple_stmts(stmts, in_loop=None):
    """(statement or header expression, innermost enclosing loop within stmts) in source order"""
    for st in stmts:
        if isinstance(st, (ast.For, ast.While)):
            yield (st.iter if isinstance(st, ast.For) else st.test), (st if isinstance(st, ast.While) else in_loop)
            yield from _simple_stmts(st.body, st)
            yield from _simple_stmts(st.orelse, in_loop)
        elif isinstance(st, ast.If):
            yield st.test, in_loop
            yield from _simple_stmts(st.body, in_loop)
            yield from _simple_stmts(st.orelse, in_loop)
        elif isinstance(st, ast.Try):
            yield from _simple_stmts(st.body, in_loop)
            for h in st.handlers:
                yield from _simple_stmts(h.body, in_loop)
            yield from _simple_stmts(st.orelse, in_loop)
            yield from _simple_stmts(st.finalbody, in_loop)
        elif isinstance(st, ast.With):
            for it in st.items:
                yield it.context_expr, in_loop
            yield from _simple_stmts(st.body, in_loop)
        elif isinstance(st, (ast.FunctionDef, ast.AsyncFunctionDef, ast.ClassDef)):
            continue
        else:
            yield st, in_loop


def _mutates(node, roots):
    """does the simple statement store into, or call a mutator on, an object reached from one of the root names?"""
    for n in ast.walk(node):
        if isinstance(n, (ast.Subscript, ast.Attribute)) and isinstance(n.ctx, (ast.Store, ast.Del)) and _root(n) in roots:
            return True
        if isinstance(n, ast.Call) and isinstance(n.func, ast.Attribute) and n.func.attr in MUTATORS and _root(n.func.value) in roots:
            return True
    return False


def _mutation_safe(value, name, rest):
    """An alias of an expression that reads through an object (`old = d[k]`, `n = len(lst)`, `t = obj.attr`) may only be
    substituted into uses that are evaluated before the object is next written: a use after `d[k] = ..` / `lst.append(..)` would
    otherwise see the new contents.  Uses inside the mutating statement itself are evaluated before its store takes effect."""
    if not any(isinstance(n, (ast.Subscript, ast.Attribute, ast.Call)) for n in ast.walk(value)):
        return True
    roots = _names(value)
    mutated = False
    loops_with_mutation = []
    seq = list(_simple_stmts(rest))
    for node, loop in seq:
        if _mutates(node, roots) and loop is not None:
            loops_with_mutation.append(loop)
    for node, loop in seq:
        uses = any(isinstance(n, ast.Name) and n.id == name and isinstance(n.ctx, ast.Load) for n in ast.walk(node))
        if uses and (mutated or any(loop is l or (loop is not None and any(x is loop for x in ast.walk(l))) for l in loops_with_mutation)):
            return False
        if _mutates(node, roots):
            mutated = True
    return True


def _inline_in_block(block, counts, keep):
    """one pass over a statement list; returns True if something was inlined"""
    changed = False
    i = 0
    while i < len(block):
        st = block[i]
        # recurse first
        for fld in ("body", "orelse", "finalbody"):
            sub = getattr(st, fld, None)
            if isinstance(sub, list) and sub and isinstance(sub[0], ast.stmt):
                if _inline_in_block(sub, counts, keep):
                    changed = True
        if isinstance(st, ast.Try):
            for h in st.handlers:
                if _inline_in_block(h.body, counts, keep):
                    changed = True
        if isinstance(st, ast.Assign) and len(st.targets) == 1 and isinstance(st.targets[0], ast.Name):
            name = st.targets[0].id
            if counts.get(name, 0) == 1 and name not in keep and is_pure(st.value) and not isinstance(st.value, ast.Constant) \
                    and name not in _names(st.value):
                free = _names(st.value)
                rest = block[i + 1:]
                # no free name of the value may be rebound in the remainder of the block (any depth)
                ok = True
                uses = 0
                for r in rest:
                    if _bound_names(r) & free:
                        # uses after the rebinding statement would see a different value: only safe if there are none
                        later = block[block.index(r):]
                        if any(isinstance(n, ast.Name) and n.id == name and isinstance(n.ctx, ast.Load) for q in later for n in ast.walk(q)):
                            # allow the common loop idiom: the rebinding statement is the *last* thing that mentions the free
                            # name and does not itself read the alias after rebinding (e.g. `inx += 1` at the end of a loop body)
                            reads_alias = any(isinstance(n, ast.Name) and n.id == name for n in ast.walk(r))
                            after = later[1:]
                            if reads_alias or any(isinstance(n, ast.Name) and n.id == name for q in after for n in ast.walk(q)):
                                ok = False
                        break
                if ok and not _mutation_safe(st.value, name, rest):
                    ok = False
                if ok:
                    sub = _Subst(name, st.value)
                    trial = [sub.visit(_dc(b)) for b in block[i + 1:]]
                    uses = sub.n
                    # every read of the alias must lie in the remainder of this block (not after an enclosing loop / branch)
                    if uses > 0 and uses == counts.get("@loads:" + name, -1):
                        block[i + 1:] = trial
                        del block[i]
                        changed = True
                        continue
            # a single-use temporary consumed by the very next statement: `h = prng.nextRandom(); n = int_from_hash(h)`.  The value
            # need not be pure: it is evaluated at the same point of the execution as long as nothing impure is evaluated in the
            # consuming statement before the use, and the use is evaluated exactly once (not under a conditional expression, a
            # short-circuit operator, a comprehension, a lambda or a loop test).
            if counts.get(name, 0) == 1 and name not in keep and counts.get("@loads:" + name, 0) == 1 and i + 1 < len(block) \
                    and not isinstance(st.value, (ast.Lambda, ast.Constant, ast.Yield, ast.Await)) and _single_use_ok(block[i + 1], name):
                sub = _Subst(name, st.value)
                nxt = block[i + 1]
                for h in _header_exprs(nxt):
                    if h is nxt:
                        block[i + 1] = sub.visit(nxt)
                    else:
                        for fld, val in ast.iter_fields(nxt):
                            if val is h:
                                setattr(nxt, fld, sub.visit(h))
                if sub.n == 1:
                    del block[i]
                    changed = True
                    continue
        i += 1
    return changed


def _eval_order(node, out):
    """post-order over the expression fields in evaluation order (Assign: value before targets)"""
    if isinstance(node, ast.Assign):
        _eval_order(node.value, out)
        for t in node.targets:
            _eval_order(t, out)
    elif isinstance(node, ast.AnnAssign):
        if node.value is not None:
            _eval_order(node.value, out)
        _eval_order(node.target, out)
    else:
        for c in ast.iter_child_nodes(node):
            _eval_order(c, out)
    out.append(node)


def _single_use_ok(nxt, name):
    headers = _header_exprs(nxt)
    if not headers:
        return False
    for h in headers:
        uses = [n for n in ast.walk(h) if isinstance(n, ast.Name) and n.id == name and isinstance(n.ctx, ast.Load)]
        if len(uses) != 1:
            continue
        use = uses[0]
        # ancestors of the use inside h
        par = {}
        for p_ in ast.walk(h):
            for c in ast.iter_child_nodes(p_):
                par[id(c)] = p_
        anc = []
        q = use
        while id(q) in par:
            prev, q = q, par[id(q)]
            if isinstance(q, (ast.Lambda, ast.ListComp, ast.SetComp, ast.DictComp, ast.GeneratorExp)):
                return False
            if isinstance(q, ast.IfExp) and prev is not q.test:
                return False
            if isinstance(q, ast.BoolOp) and prev is not q.values[0]:
                return False
            anc.append(q)
        order = []
        _eval_order(h, order)
        pos = next(k for k, n in enumerate(order) if n is use)
        for k, n in enumerate(order[:pos]):
            if isinstance(n, ast.Call) and not is_pure(n):
                return False
            if isinstance(n, (ast.Yield, ast.Await, ast.NamedExpr)):
                return False
        # stores into the name itself elsewhere in the statement are excluded by the single-binding requirement
        return True
    return False


def _blocks(node):
    for n in ast.walk(node):
        for fld in ("body", "orelse", "finalbody"):
            sub = getattr(n, fld, None)
            if isinstance(sub, list) and sub and isinstance(sub[0], ast.stmt):
                yield sub


def _rename_apart(f, keep):
    """A local name that is reused for unrelated values (`totals = d[c.pool]` in one loop, `totals = d[p]` in the next) is split
    into one name per binding when every read of it lies in the remainder of the block of exactly one binding, after that
    binding and before the next one: the bindings are then independent single-assignment temporaries."""
    all_stores, all_loads = {}, {}
    for n in ast.walk(f):
        if isinstance(n, ast.Name):
            (all_loads if isinstance(n.ctx, ast.Load) else all_stores).setdefault(n.id, []).append(n)
    params = {a.arg for a in f.args.args + f.args.kwonlyargs}
    k = 0
    for name, sts in all_stores.items():
        if len(sts) < 2 or name in keep or name in params:
            continue
        groups = []
        okay = True
        seen_store_nodes = set()
        for block in _blocks(f):
            for i, st in enumerate(block):
                if isinstance(st, ast.Assign) and len(st.targets) == 1 and isinstance(st.targets[0], ast.Name) and st.targets[0].id == name:
                    covered = []
                    for r in block[i + 1:]:
                        if name in _bound_names(r):
                            if isinstance(r, ast.Assign) and len(r.targets) == 1 and isinstance(r.targets[0], ast.Name) and r.targets[0].id == name:
                                # the value of the next binding still reads this one
                                covered += [n for n in ast.walk(r.value) if isinstance(n, ast.Name) and n.id == name]
                            else:
                                okay = False
                            break
                        covered += [n for n in ast.walk(r) if isinstance(n, ast.Name) and n.id == name and isinstance(n.ctx, ast.Load)]
                    groups.append((st.targets[0], covered))
                    seen_store_nodes.add(id(st.targets[0]))
                elif isinstance(st, ast.For) and any(isinstance(n, ast.Name) and n.id == name for n in ast.walk(st.target)):
                    # a loop variable: its reads are those of the loop body (provided the body does not rebind it)
                    tn = [n for n in ast.walk(st.target) if isinstance(n, ast.Name) and n.id == name]
                    if len(tn) != 1 or any(name in _bound_names(b) for b in st.body + st.orelse):
                        okay = False
                        continue
                    covered = [n for b in st.body + st.orelse for n in ast.walk(b)
                               if isinstance(n, ast.Name) and n.id == name and isinstance(n.ctx, ast.Load)]
                    groups.append((tn[0], covered))
                    seen_store_nodes.add(id(tn[0]))
        if not okay or len(groups) != len(sts) or any(id(n) not in seen_store_nodes for n in sts) or any(not g[1] for g in groups):
            continue
        cov = [id(n) for g in groups for n in g[1]]
        if len(cov) != len(set(cov)) or set(cov) != {id(n) for n in all_loads.get(name, [])}:
            continue
        for tgt, loads in groups:
            k += 1
            new = f"{name}__{k}"
            tgt.id = new
            for n in loads:
                n.id = new
    return k


class _NoComp(Exception):
    pass


def _ends_with_continue(stmts):
    if not stmts:
        return False
    last = stmts[-1]
    if isinstance(last, ast.Continue):
        return True
    if isinstance(last, ast.If):
        return _ends_with_continue(last.body) and _ends_with_continue(last.orelse)
    return False


def _append_leaves(stmts, conds, acc):
    """paths of a filter-append loop body -> [(conditions along the path, appended expression)]"""
    if not stmts:
        return []
    st, rest = stmts[0], stmts[1:]
    if isinstance(st, ast.Continue):
        return []
    if isinstance(st, ast.Pass):
        return _append_leaves(rest, conds, acc)
    if isinstance(st, ast.Expr) and isinstance(st.value, ast.Call) and isinstance(st.value.func, ast.Attribute) and st.value.func.attr == "append" \
            and isinstance(st.value.func.value, ast.Name) and st.value.func.value.id == acc and len(st.value.args) == 1 and not st.value.keywords:
        if rest and not all(isinstance(r, (ast.Continue, ast.Pass)) for r in rest):
            raise _NoComp()
        return [(conds, st.value.args[0], st)]
    if isinstance(st, ast.If):
        b = list(st.body) + ([] if _ends_with_continue(st.body) else rest)
        o = list(st.orelse) + ([] if st.orelse and _ends_with_continue(st.orelse) else rest)
        neg = ast.UnaryOp(op=ast.Not(), operand=st.test)
        return _append_leaves(b, conds + [st.test], acc) + _append_leaves(o, conds + [neg], acc)
    raise _NoComp()


def _store_leaves(stmts, conds, acc):
    """paths of a filter-store loop body -> [(conditions, key expr, value expr, statement)] for `acc[key] = value`"""
    if not stmts:
        return []
    st, rest = stmts[0], stmts[1:]
    if isinstance(st, ast.Continue):
        return []
    if isinstance(st, ast.Pass):
        return _store_leaves(rest, conds, acc)
    if isinstance(st, ast.Assign) and len(st.targets) == 1 and isinstance(st.targets[0], ast.Subscript) \
            and isinstance(st.targets[0].value, ast.Name) and st.targets[0].value.id == acc:
        if rest and not all(isinstance(r, (ast.Continue, ast.Pass)) for r in rest):
            raise _NoComp()
        return [(conds, st.targets[0].slice, st.value, st)]
    if isinstance(st, ast.If):
        b = list(st.body) + ([] if _ends_with_continue(st.body) else rest)
        o = list(st.orelse) + ([] if st.orelse and _ends_with_continue(st.orelse) else rest)
        neg = ast.UnaryOp(op=ast.Not(), operand=st.test)
        return _store_leaves(b, conds + [st.test], acc) + _store_leaves(o, conds + [neg], acc)
    raise _NoComp()


_CUR_FN = [None]


def _loop_vars_live_after(loop, rest):
    """a `for` loop leaves its variables bound to the last element; a comprehension does not: the loop may only become a
    comprehension when nothing after it (in this block) reads them before rebinding them"""
    names = {n.id for n in ast.walk(loop.target) if isinstance(n, ast.Name)}
    root = _CUR_FN[0]
    if root is not None:
        # anywhere in the function: a read of the variable outside this loop, and outside any other loop or comprehension that binds
        # the same name itself, is (conservatively) a read of what this loop left behind
        inside = {id(n) for n in ast.walk(loop)}
        rebinding = set()
        for other in ast.walk(root):
            if other is loop:
                continue
            if isinstance(other, ast.For) and names & {n.id for n in ast.walk(other.target) if isinstance(n, ast.Name)}:
                rebinding |= {id(n) for n in ast.walk(other)}
            if isinstance(other, (ast.ListComp, ast.SetComp, ast.DictComp, ast.GeneratorExp)) and \
                    names & {n.id for g in other.generators for n in ast.walk(g.target) if isinstance(n, ast.Name)}:
                rebinding |= {id(n) for n in ast.walk(other)}
        for n in ast.walk(root):
            if isinstance(n, ast.Name) and n.id in names and isinstance(n.ctx, ast.Load) and id(n) not in inside and id(n) not in rebinding:
                return True
        return False
    for st in rest:
        for n in ast.walk(st):
            if isinstance(n, ast.Name) and n.id in names and isinstance(n.ctx, ast.Load):
                return True
        names -= {n.id for n in ast.walk(st) if isinstance(n, ast.Name) and isinstance(n.ctx, ast.Store)
                  and isinstance(st, ast.Assign)}
        if not names:
            return False
    return False


def _loops_to_comprehensions(block):
    """`acc = []` directly followed by a loop whose body only filters (if / continue) and appends one expression to acc becomes
    `acc = [expr for target in iter if cond]`: the loop and the comprehension are one construct for the rules."""
    changed = False
    for st in list(block):
        for fld in ("body", "orelse", "finalbody"):
            sub = getattr(st, fld, None)
            if isinstance(sub, list) and sub and isinstance(sub[0], ast.stmt):
                if _loops_to_comprehensions(sub):
                    changed = True
    # `acc = []` / `acc = {}` may be separated from its loop by statements that do not mention acc: move it down next to the loop
    i = 0
    while i < len(block):
        a = block[i]
        if isinstance(a, ast.Assign) and len(a.targets) == 1 and isinstance(a.targets[0], ast.Name) \
                and ((isinstance(a.value, ast.List) and not a.value.elts) or (isinstance(a.value, ast.Dict) and not a.value.keys)):
            acc = a.targets[0].id
            j = i + 1
            while j < len(block) and not any(isinstance(n, ast.Name) and n.id == acc for n in ast.walk(block[j])) \
                    and not isinstance(block[j], (ast.Return, ast.Raise, ast.Break, ast.Continue)):
                j += 1
            if j > i + 1 and j < len(block) and isinstance(block[j], ast.For) and not getattr(a, "_moved", False):
                a._moved = True  # once only (two accumulators of one loop would otherwise swap for ever)
                block.insert(j - 1, block.pop(i))
                changed = True
                continue
        i += 1
    i = 0
    while i + 1 < len(block):
        a, l = block[i], block[i + 1]
        if isinstance(a, ast.Assign) and len(a.targets) == 1 and isinstance(a.targets[0], ast.Name) and isinstance(a.value, ast.List) \
                and not a.value.elts and isinstance(l, ast.For) and not l.orelse:
            acc = a.targets[0].id
            uses_acc = [n for n in ast.walk(l) if isinstance(n, ast.Name) and n.id == acc]
            try:
                leaves = _append_leaves(list(l.body), [], acc)
            except _NoComp:
                leaves = None
            if leaves and len(uses_acc) == len({id(x) for c, e, x in leaves}) and len({ast.dump(e) for c, e, x in leaves}) == 1 \
                    and not _loop_vars_live_after(l, block[i + 2:]) \
                    and not any(isinstance(n, (ast.Break, ast.Return, ast.Yield, ast.Assign, ast.AugAssign)) for n in ast.walk(l)):
                def conj(cs):
                    cs = [_dc(c) for c in cs]
                    return cs[0] if len(cs) == 1 else ast.BoolOp(op=ast.And(), values=cs)
                alts = [conj(c) for c, e, x in leaves if c]
                ifs = []
                if alts and len(alts) == len(leaves):
                    ifs = [alts[0] if len(alts) == 1 else ast.BoolOp(op=ast.Or(), values=alts)]
                comp = ast.ListComp(elt=_dc(leaves[0][1]),
                                    generators=[ast.comprehension(target=l.target, iter=l.iter, ifs=ifs, is_async=0)])
                new = ast.copy_location(ast.Assign(targets=a.targets, value=comp, lineno=a.lineno), a)
                block[i:i + 2] = [ast.fix_missing_locations(new)]
                changed = True
                continue
        # the same for a dict: `acc = {}` + loop storing acc[key] = value once per iteration, key = the loop variable
        if isinstance(a, ast.Assign) and len(a.targets) == 1 and isinstance(a.targets[0], ast.Name) and isinstance(a.value, ast.Dict) \
                and not a.value.keys and isinstance(l, ast.For) and not l.orelse:
            acc = a.targets[0].id
            uses_acc = [n for n in ast.walk(l) if isinstance(n, ast.Name) and n.id == acc]
            try:
                leaves = _store_leaves(list(l.body), [], acc)
            except _NoComp:
                leaves = None
            # (a repeated key overwrites the earlier value and keeps its position, in the loop and in the comprehension alike)
            if leaves and len(uses_acc) == len({id(x) for c, k, v, x in leaves}) and len({ast.dump(k) + ast.dump(v) for c, k, v, x in leaves}) == 1 \
                    and not _loop_vars_live_after(l, block[i + 2:]) \
                    and not any(isinstance(n, (ast.Break, ast.Return, ast.Yield, ast.AugAssign)) for n in ast.walk(l)) \
                    and sum(isinstance(n, ast.Assign) for n in ast.walk(l)) == len({id(x) for c, k, v, x in leaves}):
                def conj(cs):
                    cs = [_dc(c) for c in cs]
                    return cs[0] if len(cs) == 1 else ast.BoolOp(op=ast.And(), values=cs)
                alts = [conj(c) for c, k, v, x in leaves if c]
                ifs = []
                if alts and len(alts) == len(leaves):
                    ifs = [alts[0] if len(alts) == 1 else ast.BoolOp(op=ast.Or(), values=alts)]
                comp = ast.DictComp(key=_dc(leaves[0][1]), value=_dc(leaves[0][2]),
                                    generators=[ast.comprehension(target=l.target, iter=l.iter, ifs=ifs, is_async=0)])
                new = ast.copy_location(ast.Assign(targets=a.targets, value=comp, lineno=a.lineno), a)
                block[i:i + 2] = [ast.fix_missing_locations(new)]
                changed = True
                continue
        i += 1
    return changed


def _eliminate_found_flags(f):
    """`found = False` ... `if cond: found = True; hits.append(x)` ... `if found:`  -- a flag that is set exactly where something
    is appended to lists that start empty is the statement "one of those lists is non-empty".  The flag's reads become
    `hits1 or hits2`, its assignments disappear, and the loops are left as pure filter-append loops (which then become
    comprehensions).  Conditions (all checked): the flag is initialised to False once, at function level; every other binding is
    `flag = True` with a sibling `L.append(..)` in the same block, L initialised to [] at function level and never otherwise
    mutated or rebound; and every append to such an L has a sibling `flag = True`."""
    changed = False
    inits = {}
    for st in f.body:
        if isinstance(st, ast.Assign) and len(st.targets) == 1 and isinstance(st.targets[0], ast.Name):
            inits.setdefault(st.targets[0].id, []).append(st)
    for flag, ini in list(inits.items()):
        if len(ini) != 1 or not (isinstance(ini[0].value, ast.Constant) and ini[0].value.value is False):
            continue
        sets, lists, okay = [], set(), True
        for block in _blocks(f):
            for st in block:
                if st is ini[0]:
                    continue
                if isinstance(st, ast.Assign) and any(isinstance(t, ast.Name) and t.id == flag for t in st.targets):
                    if not (len(st.targets) == 1 and isinstance(st.value, ast.Constant) and st.value.value is True):
                        okay = False
                        continue
                    sib = [x.value.func.value.id for x in block if isinstance(x, ast.Expr) and isinstance(x.value, ast.Call)
                           and isinstance(x.value.func, ast.Attribute) and x.value.func.attr == "append" and isinstance(x.value.func.value, ast.Name)]
                    if len(sib) != 1:
                        okay = False
                        continue
                    sets.append((block, st))
                    lists.add(sib[0])
        other_stores = [n for n in ast.walk(f) if isinstance(n, ast.Name) and n.id == flag and isinstance(n.ctx, (ast.Store, ast.Del))]
        if not okay or not sets or len(other_stores) != len(sets) + 1:
            continue
        # the lists: initialised [] once at function level, only ever appended to, each append next to a flag set
        for L in lists:
            li = inits.get(L, [])
            if len(li) != 1 or not (isinstance(li[0].value, ast.List) and not li[0].value.elts):
                okay = False
            if sum(1 for n in ast.walk(f) if isinstance(n, ast.Name) and n.id == L and isinstance(n.ctx, (ast.Store, ast.Del))) != 1:
                okay = False
            for block in _blocks(f):
                for x in block:
                    for c in ast.walk(x) if not isinstance(x, (ast.For, ast.While, ast.If, ast.With, ast.Try)) else []:
                        if isinstance(c, ast.Call) and isinstance(c.func, ast.Attribute) and isinstance(c.func.value, ast.Name) and c.func.value.id == L \
                                and c.func.attr in MUTATORS:
                            if c.func.attr != "append" or not any(b is block for b, s_ in sets):
                                okay = False
        # the flag must not be read before the last place it can be set, other than after the loops: require all reads at
        # function level statements that come after every setting statement's top-level ancestor
        if not okay:
            continue
        top_of = {}
        for k, st in enumerate(f.body):
            for n in ast.walk(st):
                top_of[id(n)] = k
        last_set = max(top_of[id(st)] for b, st in sets)
        reads = [n for n in ast.walk(f) if isinstance(n, ast.Name) and n.id == flag and isinstance(n.ctx, ast.Load)]
        if not reads or any(top_of.get(id(n), -1) <= last_set for n in reads):
            continue
        # the flag is a bool, the replacement a list: only reads that ask for the truth value may be rewritten
        par = {}
        for p_ in ast.walk(f):
            for c_ in ast.iter_child_nodes(p_):
                par[id(c_)] = p_

        def boolean_context(n):
            q = par.get(id(n))
            while isinstance(q, (ast.BoolOp,)) or (isinstance(q, ast.UnaryOp) and isinstance(q.op, ast.Not)):
                n, q = q, par.get(id(q))
            return (isinstance(q, (ast.If, ast.While, ast.IfExp)) and q.test is n) or (isinstance(q, ast.Assert) and q.test is n)
        if not all(boolean_context(n) for n in reads):
            continue
        order = [L for L in inits if L in lists]
        repl = ast.BoolOp(op=ast.Or(), values=[ast.Name(id=L, ctx=ast.Load()) for L in order]) if len(order) > 1 else ast.Name(id=order[0], ctx=ast.Load())
        sub = _Subst(flag, repl)
        for k in range(len(f.body)):
            if k > last_set:
                f.body[k] = sub.visit(f.body[k])
        for b, st in sets:
            b.remove(st)
        f.body.remove(ini[0])
        ast.fix_missing_locations(f)
        changed = True
    return changed


def _unroll_literal_loops(f):
    """`for v in (a, b): body` with a, b plain names (at most four) and a body that neither rebinds v nor leaves the loop early
    is the body once per name"""
    changed = False
    for block in _blocks(f):
        i = 0
        while i < len(block):
            st = block[i]
            if isinstance(st, ast.For) and isinstance(st.iter, (ast.Tuple, ast.List)) and 1 <= len(st.iter.elts) <= 4 and not st.orelse \
                    and isinstance(st.target, ast.Name) and all(isinstance(e, ast.Name) for e in st.iter.elts) \
                    and not any(isinstance(n, (ast.Break, ast.Continue, ast.Return)) for n in ast.walk(st)) \
                    and not any(isinstance(n, ast.Name) and n.id == st.target.id and isinstance(n.ctx, (ast.Store, ast.Del)) for b in st.body for n in ast.walk(b)) \
                    and not any(isinstance(n, ast.Name) and n.id == st.target.id and isinstance(n.ctx, ast.Load)
                                for later in block[i + 1:] for n in ast.walk(later)):
                new = []
                for e in st.iter.elts:
                    sub = _Subst(st.target.id, e)
                    new += [sub.visit(_dc(b)) for b in st.body]
                block[i:i + 1] = new
                changed = True
                i += len(new)
                continue
            i += 1
    return changed


def _forward_unpacked(f):
    """`a, b = call(..)` directly followed by `X = a`, `Y = b` (each temporary used exactly there) is `X, Y = call(..)`"""
    changed = False
    loads = {}
    for n in ast.walk(f):
        if isinstance(n, ast.Name) and isinstance(n.ctx, ast.Load):
            loads[n.id] = loads.get(n.id, 0) + 1
    stores_ = {}
    for n in ast.walk(f):
        if isinstance(n, ast.Name) and isinstance(n.ctx, (ast.Store, ast.Del)):
            stores_[n.id] = stores_.get(n.id, 0) + 1
    for block in _blocks(f):
        i = 0
        while i < len(block):
            st = block[i]
            if isinstance(st, ast.Assign) and len(st.targets) == 1 and isinstance(st.targets[0], ast.Tuple) and not isinstance(st.value, ast.Tuple) \
                    and all(isinstance(e, ast.Name) for e in st.targets[0].elts):
                names = [e.id for e in st.targets[0].elts]
                k = len(names)
                nxt = block[i + 1:i + 1 + k]
                if len(nxt) == k and all(isinstance(x, ast.Assign) and len(x.targets) == 1 and isinstance(x.value, ast.Name) for x in nxt) \
                        and [x.value.id for x in nxt] == names and all(loads.get(n_, 0) == 1 and stores_.get(n_, 0) == 1 for n_ in names) \
                        and all(isinstance(x.targets[0], (ast.Attribute, ast.Name, ast.Subscript)) and is_pure(_as_load_copy(x.targets[0])) for x in nxt):
                    new = ast.Assign(targets=[ast.Tuple(elts=[x.targets[0] for x in nxt], ctx=ast.Store())], value=st.value, lineno=st.lineno)
                    block[i:i + 1 + k] = [ast.copy_location(new, st)]
                    changed = True
            i += 1
    if changed:
        ast.fix_missing_locations(f)
    return changed


def _as_load_copy(node):
    n = _dc(node)
    for x in ast.walk(n):
        if hasattr(x, "ctx"):
            x.ctx = ast.Load()
    return n


def inline_aliases(fn: ast.FunctionDef, keep=()) -> ast.FunctionDef:
    f = _dc(fn)
    _CUR_FN[0] = f
    _eliminate_found_flags(f)
    _unroll_literal_loops(f)
    _forward_unpacked(f)
    _rename_apart(f, set(keep))
    counts = _assign_count(f)
    # a name that is read outside the block where it is bound must stay (checked coarsely: loads before its binding line)
    for _ in range(8):
        ch = _inline_in_block(f.body, counts, set(keep))
        if _loops_to_comprehensions(f.body):
            ch = True
        if not ch:
            break
        counts = _assign_count(f)
    ast.fix_missing_locations(f)
    for parent in ast.walk(f):
        for child in ast.iter_child_nodes(parent):
            child._parent = parent  # type: ignore[attr-defined]
    return f


# ---------------------------------------------------------------------------
# helper inlining at the AST level
#
# `inline_helpers(fn, resolve)` returns a copy of `fn` in which calls to *local* helpers (functions defined inside `fn`) and to
# *private* helpers (leading underscore; `resolve(callee_text)` returns their FunctionDef) are replaced by the helper's body:
# extracting a few statements into `_helper(...)` and calling it is the most common refactoring, and rules that recognise a
# construct by form would otherwise lose sight of it.  Supported shapes (anything else is left alone, i.e. stays opaque):
#   A. straight-line helper ending in its only `return e`: the prefix statements are hoisted in front of the calling statement
#      (locals renamed apart) and the call is replaced by `e`;
#   B. helper whose returns are in tail position of an if-chain, called as `target = h(..)`, `return h(..)` or a bare statement:
#      the chain is copied with `return e` rewritten to `target = e` (resp. kept / dropped).
# Parameters are substituted by the argument expressions when those are pure (see is_pure) or used at most once, and bound by an
# assignment otherwise.

_COUNTER = [0]


class _Rename(ast.NodeTransformer):
    def __init__(self, mapping, subst):
        self.mapping, self.subst = mapping, subst

    def visit_Name(self, node):
        if node.id in self.subst and isinstance(node.ctx, ast.Load):
            return _dc(self.subst[node.id])
        if node.id in self.mapping:
            return ast.copy_location(ast.Name(id=self.mapping[node.id], ctx=node.ctx), node)
        return node


def _terminates(block):
    if not block:
        return False
    last = block[-1]
    if isinstance(last, (ast.Return, ast.Raise)):
        return True
    if isinstance(last, ast.If):
        return _terminates(last.body) and _terminates(last.orelse)
    return False


def _has_return(node):
    return any(isinstance(n, ast.Return) for n in ast.walk(node))


class _NoTail(Exception):
    pass


def _tailify(block, make):
    """rewrite a block whose returns are all in tail position; make(value_expr) -> replacement statement list"""
    out = []
    for i, st in enumerate(block):
        if isinstance(st, ast.Return):
            out.extend(make(st.value if st.value is not None else ast.Constant(value=None)))
            return out, True
        if isinstance(st, ast.Raise):
            out.append(st)
            return out, True
        if isinstance(st, ast.If) and _has_return(st):
            rest = block[i + 1:]
            if _terminates(st.body):
                b, _ = _tailify(st.body, make)
                o, t = _tailify(list(st.orelse) + rest, make)
                out.append(ast.copy_location(ast.If(test=st.test, body=b, orelse=o), st))
                return out, t
            if st.orelse and _terminates(st.orelse):
                o, _ = _tailify(st.orelse, make)
                b, t = _tailify(list(st.body) + rest, make)
                out.append(ast.copy_location(ast.If(test=st.test, body=b, orelse=o), st))
                return out, t
            raise _NoTail()
        if _has_return(st):
            raise _NoTail()
        out.append(st)
    return out, False


def _bind(h: ast.FunctionDef, call: ast.Call, receiver):
    """parameter name -> argument expression, or None if the call does not fit the simple protocol"""
    a = h.args
    if a.vararg or a.kwarg:
        return None
    posonly = [p.arg for p in a.posonlyargs]
    params = posonly + [p.arg for p in a.args]
    binding = {}
    if receiver is not None:
        if not params:
            return None
        binding[params[0]] = receiver
        params = params[1:]
    if any(isinstance(x, ast.Starred) for x in call.args) or any(k.arg is None for k in call.keywords):
        return None
    if len(call.args) > len(params):
        return None
    for p, x in zip(params, call.args):
        binding[p] = x
    kwonly = [p.arg for p in a.kwonlyargs]
    for k in call.keywords:
        if k.arg in binding or k.arg not in params + kwonly or k.arg in posonly:
            return None
        binding[k.arg] = k.value
    all_pos = posonly + [p.arg for p in a.args]
    defaults = dict(zip(all_pos[len(all_pos) - len(a.defaults):], a.defaults))
    for p, d in zip(kwonly, a.kw_defaults):
        if d is not None:
            defaults[p] = d
    for p in params + kwonly:
        if p not in binding:
            if p not in defaults:
                return None
            binding[p] = defaults[p]
    return binding


def _header_exprs(st):
    """the expressions of a statement that are evaluated once, before any nested block"""
    if isinstance(st, (ast.Assign, ast.AugAssign, ast.AnnAssign, ast.Expr, ast.Return)):
        return [st]
    if isinstance(st, ast.If):
        return [st.test]
    if isinstance(st, ast.For):
        return [st.iter]
    return []


def _in_nested_scope(root, target):
    """is `target` inside a comprehension / lambda within root?"""
    def rec(n, inside):
        if n is target:
            return inside
        ins = inside or isinstance(n, (ast.ListComp, ast.SetComp, ast.DictComp, ast.GeneratorExp, ast.Lambda))
        for c in ast.iter_child_nodes(n):
            r = rec(c, ins)
            if r is not None:
                return r
        return None
    return bool(rec(root, False))


class _ReplaceNode(ast.NodeTransformer):
    def __init__(self, old, new):
        self.old, self.new = old, new

    def visit(self, node):
        if node is self.old:
            return self.new
        return self.generic_visit(node)


def _helper_body(h):
    body = list(h.body)
    if body and isinstance(body[0], ast.Expr) and isinstance(body[0].value, ast.Constant) and isinstance(body[0].value.value, str):
        body = body[1:]
    return body


def _expand_call(st, call, h, receiver, caller_locals):
    """-> list of statements replacing `st`, or None"""
    binding = _bind(h, call, receiver)
    if binding is None:
        return None
    body = _dc(_helper_body(h))
    if not body or any(isinstance(n, (ast.Yield, ast.YieldFrom, ast.Global, ast.Nonlocal, ast.FunctionDef))
                       for b in body for n in ast.walk(b)):
        return None
    has_with = any(isinstance(n, (ast.With, ast.Try, ast.While)) for b in body for n in ast.walk(b))
    if has_with and any(isinstance(r, ast.Return) for b in body for n in ast.walk(b) if isinstance(n, (ast.With, ast.Try, ast.While)) for r in ast.walk(n)):
        return None  # (a `with` / `try` block is hoisted whole; one that is left by a return is not)
    _COUNTER[0] += 1
    tag = f"__h{_COUNTER[0]}"
    stores = {n.id for b in body for n in ast.walk(b) if isinstance(n, ast.Name) and isinstance(n.ctx, (ast.Store, ast.Del))}
    loads = {}
    for b in body:
        for n in ast.walk(b):
            if isinstance(n, ast.Name) and isinstance(n.ctx, ast.Load):
                loads[n.id] = loads.get(n.id, 0) + 1
    free = set(loads) - stores - set(binding)
    nested = h in caller_locals.get("@nested", ())
    if not nested and free & caller_locals.get("@stores", set()):
        return None  # a global of the helper's module is shadowed by a local of the caller
    mapping = {n: n + tag for n in stores}
    subst, pre = {}, []
    for p, x in binding.items():
        if p in stores:
            mapping[p] = p + tag
            pre.append(ast.copy_location(ast.Assign(targets=[ast.Name(id=p + tag, ctx=ast.Store())], value=_dc(x), lineno=st.lineno), st))
        elif is_pure(x) or loads.get(p, 0) == 0:
            subst[p] = x  # (an impure argument is bound to a name first: it is evaluated once, before the body, as in the call)
        else:
            mapping[p] = p + tag
            pre.append(ast.copy_location(ast.Assign(targets=[ast.Name(id=p + tag, ctx=ast.Store())], value=_dc(x), lineno=st.lineno), st))
    rn = _Rename(mapping, subst)
    body = [rn.visit(b) for b in body]
    n_ret = sum(isinstance(n, ast.Return) for b in body for n in ast.walk(b))
    # shape A
    if n_ret == 1 and isinstance(body[-1], ast.Return) and body[-1].value is not None:
        prefix = pre + body[:-1]
        holder = st if isinstance(st, (ast.Assign, ast.AugAssign, ast.AnnAssign, ast.Expr, ast.Return)) else \
            (st.test if isinstance(st, ast.If) else st.iter)
        if prefix and _in_nested_scope(holder, call):
            return None
        if prefix:
            order = []
            _eval_order(holder, order)
            pos = next((k for k, n in enumerate(order) if n is call), None)
            if pos is None or any(isinstance(n, ast.Call) and n is not call and not is_pure(n) for n in order[:pos]
                                  if not any(n is a for a in ast.walk(call))):
                return None
        # `X = helper(..)` whose helper ends in `return R` (a local of its own): the helper's R *is* the caller's X -- rename instead of
        # leaving `X = R__h` behind (X must not be an argument of the call: the body would see it change under its feet)
        rv = body[-1].value
        if isinstance(st, ast.Assign) and st.value is call and len(st.targets) == 1 and isinstance(st.targets[0], ast.Name) \
                and isinstance(rv, ast.Name) and rv.id in mapping.values() and prefix \
                and not any(isinstance(x, ast.Name) and x.id == st.targets[0].id for a_ in list(call.args) + [k.value for k in call.keywords] for x in ast.walk(a_)) \
                and not any(isinstance(x, ast.Name) and x.id == st.targets[0].id for p_ in pre for x in ast.walk(p_)):
            X, R = st.targets[0].id, rv.id
            for b_ in prefix:
                for x in ast.walk(b_):
                    if isinstance(x, ast.Name) and x.id == R:
                        x.id = X
            return prefix
        new_st = _ReplaceNode(call, body[-1].value).visit(st)
        return prefix + [new_st]
    # shape B
    if has_with:
        return None
    try:
        if isinstance(st, ast.Assign) and st.value is call:
            make = lambda v: [ast.copy_location(ast.Assign(targets=_dc(st.targets), value=v, lineno=st.lineno), st)]
        elif isinstance(st, ast.Return) and st.value is call:
            make = lambda v: [ast.copy_location(ast.Return(value=v), st)]
        elif isinstance(st, ast.Expr) and st.value is call:
            make = lambda v: [ast.copy_location(ast.Expr(value=v), st)] if not isinstance(v, ast.Constant) else []
        else:
            return None
        new, _ = _tailify(body, make)
        for s in new:
            for n in ast.walk(s):
                if isinstance(n, ast.If) and not n.body:
                    n.body = [ast.Pass()]
        return pre + new
    except _NoTail:
        return None


def _inline_block(block, resolve, local_defs, caller_locals, log):
    changed = False
    i = 0
    while i < len(block):
        st = block[i]
        if isinstance(st, (ast.FunctionDef, ast.AsyncFunctionDef, ast.ClassDef)):
            i += 1
            continue
        done = False
        for holder in _header_exprs(st):
            for call in [n for n in ast.walk(holder) if isinstance(n, ast.Call)]:
                h, receiver = None, None
                f = call.func
                if isinstance(f, ast.Name) and f.id in local_defs:
                    h = local_defs[f.id]
                else:
                    txt = ast.unparse(f).replace(" ", "")
                    h = resolve(txt) if resolve else None
                    if h is not None and isinstance(f, ast.Attribute):
                        static = any(isinstance(d, ast.Name) and d.id == "staticmethod" for d in h.decorator_list)
                        if not static:
                            # classmethod called on the class / cls, or a method on self: the receiver is the first parameter
                            receiver = f.value
                            if any(isinstance(d, ast.Name) and d.id == "classmethod" for d in h.decorator_list) is False \
                                    and not (isinstance(f.value, ast.Name) and f.value.id in ("self", "cls")):
                                h = None
                if h is None:
                    continue
                new = _expand_call(st, call, h, receiver, caller_locals)
                if new is None:
                    continue
                block[i:i + 1] = new
                log.append(h.name)
                changed = done = True
                break
            if done:
                break
        if done:
            continue  # re-examine the replacement statements
        for fld in ("body", "orelse", "finalbody"):
            sub = getattr(st, fld, None)
            if isinstance(sub, list) and sub and isinstance(sub[0], ast.stmt):
                if _inline_block(sub, resolve, local_defs, caller_locals, log):
                    changed = True
        if isinstance(st, ast.Try):
            for hd in st.handlers:
                if _inline_block(hd.body, resolve, local_defs, caller_locals, log):
                    changed = True
        i += 1
    return changed


def inline_helpers(fn: ast.FunctionDef, resolve=None):
    """-> (function with helper calls expanded, names of the helpers expanded).  The input is not modified; when nothing was
    expanded the input itself is returned (so node identity and parent links are those of the parsed module)."""
    local_defs = {s.name: s for s in fn.body if isinstance(s, ast.FunctionDef)}
    has_candidate = bool(local_defs) or any(isinstance(s, ast.Assign) and isinstance(s.value, ast.Lambda) for s in fn.body)
    if not has_candidate and resolve is not None:
        for n in ast.walk(fn):
            if isinstance(n, ast.Call) and resolve(ast.unparse(n.func).replace(" ", "")) is not None:
                has_candidate = True
                break
    if not has_candidate:
        return fn, []
    f = _dc(fn)
    local_defs = {s.name: s for s in f.body if isinstance(s, ast.FunctionDef)}
    # a local lambda that computes a *value* (not a predicate, not a key function handed on as an object) is a helper like any
    # other: `draw = lambda: int_from_hash(prng.nextRandom())` ... `card.sample_num = draw()`.  Predicates stay named: the rules
    # read them as the repository's own vocabulary (`contest_in_progress`, `filtr`).
    lambda_defs = {}
    for st in list(f.body):
        if isinstance(st, ast.Assign) and len(st.targets) == 1 and isinstance(st.targets[0], ast.Name) and isinstance(st.value, ast.Lambda):
            nm = st.targets[0].id
            body = st.value.body
            predicate = isinstance(body, (ast.Compare, ast.BoolOp)) or (isinstance(body, ast.UnaryOp) and isinstance(body.op, ast.Not)) \
                or (isinstance(body, ast.Constant) and isinstance(body.value, bool)) \
                or (isinstance(body, ast.Call) and isinstance(body.func, ast.Attribute) and body.func.attr.startswith(("has_", "is_")))
            binds = sum(1 for n in ast.walk(f) if isinstance(n, ast.Name) and n.id == nm and isinstance(n.ctx, (ast.Store, ast.Del)))
            loads = [n for n in ast.walk(f) if isinstance(n, ast.Name) and n.id == nm and isinstance(n.ctx, ast.Load)]
            called = [c for c in ast.walk(f) if isinstance(c, ast.Call) and isinstance(c.func, ast.Name) and c.func.id == nm]
            if not predicate and binds == 1 and loads and len(loads) == len(called):
                fd = ast.FunctionDef(name=nm, args=st.value.args, body=[ast.Return(value=body)], decorator_list=[], returns=None,
                                     type_comment=None, lineno=st.lineno, col_offset=0)
                ast.fix_missing_locations(fd)
                lambda_defs[nm] = (st, fd)
                local_defs[nm] = fd
    caller_locals = {
        "@stores": {n.id for n in ast.walk(f) if isinstance(n, ast.Name) and isinstance(n.ctx, ast.Store)} | {a.arg for a in f.args.args},
        "@nested": list(local_defs.values()),  # (lambda helpers included)
    }
    log = []
    for _ in range(4):
        if not _inline_block(f.body, resolve, local_defs, caller_locals, log):
            break
    if not log:
        return fn, []
    # drop local helper definitions that are no longer referenced
    for name, d in local_defs.items():
        holder = lambda_defs[name][0] if name in lambda_defs else d
        used = any(isinstance(n, ast.Name) and n.id == name and isinstance(n.ctx, ast.Load) for s in f.body if s is not holder for n in ast.walk(s))
        if not used and holder in f.body:
            f.body.remove(holder)
    _beta_reduce(f)  # a callable argument that was a lambda is now applied where the helper called it
    _records_to_locals(f)  # `r = helper(...)` has become `r = _Rec(...)`: dissolve a record that is only read field by field
    _split_tuple_assignments(f)  # `a, b = helper(...)` has become `a, b = (a_h, b_h)`
    ast.fix_missing_locations(f)
    _renumber(f)
    for parent in ast.walk(f):
        for child in ast.iter_child_nodes(parent):
            child._parent = parent  # type: ignore[attr-defined]
    return f, log


def _renumber(f):
    """give the statements of an expanded function line numbers that increase in statement order (rules compare positions of
    statements through line numbers; expanded helper bodies would otherwise carry the lines of their definition)"""
    counter = [f.lineno]

    def rec(st):
        counter[0] += 1
        here = counter[0]
        st.lineno = here
        for fld, val in ast.iter_fields(st):
            vals = val if isinstance(val, list) else [val]
            for v in vals:
                if isinstance(v, ast.stmt):
                    rec(v)
                elif isinstance(v, ast.ExceptHandler):
                    v.lineno = counter[0]
                    for b in v.body:
                        rec(b)
                elif isinstance(v, ast.AST):
                    for n in ast.walk(v):
                        if hasattr(n, "lineno"):
                            n.lineno = here
                            n.end_lineno = here
        st.end_lineno = counter[0]

    for st in f.body:
        rec(st)
    f.end_lineno = counter[0]


def structure_continues(stmts):
    """A loop body in which `continue` appears only at the end of if-branches is rewritten without it: `if c: A; continue` followed
    by R becomes `if c: A  else: R`.  The result (a new statement list) has one exit, the end of the body, and can be
    if-converted.  Returns None when a continue is somewhere else (inside a nested loop is fine: that is that loop's business)."""
    def conv(block):
        out = []
        for i, st in enumerate(block):
            rest = block[i + 1:]
            if isinstance(st, ast.Continue):
                return out
            if isinstance(st, ast.If) and _has_continue(st):
                b_end, o_end = _ends_with_continue(st.body), bool(st.orelse) and _ends_with_continue(st.orelse)
                body = conv(list(st.body) + ([] if b_end else list(rest)))
                orelse = conv(list(st.orelse) + ([] if o_end else list(rest)))
                new = ast.copy_location(ast.If(test=st.test, body=body or [ast.Pass()], orelse=orelse), st)
                out.append(new)
                return out
            if not isinstance(st, (ast.For, ast.While)) and _has_continue(st):
                raise _NoComp()
            out.append(st)
        return out

    try:
        res = conv(_dc(list(stmts)))
    except _NoComp:
        return None
    for s in res:
        ast.fix_missing_locations(s)
    return res


def _has_continue(node):
    """a continue that belongs to the loop whose body contains `node` (not to a nested loop)"""
    def rec(n, top):
        if isinstance(n, ast.Continue):
            return True
        if not top and isinstance(n, (ast.For, ast.While, ast.FunctionDef, ast.Lambda)):
            return False
        return any(rec(c, False) for c in ast.iter_child_nodes(n))
    if isinstance(node, (ast.For, ast.While)):
        return False
    return rec(node, True)


# ---------------------------------------------------------------------------
# query-time expansion of temporaries


def expand_locals(expr, fn, stop=(), allow_lambda=False):
    """`expr` with every local temporary replaced by its definition, recursively: a name qualifies when the function binds it
    exactly once, by a plain `name = value` statement.  Rules that ask "what is stored here, in terms of the inputs?" get the
    same answer whether the code names its intermediate values or not.  (Order of evaluation is not considered: use this for
    *what a value is made of*; the order-sensitive normal form is inline_aliases.)"""
    counts = {}
    defs = {}
    for n in ast.walk(fn):
        if isinstance(n, ast.Name) and isinstance(n.ctx, (ast.Store, ast.Del)):
            counts[n.id] = counts.get(n.id, 0) + 1
        if isinstance(n, ast.Assign) and len(n.targets) == 1 and isinstance(n.targets[0], ast.Name):
            defs[n.targets[0].id] = n.value
        if isinstance(n, ast.Assign) and len(n.targets) == 1 and isinstance(n.targets[0], ast.Tuple) \
                and all(isinstance(e, ast.Name) for e in n.targets[0].elts) and not isinstance(n.value, ast.Tuple):
            # a, b, c = value  ->  a is value[0], ...
            for k, e in enumerate(n.targets[0].elts):
                defs[e.id] = ast.Subscript(value=n.value, slice=ast.Constant(value=k), ctx=ast.Load())
    for a in fn.args.args + fn.args.kwonlyargs:
        counts[a.arg] = counts.get(a.arg, 0) + 1
    ok = {k: v for k, v in defs.items() if counts.get(k) == 1 and k not in stop and (allow_lambda or not isinstance(v, ast.Lambda))}

    class X(ast.NodeTransformer):
        def __init__(self):
            self.active = []

        def visit_Name(self, node):
            if isinstance(node.ctx, ast.Load) and node.id in ok and node.id not in self.active:
                self.active.append(node.id)
                r = self.visit(_dc(ok[node.id]))
                self.active.pop()
                return r
            return node

    out = X().visit(_dc(expr))
    return ast.fix_missing_locations(out)


def record_field_values(scope, field):
    """values stored for the string key `field` of a per-card record, in any of the spellings
         D[k]["field"] = v        D[k] = {"field": v, ...}        D[k] = dict(field=v, ...)
       -> list of (D[k] node, value node, statement)"""
    out = []
    for st in ast.walk(scope):
        if not isinstance(st, ast.Assign) or len(st.targets) != 1:
            continue
        t, v = st.targets[0], st.value
        if isinstance(t, ast.Subscript) and isinstance(t.slice, ast.Constant) and t.slice.value == field and isinstance(t.value, ast.Subscript):
            out.append((t.value, v, st))
        elif isinstance(t, ast.Subscript) and isinstance(v, ast.Dict):
            for k, x in zip(v.keys, v.values):
                if isinstance(k, ast.Constant) and k.value == field:
                    out.append((t, x, st))
        elif isinstance(t, ast.Subscript) and isinstance(v, ast.Call) and isinstance(v.func, ast.Name) and v.func.id == "dict":
            for k in v.keywords:
                if k.arg == field:
                    out.append((t, k.value, st))
    return out


# ---------------------------------------------------------------------------
# normal forms applied to every module as it is indexed (before any rule or abstract interpreter sees it)

# callees whose call sites the rules and the abstract interpreter read positionally: keyword arguments are put back in
# parameter order.  NumPy entries are the documented leading parameters; repository entries are resolved from the parsed tree.
NUMPY_SIGS = {
    "insert": ["arr", "obj", "values", "axis"],
    "searchsorted": ["a", "v", "side", "sorter"],
    "arange": ["start", "stop", "step", "dtype"],
    "minimum": ["x1", "x2"], "maximum": ["x1", "x2"],
    "cumsum": ["a", "axis"], "cumprod": ["a", "axis"],
    "append": ["arr", "values", "axis"],
    "tile": ["A", "reps"], "repeat": ["a", "repeats", "axis"],
    "isclose": ["a", "b", "rtol", "atol"],
    "sqrt": ["x"], "sum": ["a", "axis"], "mean": ["a", "axis"], "array": ["object", "dtype"],
    "zeros": ["shape", "dtype"], "ones": ["shape", "dtype"], "quantile": ["a", "q"],
}
NUMPY_KEEP_KW = {"side", "dtype", "axis", "rtol", "atol", "sorter", "q"}  # these stay keywords (the rules read them by name)
REPO_POSITIONAL = {"sjm", "welford_mean_var", "NENAssertion", "NEBAssertion", "buildRemainingTreeAsLists", "from_raire",
                   "vote_for_cand", "ranking", "find_best_audit", "merge_cvrs", "int_from_hash"}
REPO_KEEP_KW = {"stream", "log", "use_style", "big", "small", "med"}


def _sig_of(fdef):
    a = fdef.args
    if a.vararg or a.kwarg or a.posonlyargs:
        return None
    names = [x.arg for x in a.args]
    if names and names[0] in ("self", "cls"):
        names = names[1:]
    return names


def _kwargs_to_positional(tree, repo_sigs):
    n = 0
    for c in ast.walk(tree):
        if not isinstance(c, ast.Call) or not c.keywords or any(k.arg is None for k in c.keywords) \
                or any(isinstance(a, ast.Starred) for a in c.args):
            continue
        f = c.func
        short = f.attr if isinstance(f, ast.Attribute) else (f.id if isinstance(f, ast.Name) else None)
        sig = keep = None
        if isinstance(f, ast.Attribute) and isinstance(f.value, ast.Name) and f.value.id in ("np", "numpy") and short in NUMPY_SIGS:
            sig, keep = NUMPY_SIGS[short], NUMPY_KEEP_KW
        elif short in REPO_POSITIONAL and short in repo_sigs and repo_sigs[short] is not None:
            sig, keep = repo_sigs[short], REPO_KEEP_KW
        if sig is None:
            continue
        kw = {k.arg: k.value for k in c.keywords}
        if any(k not in sig for k in kw):
            continue
        args = list(c.args)
        moved = False
        while len(args) < len(sig) and sig[len(args)] in kw and sig[len(args)] not in keep:
            args.append(kw.pop(sig[len(args)]))
            moved = True
        if moved:
            c.args = args
            c.keywords = [k for k in c.keywords if k.arg in kw]
            n += 1
    return n


def _split_tuple_assignments(tree):
    """`a, b = e1, e2` -> `a = e1; b = e2` when no name bound on the left is read by a later right-hand side (so the
    simultaneous and the sequential reading agree)"""
    n = 0
    for block in _blocks(tree):
        i = 0
        while i < len(block):
            st = block[i]
            if isinstance(st, ast.Assign) and len(st.targets) == 1 and isinstance(st.targets[0], ast.Tuple) and isinstance(st.value, ast.Tuple) \
                    and len(st.targets[0].elts) == len(st.value.elts) and not any(isinstance(e, ast.Starred) for e in st.targets[0].elts + st.value.elts):
                tg, vs = st.targets[0].elts, st.value.elts
                ok = all(isinstance(t, (ast.Name, ast.Attribute)) for t in tg)
                for k, t in enumerate(tg):
                    bound = {x.id for x in ast.walk(t) if isinstance(x, ast.Name) and isinstance(x.ctx, ast.Store)}
                    roots = {_root(t)} if isinstance(t, ast.Attribute) else set()
                    for later in vs[k + 1:]:
                        if (bound | roots) & _names(later):
                            ok = False
                if ok:
                    new = []
                    for t, v in zip(tg, vs):
                        a = ast.Assign(targets=[t], value=v, lineno=st.lineno)
                        new.append(ast.copy_location(a, st))
                    block[i:i + 1] = new
                    n += 1
                    i += len(new)
                    continue
            i += 1
    return n


def _update_to_item_assignment(tree):
    """`d.update({k: v})` as a statement -> `d[k] = v` (one assignment per item, in order)"""
    n = 0
    for block in _blocks(tree):
        i = 0
        while i < len(block):
            st = block[i]
            if isinstance(st, ast.Expr) and isinstance(st.value, ast.Call) and isinstance(st.value.func, ast.Attribute) and st.value.func.attr == "update" \
                    and len(st.value.args) == 1 and not st.value.keywords and isinstance(st.value.args[0], ast.Dict) \
                    and st.value.args[0].keys and all(k is not None for k in st.value.args[0].keys) and is_pure(st.value.func.value):
                d = st.value.args[0]
                new = []
                for k, v in zip(d.keys, d.values):
                    t = ast.Subscript(value=_dc(st.value.func.value), slice=k, ctx=ast.Store())
                    new.append(ast.copy_location(ast.Assign(targets=[t], value=v, lineno=st.lineno), st))
                if len(new) == 1 or all(is_pure(k) and is_pure(v) for k, v in zip(d.keys, d.values)):
                    block[i:i + 1] = new
                    n += 1
                    i += len(new)
                    continue
            i += 1
    return n


def _local_defs_to_lambdas(tree):
    """inside a function, `def name(params): return expr` (nothing else but a docstring) -> `name = lambda params: expr`: the
    repository writes its local predicates and sort keys as lambdas, and the rules look for them in that form"""
    n = 0
    for fn in [x for x in ast.walk(tree) if isinstance(x, (ast.FunctionDef, ast.AsyncFunctionDef))]:
        for block in _blocks(fn):
            for i, st in enumerate(block):
                if isinstance(st, ast.FunctionDef) and st is not fn and not st.decorator_list:
                    body = _helper_body(st)
                    if len(body) == 1 and isinstance(body[0], ast.Return) and body[0].value is not None \
                            and not any(isinstance(x, (ast.Yield, ast.YieldFrom, ast.Await)) for x in ast.walk(body[0])):
                        args = st.args
                        for a in args.args + args.kwonlyargs:
                            a.annotation = None
                        lam = ast.Lambda(args=args, body=body[0].value)
                        new = ast.Assign(targets=[ast.Name(id=st.name, ctx=ast.Store())], value=lam, lineno=st.lineno)
                        block[i] = ast.copy_location(new, st)
                        n += 1
    return n


class _ChainFlatten(ast.NodeTransformer):
    """list(chain.from_iterable(X)) / list(itertools.chain.from_iterable(X)) -> [_e for _s in X for _e in _s]"""
    n = 0

    def visit_Call(self, node):
        node = self.generic_visit(node)
        if isinstance(node.func, ast.Name) and node.func.id == "list" and len(node.args) == 1 and not node.keywords:
            c = node.args[0]
            if isinstance(c, ast.Call) and len(c.args) == 1 and not c.keywords and ast.unparse(c.func) in ("chain.from_iterable", "itertools.chain.from_iterable"):
                comp = ast.ListComp(elt=ast.Name(id="_e", ctx=ast.Load()), generators=[
                    ast.comprehension(target=ast.Name(id="_s", ctx=ast.Store()), iter=c.args[0], ifs=[], is_async=0),
                    ast.comprehension(target=ast.Name(id="_e", ctx=ast.Store()), iter=ast.Name(id="_s", ctx=ast.Load()), ifs=[], is_async=0)])
                _ChainFlatten.n += 1
                return ast.copy_location(comp, node)
        return node


class _StarLists(ast.NodeTransformer):
    """[a, *b, c] -> [a] + list(b) + [c]   (list displays with unpacking, as concatenations)"""
    n = 0

    def visit_List(self, node):
        node = self.generic_visit(node)
        if not isinstance(node.ctx, ast.Load) or not any(isinstance(e, ast.Starred) for e in node.elts):
            return node
        parts, cur = [], []
        for e in node.elts:
            if isinstance(e, ast.Starred):
                if cur:
                    parts.append(ast.List(elts=cur, ctx=ast.Load()))
                    cur = []
                parts.append(ast.Call(func=ast.Name(id="list", ctx=ast.Load()), args=[e.value], keywords=[]))
            else:
                cur.append(e)
        if cur:
            parts.append(ast.List(elts=cur, ctx=ast.Load()))
        out = parts[0]
        for p_ in parts[1:]:
            out = ast.BinOp(left=out, op=ast.Add(), right=p_)
        _StarLists.n += 1
        return ast.copy_location(out, node)


def _dict_zip_to_literal(tree):
    """dict(zip(KEYS, [v1, .., vn])) with KEYS a literal list of n constants (given in place or bound once in the function) is
    the dict display {k1: v1, ..}"""
    n = 0
    for fn in [x for x in ast.walk(tree) if isinstance(x, (ast.FunctionDef, ast.AsyncFunctionDef))]:
        defs, cnt = {}, {}
        for x in ast.walk(fn):
            if isinstance(x, ast.Name) and isinstance(x.ctx, (ast.Store, ast.Del)):
                cnt[x.id] = cnt.get(x.id, 0) + 1
            if isinstance(x, ast.Assign) and len(x.targets) == 1 and isinstance(x.targets[0], ast.Name):
                defs[x.targets[0].id] = x.value
        for holder in ast.walk(fn):
            for fld, val in ast.iter_fields(holder):
                items = val if isinstance(val, list) else [val]
                for k_, c in enumerate(items):
                    if not (isinstance(c, ast.Call) and isinstance(c.func, ast.Name) and c.func.id == "dict" and len(c.args) == 1 and not c.keywords):
                        continue
                    z = c.args[0]
                    if not (isinstance(z, ast.Call) and isinstance(z.func, ast.Name) and z.func.id == "zip" and len(z.args) == 2 and not z.keywords):
                        continue
                    keys, vals = z.args
                    if isinstance(keys, ast.Name) and cnt.get(keys.id) == 1 and keys.id in defs:
                        keys = defs[keys.id]
                    if isinstance(keys, (ast.List, ast.Tuple)) and isinstance(vals, (ast.List, ast.Tuple)) and len(keys.elts) == len(vals.elts) \
                            and all(isinstance(e, ast.Constant) for e in keys.elts) and not any(isinstance(e, ast.Starred) for e in vals.elts):
                        d = ast.copy_location(ast.Dict(keys=[_dc(e) for e in keys.elts], values=list(vals.elts)), c)
                        if isinstance(val, list):
                            val[k_] = d
                        else:
                            setattr(holder, fld, d)
                        n += 1
    return n


def _flag_loops_to_any(tree):
    """`f = False; for v in it: if cond: f = True[; break]`  ->  `f = any(cond for v in it)` (with break: short-circuits like the
    generator form) / `f = any([cond for v in it])` (without break: every element is evaluated, like the list form); and the dual
    with True/False swapped and the condition negated -> all(...).  The loop may do nothing else."""
    n = 0
    for block in _blocks(tree):
        i = 0
        while i + 1 < len(block):
            a, l = block[i], block[i + 1]
            if isinstance(a, ast.Assign) and len(a.targets) == 1 and isinstance(a.targets[0], ast.Name) and isinstance(a.value, ast.Constant) \
                    and isinstance(a.value.value, bool) and isinstance(l, ast.For) and not l.orelse and len(l.body) == 1 \
                    and isinstance(l.body[0], ast.If) and not l.body[0].orelse:
                flag, init = a.targets[0].id, a.value.value
                iff = l.body[0]
                body = iff.body
                sets = [x for x in body if isinstance(x, ast.Assign) and len(x.targets) == 1 and isinstance(x.targets[0], ast.Name)
                        and x.targets[0].id == flag and isinstance(x.value, ast.Constant) and x.value.value is (not init)]
                brk = [x for x in body if isinstance(x, ast.Break)]
                if len(sets) == 1 and len(body) == 1 + len(brk) and len(brk) <= 1 and (not brk or body[-1] is brk[0]) \
                        and not any(isinstance(x, ast.Name) and x.id == flag for x in ast.walk(iff.test)) \
                        and not any(isinstance(x, ast.Name) and x.id == flag for x in ast.walk(l.iter)):
                    cond = iff.test if init is False else ast.UnaryOp(op=ast.Not(), operand=iff.test)
                    gen = ast.comprehension(target=l.target, iter=l.iter, ifs=[], is_async=0)
                    inner = ast.GeneratorExp(elt=cond, generators=[gen]) if brk else ast.ListComp(elt=cond, generators=[gen])
                    call = ast.Call(func=ast.Name(id="any" if init is False else "all", ctx=ast.Load()), args=[inner], keywords=[])
                    new = ast.copy_location(ast.Assign(targets=a.targets, value=call, lineno=a.lineno), a)
                    block[i:i + 2] = [new]
                    n += 1
                    continue
            i += 1
    return n


def _itemgetter_calls(tree):
    """g = itemgetter(K) (bound once in a function) ... g(E)  ->  E[K];  itemgetter(K)(E) -> E[K];  key=itemgetter(K) stays"""
    n = 0
    for fn in [x for x in ast.walk(tree) if isinstance(x, (ast.FunctionDef, ast.AsyncFunctionDef))]:
        cnt, getters = {}, {}
        for x in ast.walk(fn):
            if isinstance(x, ast.Name) and isinstance(x.ctx, (ast.Store, ast.Del)):
                cnt[x.id] = cnt.get(x.id, 0) + 1
            if isinstance(x, ast.Assign) and len(x.targets) == 1 and isinstance(x.targets[0], ast.Name) and isinstance(x.value, ast.Call) \
                    and ast.unparse(x.value.func) in ("itemgetter", "operator.itemgetter") and len(x.value.args) == 1 and not x.value.keywords:
                getters[x.targets[0].id] = (x, x.value.args[0])
        getters = {k: v for k, v in getters.items() if cnt.get(k) == 1}
        used_as_value = set()

        class R(ast.NodeTransformer):
            def visit_Call(self, node):
                nonlocal n
                node = self.generic_visit(node)
                f = node.func
                if isinstance(f, ast.Name) and f.id in getters and len(node.args) == 1 and not node.keywords:
                    n += 1
                    return ast.copy_location(ast.Subscript(value=node.args[0], slice=_dc(getters[f.id][1]), ctx=ast.Load()), node)
                if isinstance(f, ast.Call) and ast.unparse(f.func) in ("itemgetter", "operator.itemgetter") and len(f.args) == 1 \
                        and len(node.args) == 1 and not node.keywords and not f.keywords:
                    n += 1
                    return ast.copy_location(ast.Subscript(value=node.args[0], slice=f.args[0], ctx=ast.Load()), node)
                return node
        R().visit(fn)
        # drop the binding when the getter is no longer referenced
        for name, (st, _) in getters.items():
            if not any(isinstance(x, ast.Name) and x.id == name and isinstance(x.ctx, ast.Load) for x in ast.walk(fn)):
                for block in _blocks(fn):
                    if st in block:
                        block.remove(st)
    return n


def _iter_while_to_for(tree):
    """S = object(); it = iter(X); v = next(it, S); while v is not S: BODY; v = next(it, S)   ->   for v in X: BODY
    (BODY without continue/break; `it` and `S` used nowhere else)"""
    n = 0
    for fn in [x for x in ast.walk(tree) if isinstance(x, (ast.FunctionDef, ast.AsyncFunctionDef))]:
        for block in _blocks(fn):
            i = 0
            while i < len(block):
                w = block[i]
                if isinstance(w, ast.While) and not w.orelse and isinstance(w.test, ast.Compare) and len(w.test.ops) == 1 \
                        and isinstance(w.test.ops[0], ast.IsNot) and isinstance(w.test.left, ast.Name) and isinstance(w.test.comparators[0], ast.Name) \
                        and w.body and i >= 2:
                    v, sent = w.test.left.id, w.test.comparators[0].id
                    last = w.body[-1]

                    def is_next(st, v=v, sent=sent):
                        return isinstance(st, ast.Assign) and len(st.targets) == 1 and isinstance(st.targets[0], ast.Name) and st.targets[0].id == v \
                            and isinstance(st.value, ast.Call) and isinstance(st.value.func, ast.Name) and st.value.func.id == "next" \
                            and len(st.value.args) == 2 and isinstance(st.value.args[0], ast.Name) and isinstance(st.value.args[1], ast.Name) \
                            and st.value.args[1].id == sent
                    first = block[i - 1]
                    if is_next(last) and is_next(first) and last.value.args[0].id == first.value.args[0].id:
                        itn = first.value.args[0].id
                        # it = iter(X) and S = object() among the statements just before
                        pre = block[max(0, i - 3):i - 1]
                        itdef = [p_ for p_ in pre if isinstance(p_, ast.Assign) and isinstance(p_.targets[0], ast.Name) and p_.targets[0].id == itn
                                 and isinstance(p_.value, ast.Call) and isinstance(p_.value.func, ast.Name) and p_.value.func.id == "iter" and len(p_.value.args) == 1]
                        sdef = [p_ for p_ in pre if isinstance(p_, ast.Assign) and isinstance(p_.targets[0], ast.Name) and p_.targets[0].id == sent
                                and isinstance(p_.value, ast.Call) and isinstance(p_.value.func, ast.Name) and p_.value.func.id == "object" and not p_.value.args]
                        body = w.body[:-1]
                        uses = [x for x in ast.walk(fn) if isinstance(x, ast.Name) and x.id in (itn, sent)]
                        inner_uses = sum(1 for b in body for x in ast.walk(b) if isinstance(x, ast.Name) and x.id in (itn, sent, ))
                        clean = not any(isinstance(x, (ast.Break, ast.Continue)) for b in body for x in ast.walk(b)) \
                            and not any(isinstance(x, ast.Name) and x.id == v and isinstance(x.ctx, ast.Store) for b in body for x in ast.walk(b))
                        # it: def + 2 next() ; sentinel: def + 2 next() + 1 test
                        if len(itdef) == 1 and len(sdef) == 1 and inner_uses == 0 and clean and len(uses) == 3 + 4:
                            new = ast.copy_location(ast.For(target=ast.Name(id=v, ctx=ast.Store()), iter=itdef[0].value.args[0], body=body or [ast.Pass()], orelse=[]), w)
                            for p_ in (itdef[0], sdef[0], first):
                                block.remove(p_)
                            block[block.index(w)] = new
                            n += 1
                            i = 0
                            continue
                i += 1
    return n


def _explicit_minmax(tree):
    """if A > B: T = A  else: T = B   ->   T = max(B, A)      (max returns its first argument on a tie, as the else branch does)
       if A > B: T = A   with T being B ->   T = max(T, A)       and the duals with < / min.  A, B pure."""
    n = 0
    for block in _blocks(tree):
        for i, st in enumerate(block):
            if not (isinstance(st, ast.If) and isinstance(st.test, ast.Compare) and len(st.test.ops) == 1 and len(st.body) == 1
                    and isinstance(st.body[0], ast.Assign) and len(st.body[0].targets) == 1):
                continue
            op = st.test.ops[0]
            if not isinstance(op, (ast.Gt, ast.Lt)):
                continue
            A, B = st.test.left, st.test.comparators[0]
            if not (is_pure(A) and is_pure(B)):
                continue
            tgt, val = st.body[0].targets[0], st.body[0].value
            dA, dB, dV = ast.dump(A), ast.dump(B), ast.dump(val)
            # which operand is stored when the test holds?  `A > B: T = A` is max; `A < B: T = A` is min
            if dV == dA:
                fn_, first, second = ("max" if isinstance(op, ast.Gt) else "min"), B, A
            elif dV == dB:
                fn_, first, second = ("min" if isinstance(op, ast.Gt) else "max"), A, B
            else:
                continue
            tload = _as_load_copy(tgt)
            if st.orelse:
                if not (len(st.orelse) == 1 and isinstance(st.orelse[0], ast.Assign) and len(st.orelse[0].targets) == 1
                        and ast.dump(_as_load_copy(st.orelse[0].targets[0])) == ast.dump(tload) and ast.dump(st.orelse[0].value) == ast.dump(first)):
                    continue
            elif ast.dump(tload) != ast.dump(first):
                continue
            call = ast.Call(func=ast.Name(id=fn_, ctx=ast.Load()), args=[_dc(first), _dc(second)], keywords=[])
            block[i] = ast.copy_location(ast.Assign(targets=[tgt], value=call, lineno=st.lineno), st)
            n += 1
    return n


def _roll_then_set_first(tree):
    """a = np.roll(b, 1); a[0] = v   ->   a = np.insert(b, 0, v)[0:-1]   (shift by one, the first entry given, the last dropped)"""
    n = 0
    for block in _blocks(tree):
        i = 0
        while i + 1 < len(block):
            a, b = block[i], block[i + 1]
            if isinstance(a, ast.Assign) and len(a.targets) == 1 and isinstance(a.targets[0], ast.Name) and isinstance(a.value, ast.Call) \
                    and ast.unparse(a.value.func) in ("np.roll", "numpy.roll") and len(a.value.args) == 2 and not a.value.keywords \
                    and isinstance(a.value.args[1], ast.Constant) and a.value.args[1].value == 1 \
                    and isinstance(b, ast.Assign) and len(b.targets) == 1 and isinstance(b.targets[0], ast.Subscript) \
                    and isinstance(b.targets[0].value, ast.Name) and b.targets[0].value.id == a.targets[0].id \
                    and (isinstance(b.targets[0].slice, ast.Constant) and b.targets[0].slice.value == 0
                         or _first_k(b.targets[0].slice) is not None and isinstance(b.value, ast.Constant)) \
                    and not any(isinstance(x, ast.Name) and x.id == a.targets[0].id for x in ast.walk(b.value)):
                ins = ast.Call(func=a.value.func.__class__(value=a.value.func.value, attr="insert", ctx=ast.Load()) if isinstance(a.value.func, ast.Attribute) else a.value.func,
                               args=[a.value.args[0], ast.Constant(value=0), b.value], keywords=[])
                sl = ast.Subscript(value=ins, slice=ast.Slice(lower=ast.Constant(value=0), upper=ast.UnaryOp(op=ast.USub(), operand=ast.Constant(value=1)), step=None), ctx=ast.Load())
                repl = [ast.copy_location(ast.Assign(targets=a.targets, value=sl, lineno=a.lineno), a)]
                k = _first_k(b.targets[0].slice)
                if k is not None and k > 1:  # a[0:k] = c  ==  a[0] = c (the wrapped entry) and a[1:k] = c
                    tgt = ast.Subscript(value=ast.Name(id=a.targets[0].id, ctx=ast.Load()),
                                        slice=ast.Slice(lower=ast.Constant(value=1), upper=ast.Constant(value=k), step=None), ctx=ast.Store())
                    repl.append(ast.copy_location(ast.Assign(targets=[tgt], value=_dc(b.value), lineno=b.lineno), b))
                block[i:i + 2] = repl
                n += 1
                continue
            i += 1
    return n


def _first_k(sl):
    """the k of a slice [0:k] / [:k] with a literal k >= 1, else None"""
    if isinstance(sl, ast.Slice) and sl.step is None and (sl.lower is None or (isinstance(sl.lower, ast.Constant) and sl.lower.value == 0)) \
            and isinstance(sl.upper, ast.Constant) and isinstance(sl.upper.value, int) and sl.upper.value >= 1:
        return sl.upper.value
    return None


def _annassign_to_assign(tree):
    """inside a function `x: T = v` is `x = v` (annotations of locals are never evaluated)"""
    n = 0
    for fn in [f for f in ast.walk(tree) if isinstance(f, (ast.FunctionDef, ast.AsyncFunctionDef))]:
        for block in _blocks(fn):
            for i, st in enumerate(block):
                if isinstance(st, ast.AnnAssign) and st.value is not None and isinstance(st.target, (ast.Name, ast.Attribute, ast.Subscript)):
                    block[i] = ast.copy_location(ast.Assign(targets=[st.target], value=st.value, lineno=st.lineno), st)
                    n += 1
    return n


def _unpack_generator_over_literals(tree):
    """`a, b = (E(v) for v in (p, q))` (or the list form) is `a, b = (E(p), E(q))`: a comprehension over a literal tuple of pure
    expressions, as many as there are targets, no filter, the loop variable a plain name that E only reads"""
    n = 0
    for block in _blocks(tree):
        for st in block:
            if not (isinstance(st, ast.Assign) and len(st.targets) == 1 and isinstance(st.targets[0], (ast.Tuple, ast.List))):
                continue
            v = st.value
            if not (isinstance(v, (ast.GeneratorExp, ast.ListComp)) and len(v.generators) == 1):
                continue
            g = v.generators[0]
            if g.ifs or g.is_async or not isinstance(g.target, ast.Name) or not isinstance(g.iter, (ast.Tuple, ast.List)):
                continue
            elts = g.iter.elts
            if len(elts) != len(st.targets[0].elts) or not all(is_pure(e) for e in elts) or any(isinstance(e, ast.Starred) for e in elts):
                continue
            if any(isinstance(x, (ast.Lambda, ast.ListComp, ast.SetComp, ast.DictComp, ast.GeneratorExp, ast.NamedExpr)) for x in ast.walk(v.elt)):
                continue
            outs = []
            for e in elts:
                class _S(ast.NodeTransformer):
                    def visit_Name(self, nd, e=e, nm=g.target.id):
                        return _dc(e) if nd.id == nm and isinstance(nd.ctx, ast.Load) else nd
                outs.append(_S().visit(_dc(v.elt)))
            st.value = ast.copy_location(ast.Tuple(elts=outs, ctx=ast.Load()), v)
            n += 1
    return n


def _expand_double_star_locals(tree):
    """`common = {"a": x, "b": y}` (or dict(a=x, b=y)) bound once to pure values and used only as `f(..., **common)` /
    `{**common, ...}`: each use is the keywords / items written out (same keys, same order, values not re-bound in between)"""
    n = 0
    for fn in [f for f in ast.walk(tree) if isinstance(f, (ast.FunctionDef, ast.AsyncFunctionDef))]:
        assigns = {}
        for st in ast.walk(fn):
            if isinstance(st, ast.Assign) and len(st.targets) == 1 and isinstance(st.targets[0], ast.Name):
                assigns.setdefault(st.targets[0].id, []).append(st)
        for name, sts in assigns.items():
            if len(sts) != 1:
                continue
            st = sts[0]
            v = st.value
            if isinstance(v, ast.Dict) and v.keys and all(isinstance(k, ast.Constant) and isinstance(k.value, str) and k.value.isidentifier() for k in v.keys):
                items = [(k.value, val) for k, val in zip(v.keys, v.values)]
            elif isinstance(v, ast.Call) and isinstance(v.func, ast.Name) and v.func.id == "dict" and not v.args and v.keywords \
                    and all(k.arg is not None for k in v.keywords):
                items = [(k.arg, k.value) for k in v.keywords]
            else:
                continue
            if not all(is_pure(val) for _, val in items):
                continue
            uses = [x for x in ast.walk(fn) if isinstance(x, ast.Name) and x.id == name and isinstance(x.ctx, ast.Load)]
            stars = []
            for c in ast.walk(fn):
                if isinstance(c, ast.Call):
                    stars += [(c, k) for k in c.keywords if k.arg is None and isinstance(k.value, ast.Name) and k.value.id == name]
                elif isinstance(c, ast.Dict):
                    stars += [(c, i) for i, (k, val) in enumerate(zip(c.keys, c.values)) if k is None and isinstance(val, ast.Name) and val.id == name]
            if not uses or len(uses) != len(stars):
                continue  # used in some other way (passed on, mutated, read)
            free = set()
            for _, val in items:
                free |= {x.id for x in ast.walk(val) if isinstance(x, ast.Name)}
            rebound = [x for x in ast.walk(fn) if isinstance(x, ast.Name) and x.id in free and isinstance(x.ctx, (ast.Store, ast.Del))
                       and getattr(x, "lineno", 0) > st.lineno]
            if rebound:
                continue
            for c, k in stars:
                if isinstance(c, ast.Call):
                    if any(kw.arg in dict(items) for kw in c.keywords if kw.arg):
                        break
                    i = c.keywords.index(k)
                    c.keywords[i:i + 1] = [ast.keyword(arg=key, value=_dc(val)) for key, val in items]
                else:
                    c.keys[k:k + 1] = [ast.Constant(value=key) for key, _ in items]
                    c.values[k:k + 1] = [_dc(val) for _, val in items]
            else:
                for block in _blocks(fn):
                    if st in block:
                        block.remove(st)
                        if not block:
                            block.append(ast.Pass())
                n += 1
    return n


def _count_loops_to_while(tree):
    """`for i in itertools.count(k): if not C: break; BODY` (no continue in BODY, i not assigned in it)  ->
    `i = k; while C: BODY; i += 1`"""
    n = 0
    for block in _blocks(tree):
        i = 0
        while i < len(block):
            st = block[i]
            if isinstance(st, ast.For) and not st.orelse and isinstance(st.target, ast.Name) and isinstance(st.iter, ast.Call) \
                    and ast.unparse(st.iter.func) in ("itertools.count", "count") and len(st.iter.args) <= 1 and not st.iter.keywords \
                    and st.body and isinstance(st.body[0], ast.If) and not st.body[0].orelse and len(st.body[0].body) == 1 \
                    and isinstance(st.body[0].body[0], ast.Break):
                rest = st.body[1:]
                v = st.target.id
                own = lambda x: not any(isinstance(a, (ast.For, ast.While)) and a is not st and any(a is y for y in ast.walk(st))
                                        and any(x is z for z in ast.walk(a)) for a in ast.walk(st))
                bad = [x for b in rest for x in ast.walk(b) if (isinstance(x, (ast.Continue, ast.Break)) and own(x))
                       or (isinstance(x, ast.Name) and x.id == v and isinstance(x.ctx, (ast.Store, ast.Del)))]
                if not bad and rest:
                    t = st.body[0].test
                    test = t.operand if isinstance(t, ast.UnaryOp) and isinstance(t.op, ast.Not) else ast.UnaryOp(op=ast.Not(), operand=t)
                    start = st.iter.args[0] if st.iter.args else ast.Constant(value=0)
                    init = ast.copy_location(ast.Assign(targets=[ast.Name(id=v, ctx=ast.Store())], value=start, lineno=st.lineno), st)
                    init.lineno = init.end_lineno = max(1, st.lineno - 1)  # (rules order statements by line: the initialisation comes first)
                    inc = ast.AugAssign(target=ast.Name(id=v, ctx=ast.Store()), op=ast.Add(), value=ast.Constant(value=1))
                    wh = ast.copy_location(ast.While(test=test, body=rest + [ast.copy_location(inc, rest[-1])], orelse=[]), st)
                    block[i:i + 1] = [init, wh]
                    n += 1
                    i += 2
                    continue
            i += 1
    return n


def _enumerate_slice_to_range(tree):
    """a comprehension generator `for k, v in enumerate(S[a:], start=b)` (S a pure name / attribute chain, a and b integer
    literals) is `for j in range(a, len(S))` with v = S[j] and k = j - a + b"""
    n = 0
    for comp in [c for c in ast.walk(tree) if isinstance(c, (ast.ListComp, ast.DictComp, ast.SetComp, ast.GeneratorExp))]:
        for g in comp.generators:
            it = g.iter
            if not (isinstance(it, ast.Call) and isinstance(it.func, ast.Name) and it.func.id == "enumerate" and 1 <= len(it.args) <= 2
                    and isinstance(g.target, ast.Tuple) and len(g.target.elts) == 2 and all(isinstance(e, ast.Name) for e in g.target.elts)):
                continue
            src = it.args[0]
            b = it.args[1] if len(it.args) == 2 else next((k.value for k in it.keywords if k.arg == "start"), ast.Constant(value=0))
            if any(k.arg != "start" for k in it.keywords):
                continue
            if not (isinstance(src, ast.Subscript) and isinstance(src.slice, ast.Slice) and src.slice.upper is None and src.slice.step is None
                    and isinstance(src.value, (ast.Name, ast.Attribute)) and is_pure(src.value)):
                continue
            a = src.slice.lower or ast.Constant(value=0)
            if not (isinstance(a, ast.Constant) and isinstance(a.value, int) and a.value >= 0 and isinstance(b, ast.Constant) and isinstance(b.value, int)):
                continue
            kname, vname = g.target.elts[0].id, g.target.elts[1].id
            jname = "_j" + kname
            shift = b.value - a.value
            kexpr = ast.Name(id=jname, ctx=ast.Load()) if shift == 0 else ast.BinOp(
                left=ast.Name(id=jname, ctx=ast.Load()), op=ast.Add() if shift > 0 else ast.Sub(), right=ast.Constant(value=abs(shift)))
            vexpr = ast.Subscript(value=_dc(src.value), slice=ast.Name(id=jname, ctx=ast.Load()), ctx=ast.Load())

            class _S(ast.NodeTransformer):
                def visit_Name(self, nd):
                    if isinstance(nd.ctx, ast.Load) and nd.id == kname:
                        return _dc(kexpr)
                    if isinstance(nd.ctx, ast.Load) and nd.id == vname:
                        return _dc(vexpr)
                    return nd
            g.target = ast.Name(id=jname, ctx=ast.Store())
            g.iter = ast.Call(func=ast.Name(id="range", ctx=ast.Load()),
                              args=[ast.Constant(value=a.value), ast.Call(func=ast.Name(id="len", ctx=ast.Load()), args=[_dc(src.value)], keywords=[])], keywords=[])
            g.ifs = [_S().visit(x) for x in g.ifs]
            for fld in ("elt", "key", "value"):
                if hasattr(comp, fld):
                    setattr(comp, fld, _S().visit(getattr(comp, fld)))
            n += 1
    return n


_NT_TABLE = {}  # namedtuple types defined at module level anywhere in the package: name -> field names


def _collect_namedtuples(tree):
    for st in getattr(tree, "body", []):
        if isinstance(st, ast.Assign) and len(st.targets) == 1 and isinstance(st.targets[0], ast.Name) and isinstance(st.value, ast.Call) \
                and ast.unparse(st.value.func) in ("namedtuple", "collections.namedtuple") and len(st.value.args) == 2 and not st.value.keywords:
            f = st.value.args[1]
            fields = None
            if isinstance(f, ast.Constant) and isinstance(f.value, str):
                fields = f.value.replace(",", " ").split()
            elif isinstance(f, (ast.List, ast.Tuple)) and all(isinstance(e, ast.Constant) and isinstance(e.value, str) for e in f.elts):
                fields = [e.value for e in f.elts]
            if fields:
                _NT_TABLE[st.targets[0].id] = fields


def _records_to_locals(fn):
    """`r = _Rec(a, b, c)` (a namedtuple type of the package) whose every use is a field read `r.f`: the record is dissolved
    into one local per field (`r__f = ...`, in the order the arguments are written), `r = _Rec(*E)` into `r__all = E` with
    `r.f` read as `r__all[k]`.  A record that is passed on, indexed, unpacked or re-bound is left alone."""
    n = 0
    assigns = {}
    for st in ast.walk(fn):
        if isinstance(st, ast.Assign) and len(st.targets) == 1 and isinstance(st.targets[0], ast.Name):
            assigns.setdefault(st.targets[0].id, []).append(st)
    for name, sts in assigns.items():
        if len(sts) != 1:
            continue
        st = sts[0]
        v = st.value
        if not (isinstance(v, ast.Call) and isinstance(v.func, ast.Name) and v.func.id in _NT_TABLE):
            continue
        fields = _NT_TABLE[v.func.id]
        uses = [x for x in ast.walk(fn) if isinstance(x, ast.Name) and x.id == name and isinstance(x.ctx, ast.Load)]
        attrs = [x for x in ast.walk(fn) if isinstance(x, ast.Attribute) and isinstance(x.value, ast.Name) and x.value.id == name
                 and isinstance(x.ctx, ast.Load) and x.attr in fields]
        stores = [x for x in ast.walk(fn) if isinstance(x, ast.Name) and x.id == name and isinstance(x.ctx, (ast.Store, ast.Del))]
        if len(stores) != 1 or len(uses) != len(attrs) or not uses:
            continue
        star = len(v.args) == 1 and isinstance(v.args[0], ast.Starred) and not v.keywords
        if star:
            new = [ast.copy_location(ast.Assign(targets=[ast.Name(id=f"{name}__all", ctx=ast.Store())], value=v.args[0].value, lineno=st.lineno), st)]
            sub = {f: ast.Subscript(value=ast.Name(id=f"{name}__all", ctx=ast.Load()), slice=ast.Constant(value=k), ctx=ast.Load())
                   for k, f in enumerate(fields)}
        else:
            if any(isinstance(a, ast.Starred) for a in v.args) or any(k.arg is None for k in v.keywords):
                continue
            bound = list(zip(fields, v.args)) + [(k.arg, k.value) for k in v.keywords]
            if sorted(f for f, _ in bound) != sorted(fields):
                continue
            new = [ast.copy_location(ast.Assign(targets=[ast.Name(id=f"{name}__{f}", ctx=ast.Store())], value=val, lineno=st.lineno), st)
                   for f, val in bound]
            sub = {f: ast.Name(id=f"{name}__{f}", ctx=ast.Load()) for f in fields}
        placed = False
        for block in _blocks(fn):
            if any(b is st for b in block):
                i = next(k for k, b in enumerate(block) if b is st)
                block[i:i + 1] = new
                placed = True
                break
        if not placed:
            continue

        class _R(ast.NodeTransformer):
            def visit_Attribute(self, nd):
                self.generic_visit(nd)
                if isinstance(nd.value, ast.Name) and nd.value.id == name and isinstance(nd.ctx, ast.Load) and nd.attr in sub:
                    return ast.copy_location(_dc(sub[nd.attr]), nd)
                return nd
        _R().visit(fn)
        n += 1
    return n


def _try_attribute_default(tree):
    """try: v = obj.attr / except AttributeError: v = default   ->   v = getattr(obj, "attr", default)   (obj a plain name,
    default pure, nothing else in either block)"""
    n = 0
    for block in _blocks(tree):
        for i, st in enumerate(block):
            if not (isinstance(st, ast.Try) and len(st.body) == 1 and len(st.handlers) == 1 and not st.orelse and not st.finalbody):
                continue
            b, h = st.body[0], st.handlers[0]
            if not (isinstance(b, ast.Assign) and len(b.targets) == 1 and isinstance(b.targets[0], ast.Name) and isinstance(b.value, ast.Attribute)
                    and isinstance(b.value.value, ast.Name) and h.name is None and isinstance(h.type, ast.Name) and h.type.id == "AttributeError"
                    and len(h.body) == 1 and isinstance(h.body[0], ast.Assign) and len(h.body[0].targets) == 1
                    and isinstance(h.body[0].targets[0], ast.Name) and h.body[0].targets[0].id == b.targets[0].id and is_pure(h.body[0].value)):
                continue
            call = ast.Call(func=ast.Name(id="getattr", ctx=ast.Load()), args=[b.value.value, ast.Constant(value=b.value.attr), h.body[0].value], keywords=[])
            block[i] = ast.copy_location(ast.Assign(targets=b.targets, value=call, lineno=st.lineno), st)
            n += 1
    return n


def _dict_zip_range(tree):
    """dict(zip(map(f, S[lo:]), range(a, len(S) - k)))  with  (len(S) - k) - a == len(S) - lo   ->   {f(S[j]): j - lo + a for j in
    range(lo, len(S))}   (also without map)"""
    n = 0

    class V(ast.NodeTransformer):
        def visit_Call(self, c):
            nonlocal n
            self.generic_visit(c)
            if not (isinstance(c.func, ast.Name) and c.func.id == "dict" and len(c.args) == 1 and not c.keywords and isinstance(c.args[0], ast.Call)
                    and isinstance(c.args[0].func, ast.Name) and c.args[0].func.id == "zip" and len(c.args[0].args) == 2 and not c.args[0].keywords):
                return c
            keys, vals = c.args[0].args
            f = None
            if isinstance(keys, ast.Call) and isinstance(keys.func, ast.Name) and keys.func.id == "map" and len(keys.args) == 2 and is_pure(keys.args[0]):
                f, keys = keys.args[0], keys.args[1]
            if not (isinstance(keys, ast.Subscript) and isinstance(keys.slice, ast.Slice) and keys.slice.upper is None and keys.slice.step is None
                    and isinstance(keys.value, (ast.Name, ast.Attribute)) and is_pure(keys.value)):
                return c
            lo = keys.slice.lower.value if isinstance(keys.slice.lower, ast.Constant) and isinstance(keys.slice.lower.value, int) else (0 if keys.slice.lower is None else None)
            if lo is None or lo < 0:
                return c
            if not (isinstance(vals, ast.Call) and isinstance(vals.func, ast.Name) and vals.func.id == "range" and len(vals.args) == 2
                    and isinstance(vals.args[0], ast.Constant) and isinstance(vals.args[0].value, int)):
                return c
            a, hi = vals.args[0].value, vals.args[1]
            S_ = ast.unparse(keys.value)
            k = None  # hi == len(S) - k
            if ast.unparse(hi) == f"len({S_})":
                k = 0
            elif isinstance(hi, ast.BinOp) and isinstance(hi.op, (ast.Sub, ast.Add)) and ast.unparse(hi.left) == f"len({S_})" \
                    and isinstance(hi.right, ast.Constant) and isinstance(hi.right.value, int):
                k = hi.right.value if isinstance(hi.op, ast.Sub) else -hi.right.value
            if k is None or -k - a != -lo:
                return c
            j = ast.Name(id="_jz", ctx=ast.Load())
            elem = ast.Subscript(value=_dc(keys.value), slice=j, ctx=ast.Load())
            key = ast.Call(func=_dc(f), args=[elem], keywords=[]) if f is not None else elem
            shift = a - lo
            val = j if shift == 0 else ast.BinOp(left=j, op=ast.Add() if shift > 0 else ast.Sub(), right=ast.Constant(value=abs(shift)))
            gen = ast.comprehension(target=ast.Name(id="_jz", ctx=ast.Store()),
                                    iter=ast.Call(func=ast.Name(id="range", ctx=ast.Load()),
                                                  args=[ast.Constant(value=lo), ast.Call(func=ast.Name(id="len", ctx=ast.Load()), args=[_dc(keys.value)], keywords=[])],
                                                  keywords=[]), ifs=[], is_async=0)
            n += 1
            return ast.copy_location(ast.DictComp(key=key, value=val, generators=[gen]), c)
    V().visit(tree)
    return n


def _beta_reduce(tree):
    """(lambda p, q: E)(a, b) -> E[p := a, q := b]  when the arguments are pure (or the parameter is read at most once)"""
    n = 0

    class V(ast.NodeTransformer):
        def visit_Call(self, c):
            nonlocal n
            self.generic_visit(c)
            f = c.func
            if not (isinstance(f, ast.Lambda) and not c.keywords and not any(isinstance(a, ast.Starred) for a in c.args)):
                return c
            a = f.args
            if a.vararg or a.kwarg or a.kwonlyargs or a.posonlyargs or a.defaults or len(a.args) != len(c.args):
                return c
            names = [x.arg for x in a.args]
            reads = {nm: sum(1 for x in ast.walk(f.body) if isinstance(x, ast.Name) and x.id == nm) for nm in names}
            if not all(is_pure(arg) or reads[nm] <= 1 for nm, arg in zip(names, c.args)):
                return c
            if any(isinstance(x, (ast.Lambda, ast.ListComp, ast.DictComp, ast.SetComp, ast.GeneratorExp)) for x in ast.walk(f.body)):
                return c
            sub = dict(zip(names, c.args))

            class S_(ast.NodeTransformer):
                def visit_Name(self, nd):
                    return _dc(sub[nd.id]) if nd.id in sub and isinstance(nd.ctx, ast.Load) else nd
            n += 1
            return ast.copy_location(S_().visit(_dc(f.body)), c)
    V().visit(tree)
    return n


def _list_map_to_comprehension(tree):
    """list(map(F, X)) -> [F(e) for e in X]   (F a name, attribute, lambda or itemgetter(..) call; one iterable)"""
    n = 0

    class V(ast.NodeTransformer):
        def visit_Call(self, c):
            nonlocal n
            self.generic_visit(c)
            if isinstance(c.func, ast.Name) and c.func.id == "list" and len(c.args) == 1 and not c.keywords and isinstance(c.args[0], ast.Call) \
                    and isinstance(c.args[0].func, ast.Name) and c.args[0].func.id == "map" and len(c.args[0].args) == 2 and not c.args[0].keywords:
                F, X = c.args[0].args
                if isinstance(F, (ast.Name, ast.Attribute, ast.Lambda)) or (isinstance(F, ast.Call) and ast.unparse(F.func) in ("itemgetter", "operator.itemgetter")):
                    e = ast.Name(id="_em", ctx=ast.Load())
                    n += 1
                    return ast.copy_location(ast.ListComp(
                        elt=ast.Call(func=F, args=[e], keywords=[]),
                        generators=[ast.comprehension(target=ast.Name(id="_em", ctx=ast.Store()), iter=X, ifs=[], is_async=0)]), c)
            return c
    V().visit(tree)
    return n


def _debug_raise_to_assert(tree):
    """if __debug__: if not C: raise AssertionError(msg)   ->   assert C, msg"""
    n = 0
    for block in _blocks(tree):
        for i, st in enumerate(block):
            if isinstance(st, ast.If) and isinstance(st.test, ast.Name) and st.test.id == "__debug__" and not st.orelse and len(st.body) == 1 \
                    and isinstance(st.body[0], ast.If) and not st.body[0].orelse and len(st.body[0].body) == 1 and isinstance(st.body[0].body[0], ast.Raise):
                inner = st.body[0]
                r = inner.body[0]
                exc = r.exc
                if r.cause is None and isinstance(exc, ast.Call) and isinstance(exc.func, ast.Name) and exc.func.id == "AssertionError" \
                        and len(exc.args) <= 1 and not exc.keywords:
                    cond = inner.test.operand if isinstance(inner.test, ast.UnaryOp) and isinstance(inner.test.op, ast.Not) \
                        else ast.UnaryOp(op=ast.Not(), operand=inner.test)
                    block[i] = ast.copy_location(ast.Assert(test=cond, msg=exc.args[0] if exc.args else None), st)
                    n += 1
    return n


def _callable_objects_to_lambdas(tree):
    """a private module-level class whose only behaviour is `__init__(self, a, b): self.a = a; self.b = b` and
    `__call__(self, x): return E` is a closure: `_Cls(p, q)` -> `lambda x: E[self.a := p, self.b := q]` (arguments pure)"""
    table = {}
    for st in getattr(tree, "body", []):
        if not (isinstance(st, ast.ClassDef) and st.name.startswith("_") and not st.bases and not st.decorator_list):
            continue
        methods = {m.name: m for m in st.body if isinstance(m, ast.FunctionDef)}
        others = [m for m in st.body if not isinstance(m, ast.FunctionDef)
                  and not (isinstance(m, ast.Expr) and isinstance(m.value, ast.Constant))
                  and not (isinstance(m, ast.Assign) and len(m.targets) == 1 and isinstance(m.targets[0], ast.Name) and m.targets[0].id == "__slots__")]
        if set(methods) != {"__init__", "__call__"} or others:
            continue
        ini, cal = methods["__init__"], methods["__call__"]
        ps = [a.arg for a in ini.args.args][1:]
        body = [b for b in ini.body if not (isinstance(b, ast.Expr) and isinstance(b.value, ast.Constant))]
        ok = not ini.args.defaults and not ini.args.kwonlyargs and not ini.args.vararg and not ini.args.kwarg and len(body) == len(ps) and all(
            isinstance(b, ast.Assign) and len(b.targets) == 1 and isinstance(b.targets[0], ast.Attribute) and isinstance(b.targets[0].value, ast.Name)
            and b.targets[0].value.id == ini.args.args[0].arg and isinstance(b.value, ast.Name) and b.value.id in ps for b in body)
        cbody = [b for b in cal.body if not (isinstance(b, ast.Expr) and isinstance(b.value, ast.Constant))]
        if not ok or len(cbody) != 1 or not isinstance(cbody[0], ast.Return) or cbody[0].value is None or cal.args.defaults or cal.args.kwonlyargs:
            continue
        attr_of = {b.targets[0].attr: b.value.id for b in body}
        table[st.name] = (ps, attr_of, cal)
    n = 0
    if not table:
        return 0

    class V(ast.NodeTransformer):
        def visit_Call(self, c):
            nonlocal n
            self.generic_visit(c)
            if isinstance(c.func, ast.Name) and c.func.id in table and not c.keywords and all(is_pure(a) for a in c.args):
                ps, attr_of, cal = table[c.func.id]
                if len(c.args) != len(ps):
                    return c
                arg_of = dict(zip(ps, c.args))
                selfn = cal.args.args[0].arg

                class S_(ast.NodeTransformer):
                    def visit_Attribute(self, nd):
                        self.generic_visit(nd)
                        if isinstance(nd.value, ast.Name) and nd.value.id == selfn and nd.attr in attr_of and isinstance(nd.ctx, ast.Load):
                            return _dc(arg_of[attr_of[nd.attr]])
                        return nd
                body = S_().visit(_dc([b for b in cal.body if isinstance(b, ast.Return)][0].value))
                if any(isinstance(x, ast.Name) and x.id == selfn for x in ast.walk(body)):
                    return c
                lam = ast.Lambda(args=ast.arguments(posonlyargs=[], args=[ast.arg(arg=a.arg) for a in cal.args.args[1:]], vararg=None, kwonlyargs=[],
                                                    kw_defaults=[], kwarg=None, defaults=[]), body=body)
                n += 1
                return ast.copy_location(lam, c)
            return c
    V().visit(tree)
    return n


def _match_to_if(tree):
    """`match <pure subject>:` over constants / dotted names / or-patterns of them / a final wildcard, no guards, no captures, is
    the if / elif chain `subject == A`, `subject in [B, C]`, `else`.  Anything else (class, sequence, mapping patterns, guards,
    captures) is left alone."""
    if not hasattr(ast, "Match"):
        return 0
    n = 0

    def simple(p):
        if isinstance(p, ast.MatchValue):
            return [("==", p.value)]
        if isinstance(p, ast.MatchSingleton):
            return [("is", ast.Constant(value=p.value))]
        if isinstance(p, ast.MatchOr):
            out = []
            for q in p.patterns:
                r = simple(q)
                if r is None:
                    return None
                out += r
            return out
        return None

    def convert(m):
        if not is_pure(m.subject):
            return None
        arms = []
        for k, c in enumerate(m.cases):
            if c.guard is not None:
                return None
            if isinstance(c.pattern, ast.MatchAs) and c.pattern.pattern is None and c.pattern.name is None:
                if k != len(m.cases) - 1:
                    return None
                arms.append((None, c.body))
                continue
            alts = simple(c.pattern)
            if not alts:
                return None
            if len(alts) == 1:
                op, v = alts[0]
                test = ast.Compare(left=_dc(m.subject), ops=[ast.Eq() if op == "==" else ast.Is()], comparators=[v])
            elif all(op == "==" for op, _ in alts):
                test = ast.Compare(left=_dc(m.subject), ops=[ast.In()], comparators=[ast.List(elts=[v for _, v in alts], ctx=ast.Load())])
            else:
                test = ast.BoolOp(op=ast.Or(), values=[ast.Compare(left=_dc(m.subject), ops=[ast.Eq() if op == "==" else ast.Is()],
                                                                   comparators=[v]) for op, v in alts])
            arms.append((test, c.body))
        node = None
        for test, body in reversed(arms):
            if test is None:
                node = list(body)
            else:
                orelse = node if isinstance(node, list) else ([node] if node is not None else [])
                node = ast.copy_location(ast.If(test=test, body=list(body), orelse=orelse), m)
        if isinstance(node, list):  # only a wildcard arm
            return node
        return [node] if node is not None else None

    for parent in list(ast.walk(tree)):
        for fld in ("body", "orelse", "finalbody"):
            blk = getattr(parent, fld, None)
            if not isinstance(blk, list):
                continue
            i = 0
            while i < len(blk):
                if isinstance(blk[i], ast.Match):
                    new = convert(blk[i])
                    if new is not None:
                        blk[i:i + 1] = new
                        n += 1
                        continue
                i += 1
    return n


class _FoldConstants(ast.NodeTransformer):
    """constant tests left behind by substituting a literal for a name: `None is not None`, `not False`, `True or X`,
    `if <literal>:`.  Only what is decided by literals alone, and only where no evaluation is skipped that was not skipped
    before (a literal first operand decides `or` / `and` by short-circuit)."""

    @staticmethod
    def _lit(n):
        return isinstance(n, ast.Constant) and (n.value is None or isinstance(n.value, (bool, int, float, str)))

    def visit_Compare(self, n):
        self.generic_visit(n)
        if len(n.ops) == 1 and self._lit(n.left) and self._lit(n.comparators[0]):
            a, b = n.left.value, n.comparators[0].value
            op = n.ops[0]
            singleton = lambda v: v is None or isinstance(v, bool)
            if isinstance(op, (ast.Is, ast.IsNot)) and (singleton(a) or singleton(b)):
                same = a is b
                return ast.copy_location(ast.Constant(value=same if isinstance(op, ast.Is) else not same), n)
            if isinstance(op, (ast.Eq, ast.NotEq)) and type(a) is type(b):
                return ast.copy_location(ast.Constant(value=(a == b) if isinstance(op, ast.Eq) else (a != b)), n)
        return n

    def visit_UnaryOp(self, n):
        self.generic_visit(n)
        if isinstance(n.op, ast.Not) and self._lit(n.operand):
            return ast.copy_location(ast.Constant(value=not n.operand.value), n)
        return n

    def visit_BoolOp(self, n):
        self.generic_visit(n)
        stop = isinstance(n.op, ast.Or)
        vals = list(n.values)
        while len(vals) > 1 and self._lit(vals[0]):
            if bool(vals[0].value) == stop:
                return vals[0]  # decided by the first operand; nothing after it is evaluated
            vals = vals[1:]  # a neutral first operand drops out
        if len(vals) == 1:
            return vals[0]
        n.values = vals
        return n

    def visit_IfExp(self, n):
        self.generic_visit(n)
        if self._lit(n.test):
            return n.body if n.test.value else n.orelse
        return n

    def _block(self, stmts):
        out = []
        for st in stmts:
            st = self.visit(st)
            if isinstance(st, ast.If) and self._lit(st.test):
                out.extend(st.body if st.test.value else st.orelse)
            else:
                out.append(st)
        return out or [ast.Pass()]

    def generic_visit(self, node):
        for fld in ("body", "orelse", "finalbody"):
            blk = getattr(node, fld, None)
            if isinstance(blk, list) and blk and isinstance(blk[0], ast.stmt):
                new = self._block(blk)
                setattr(node, fld, new if (fld == "body" or new != [ast.Pass()]) else ([] if all(isinstance(x, ast.Pass) for x in new) else new))
        for fld, val in ast.iter_fields(node):
            if fld in ("body", "orelse", "finalbody") and isinstance(val, list) and val and isinstance(val[0], ast.stmt):
                continue
            if isinstance(val, list):
                nv = []
                for v in val:
                    if isinstance(v, ast.AST):
                        v = self.visit(v)
                        if v is None:
                            continue
                    nv.append(v)
                val[:] = nv
            elif isinstance(val, ast.AST):
                nn = self.visit(val)
                setattr(node, fld, nn)
        return node


def specialise_kwonly_defaults(trees):
    """Whole-package step.  A keyword-only parameter with a literal default (`*, callback=None`, `*, overwrite=True`,
    `*, by="selection_order"`) whose name is not used as a keyword argument at *any* call site of the package, and is not a string
    key anywhere a `**kwargs` dict could pick it up, has its default in every call the package makes: inside the function the name
    is the literal, and tests decided by literals are folded.  (How the library behaves when an outside caller passes a new,
    optional argument is not what the properties quantify over.)  -> number of parameters specialised"""
    used = set()
    for t in trees:
        for n in ast.walk(t):
            if isinstance(n, ast.Call):
                for k in n.keywords:
                    if k.arg is not None:
                        used.add(k.arg)
            elif isinstance(n, ast.Constant) and isinstance(n.value, str) and n.value.isidentifier():
                par = None  # strings used as dict keys / .get() keys / getattr names may name a keyword
                used.add(("str", n.value))
    str_keys = {v for k in used if isinstance(k, tuple) for v in [k[1]]}
    n_spec = 0
    for t in trees:
        for fd in [f for f in ast.walk(t) if isinstance(f, (ast.FunctionDef, ast.AsyncFunctionDef))]:
            if not fd.args.kwonlyargs:
                continue
            for a, d in zip(fd.args.kwonlyargs, fd.args.kw_defaults):
                if d is None or not _FoldConstants._lit(d):
                    continue
                nm = a.arg
                if nm in used or nm in str_keys:
                    continue
                if any(isinstance(x, ast.Name) and x.id == nm and isinstance(x.ctx, (ast.Store, ast.Del)) for x in ast.walk(fd)):
                    continue
                if any(isinstance(x, (ast.Global, ast.Nonlocal)) and nm in x.names for x in ast.walk(fd)):
                    continue
                inner_params = {y.arg for x in ast.walk(fd) if isinstance(x, (ast.FunctionDef, ast.Lambda)) and x is not fd
                                for y in x.args.posonlyargs + x.args.args + x.args.kwonlyargs}
                if nm in inner_params:
                    continue

                class _Sub(ast.NodeTransformer):
                    def visit_Name(self, nd, nm=nm, d=d):
                        if nd.id == nm and isinstance(nd.ctx, ast.Load):
                            return ast.copy_location(ast.Constant(value=d.value), nd)
                        return nd
                fd.body = [_Sub().visit(b) for b in fd.body]
                n_spec += 1
            if n_spec:
                _FoldConstants().generic_visit(fd)
                ast.fix_missing_locations(fd)
    return n_spec


def normalize_module(tree):
    """in-place; returns a dict of counters (how many constructs were normalised) for the evidence"""
    repo_sigs = {}
    for nd in ast.walk(tree):
        if isinstance(nd, ast.FunctionDef):
            repo_sigs.setdefault(nd.name, _sig_of(nd))
        if isinstance(nd, ast.ClassDef):
            init = next((m for m in nd.body if isinstance(m, ast.FunctionDef) and m.name == "__init__"), None)
            if init is not None:
                repo_sigs[nd.name] = _sig_of(init)
    _collect_namedtuples(tree)
    n_ann = _annassign_to_assign(tree)
    n_lm = _list_map_to_comprehension(tree)
    n_da = _debug_raise_to_assert(tree)
    n_co = _callable_objects_to_lambdas(tree)
    n_try = _try_attribute_default(tree)
    n_dzr = _dict_zip_range(tree)
    n_star = _expand_double_star_locals(tree)
    n_cnt = _count_loops_to_while(tree)
    n_enum = _enumerate_slice_to_range(tree)
    n_unp = _unpack_generator_over_literals(tree)
    out = dict(kwargs_to_positional=_kwargs_to_positional(tree, repo_sigs), tuple_assignments_split=_split_tuple_assignments(tree),
               update_to_item=_update_to_item_assignment(tree), local_defs_to_lambdas=_local_defs_to_lambdas(tree),
               dict_zip_to_literal=_dict_zip_to_literal(tree))
    out["match_to_if"] = _match_to_if(tree)
    out["annassign"] = n_ann
    out["list_map"] = n_lm
    out["debug_raise_to_assert"] = n_da
    out["callable_objects"] = n_co
    out["beta_reduce"] = _beta_reduce(tree)
    out["try_attribute_default"] = n_try
    out["dict_zip_range"] = n_dzr
    out["records_to_locals"] = sum(_records_to_locals(f_) for f_ in ast.walk(tree) if isinstance(f_, (ast.FunctionDef, ast.AsyncFunctionDef)))
    out["double_star_locals"] = n_star
    out["count_loops"] = n_cnt
    out["enumerate_slice"] = n_enum
    out["unpack_generator"] = n_unp
    out["flag_loops_to_any"] = _flag_loops_to_any(tree)
    out["roll_then_set_first"] = _roll_then_set_first(tree)
    out["explicit_minmax"] = _explicit_minmax(tree)
    out["itemgetter_calls"] = _itemgetter_calls(tree)
    out["iter_while_to_for"] = _iter_while_to_for(tree)
    _StarLists.n = 0
    _StarLists().visit(tree)
    out["star_lists"] = _StarLists.n
    _ChainFlatten.n = 0
    _ChainFlatten().visit(tree)
    out["chain_flatten"] = _ChainFlatten.n
    ast.fix_missing_locations(tree)
    return out


def single_exit(fn, result="_result"):
    """A function whose returns are all in tail position of an if-chain (`if c: ...; return a` followed by `...; return b`) is
    rewritten with one exit: every `return e` becomes `_result = e`, the code after an always-returning `if` becomes its `else`,
    and the function ends in `return _result`.  A function that already has a single return is returned unchanged."""
    rets = [r for r in ast.walk(fn) if isinstance(r, ast.Return)]
    nested = [r for d in ast.walk(fn) if isinstance(d, (ast.FunctionDef, ast.Lambda)) and d is not fn for r in ast.walk(d) if isinstance(r, ast.Return)]
    rets = [r for r in rets if not any(r is n for n in nested)]
    if len(rets) <= 1:
        return fn
    f = _dc(fn)
    body = list(f.body)
    doc = []
    if body and isinstance(body[0], ast.Expr) and isinstance(body[0].value, ast.Constant) and isinstance(body[0].value.value, str):
        doc, body = body[:1], body[1:]
    make = lambda v: [ast.Assign(targets=[ast.Name(id=result, ctx=ast.Store())], value=v, lineno=getattr(v, "lineno", f.lineno))]
    try:
        new, terminated = _tailify(body, make)
    except _NoTail:
        return fn
    if not terminated:
        return fn
    f.body = doc + new + [ast.Return(value=ast.Name(id=result, ctx=ast.Load()))]
    ast.fix_missing_locations(f)
    _renumber(f)
    for parent in ast.walk(f):
        for child in ast.iter_child_nodes(parent):
            child._parent = parent  # type: ignore[attr-defined]
    return f
