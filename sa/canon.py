"""Canonicalisation of a function's AST before structural rules look at it.

`inline_aliases(fn)` returns a deep copy of the function in which every *alias temporary* has been substituted away:
a local name that is bound exactly once, by a plain assignment whose right-hand side is a pure, cheap expression
(names, attributes, subscripts, constants, arithmetic, comparisons, boolean operators, and str/int/float/len/bool of
such), and none of whose free names is rebound between the binding and a use.  `card = cvr_list[k]` followed by
`card.sample_num` and the direct `cvr_list[k].sample_num` thus have one canonical form, whichever way the maintainers
write it.  Reads and writes through the alias (`first = od[c.id]; first.votes = ...`) are covered: the alias and the
expression denote the same object as long as the binding of the expression's names is unchanged, which is checked.

This is a syntactic normal form, not an optimisation: nothing is executed, the original tree is not modified.
"""
from __future__ import annotations

import ast
import copy

PURE_CALLS = {"str", "int", "float", "len", "bool"}


def is_pure(e) -> bool:
    if isinstance(e, (ast.Name, ast.Constant)):
        return True
    if isinstance(e, ast.Attribute):
        return is_pure(e.value)
    if isinstance(e, ast.Subscript):
        return is_pure(e.value) and is_pure_slice(e.slice)
    if isinstance(e, ast.BinOp):
        return is_pure(e.left) and is_pure(e.right)
    if isinstance(e, ast.UnaryOp):
        return is_pure(e.operand)
    if isinstance(e, ast.Compare):
        return is_pure(e.left) and all(is_pure(c) for c in e.comparators)
    if isinstance(e, ast.BoolOp):
        return all(is_pure(v) for v in e.values)
    if isinstance(e, ast.Call):
        return isinstance(e.func, ast.Name) and e.func.id in PURE_CALLS and not e.keywords and all(is_pure(a) for a in e.args)
    if isinstance(e, ast.Tuple):
        return all(is_pure(x) for x in e.elts)
    return False


def is_pure_slice(s):
    if isinstance(s, ast.Slice):
        return all(p is None or is_pure(p) for p in (s.lower, s.upper, s.step))
    return is_pure(s)


def _names(e):
    return {n.id for n in ast.walk(e) if isinstance(n, ast.Name)}


def _bound_names(stmt):
    """names (re)bound anywhere inside a statement"""
    out = set()
    for n in ast.walk(stmt):
        if isinstance(n, ast.Name) and isinstance(n.ctx, (ast.Store, ast.Del)):
            out.add(n.id)
        elif isinstance(n, ast.arg):
            pass
    return out


def _assign_count(fn):
    cnt = {}
    for n in ast.walk(fn):
        if isinstance(n, ast.Name) and isinstance(n.ctx, (ast.Store, ast.Del)):
            cnt[n.id] = cnt.get(n.id, 0) + 1
    for a in fn.args.args + fn.args.kwonlyargs:
        cnt[a.arg] = cnt.get(a.arg, 0) + 1
    for n in ast.walk(fn):
        if isinstance(n, ast.Name) and isinstance(n.ctx, ast.Load):
            cnt["@loads:" + n.id] = cnt.get("@loads:" + n.id, 0) + 1
    return cnt


class _Subst(ast.NodeTransformer):
    def __init__(self, name, value):
        self.name, self.value = name, value
        self.n = 0

    def visit_Name(self, node):
        if node.id == self.name and isinstance(node.ctx, ast.Load):
            self.n += 1
            return copy.deepcopy(self.value)
        return node

    # do not descend into nested scopes that rebind the name as a parameter
    def visit_Lambda(self, node):
        if self.name in [a.arg for a in node.args.args]:
            return node
        return self.generic_visit(node)


def _inline_in_block(block, counts, keep):
    """one pass over a statement list; returns True if something was inlined"""
    changed = False
    i = 0
    while i < len(block):
        st = block[i]
        # recurse first
        for fld in ("body", "orelse", "finalbody"):
            sub = getattr(st, fld, None)
            if isinstance(sub, list) and sub and isinstance(sub[0], ast.stmt):
                if _inline_in_block(sub, counts, keep):
                    changed = True
        if isinstance(st, ast.Try):
            for h in st.handlers:
                if _inline_in_block(h.body, counts, keep):
                    changed = True
        if isinstance(st, ast.Assign) and len(st.targets) == 1 and isinstance(st.targets[0], ast.Name):
            name = st.targets[0].id
            if counts.get(name, 0) == 1 and name not in keep and is_pure(st.value) and not isinstance(st.value, ast.Constant) \
                    and name not in _names(st.value):
                free = _names(st.value)
                rest = block[i + 1:]
                # no free name of the value may be rebound in the remainder of the block (any depth)
                ok = True
                uses = 0
                for r in rest:
                    if _bound_names(r) & free:
                        # uses after the rebinding statement would see a different value: only safe if there are none
                        later = block[block.index(r):]
                        if any(isinstance(n, ast.Name) and n.id == name and isinstance(n.ctx, ast.Load) for q in later for n in ast.walk(q)):
                            # allow the common loop idiom: the rebinding statement is the *last* thing that mentions the free
                            # name and does not itself read the alias after rebinding (e.g. `inx += 1` at the end of a loop body)
                            reads_alias = any(isinstance(n, ast.Name) and n.id == name for n in ast.walk(r))
                            after = later[1:]
                            if reads_alias or any(isinstance(n, ast.Name) and n.id == name for q in after for n in ast.walk(q)):
                                ok = False
                        break
                if ok:
                    sub = _Subst(name, st.value)
                    trial = [sub.visit(copy.deepcopy(b)) for b in block[i + 1:]]
                    uses = sub.n
                    # every read of the alias must lie in the remainder of this block (not after an enclosing loop / branch)
                    if uses > 0 and uses == counts.get("@loads:" + name, -1):
                        block[i + 1:] = trial
                        del block[i]
                        changed = True
                        continue
        i += 1
    return changed


def inline_aliases(fn: ast.FunctionDef, keep=()) -> ast.FunctionDef:
    f = copy.deepcopy(fn)
    counts = _assign_count(f)
    # a name that is read outside the block where it is bound must stay (checked coarsely: loads before its binding line)
    for _ in range(8):
        if not _inline_in_block(f.body, counts, set(keep)):
            break
        counts = _assign_count(f)
    ast.fix_missing_locations(f)
    for parent in ast.walk(f):
        for child in ast.iter_child_nodes(parent):
            child._parent = parent  # type: ignore[attr-defined]
    return f
