"""Sign / bound reasoning for C13 (and the monotonicity obligations of C06/C08).

No numeric evaluation: a bound `a <= b` is established by rewriting b - a with
*slack substitutions* that encode the documented parameter ranges (e.g. a
quantity in (0,1) is written q/(1+q) with q > 0; the index j >= 1 is 1 + j0
with j0 >= 0) and asking sympy's assumption system whether the canonical form
(cancel / factor / expand) is non-negative.  Min/Max are handled structurally:

    Min(a,b) <= B  if  a <= B or b <= B        Max(a,b) <= B  if  a <= B and b <= B
    Max(a,b) >= B  if  a >= B or b >= B        Min(a,b) >= B  if  a >= B and b >= B

An unprovable bound is reported as such; it is never assumed.
"""
from __future__ import annotations

import sympy as sp


def _forms(e):
    yield e
    for f in (sp.together, sp.cancel, sp.factor, sp.expand):
        try:
            yield f(e)
        except Exception:
            continue
    try:
        yield sp.factor(sp.cancel(sp.together(e)))
    except Exception:
        pass


def is_nonneg(e) -> bool:
    for f in _forms(e):
        if f.is_nonnegative:
            return True
    return False


def is_pos(e) -> bool:
    for f in _forms(e):
        if f.is_positive:
            return True
    return False


def prove_le(e, B, strict=False):
    if isinstance(e, sp.Min):
        return any(prove_le(a, B, strict) for a in e.args)
    if isinstance(e, sp.Max):
        return all(prove_le(a, B, strict) for a in e.args)
    return is_pos(B - e) if strict else is_nonneg(B - e)


def prove_ge(e, B, strict=False):
    if isinstance(e, sp.Max):
        return any(prove_ge(a, B, strict) for a in e.args)
    if isinstance(e, sp.Min):
        return all(prove_ge(a, B, strict) for a in e.args)
    return is_pos(e - B) if strict else is_nonneg(e - B)


def pos(name):
    return sp.Symbol(name, positive=True)


def nonneg(name):
    return sp.Symbol(name, nonnegative=True)


def unit_open(name):
    """a quantity in (0,1)"""
    q = pos(name)
    return q / (1 + q)


def substitute(e, table, fn_rules=None):
    """Replace plain symbols by name via `table` and applied functions via
    fn_rules(name, args) -> expr or None (bottom-up)."""

    def rec(x):
        if isinstance(x, sp.Symbol):
            return table.get(x.name, x)
        if not isinstance(x, sp.Basic) or x.is_Atom:
            return x
        args = [rec(a) for a in x.args]
        undefined = isinstance(x, sp.core.function.AppliedUndef)
        if fn_rules is not None and undefined:
            r = fn_rules(x.func.__name__, args)
            if r is not None:
                return r
        return x.func(*args)

    return rec(e)
