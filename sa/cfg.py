"""E2: control flow of structured Python, as far as the rules need it.

The repository's functions are structured code (if/for/while/with/try, with
break/continue/return/raise); no construct needs a general graph.  Two queries
are provided:

* `paths(stmts)`: every syntactic path through a statement list, as a sequence
  of atomic events, with how the path leaves the list (fall / continue / break
  / return / raise).  Nested loops appear as one `('loop', node)` event whose
  body is *not* unrolled (a rule that cares about an event inside a nested loop
  inspects it separately and treats it as "may repeat").
* fold / exists-loop skeleton recognisers used by the bookkeeping rules.

`astutil.dominates_structurally` gives the (sufficient) dominance test.
"""
from __future__ import annotations

import ast
from dataclasses import dataclass

from .core import AnalysisError, norm
from .astutil import walk_local

MAX_PATHS = 20000


@dataclass
class Path:
    events: list  # (kind, node[, polarity]) kind in {'stmt','test','loop'}
    exit: str  # 'fall' | 'continue' | 'break' | 'return' | 'raise'


def test_outcomes(t):
    """short-circuit evaluations of a test: [(events, truth)], one event ("test", atom, polarity) per operand actually
    evaluated -- `a or b` is true after (a true) or (a false, b true) and false after (a false, b false)"""
    if isinstance(t, ast.BoolOp):
        stop = isinstance(t.op, ast.Or)  # the value that ends the evaluation
        done, carry = [], [[]]
        for v in t.values:
            nxt = []
            for pre in carry:
                for evs, val in test_outcomes(v):
                    (done if val == stop else nxt).append((pre + evs, val) if val == stop else pre + evs)
            carry = nxt
        return done + [(pre, not stop) for pre in carry]
    if isinstance(t, ast.UnaryOp) and isinstance(t.op, ast.Not):
        return [(evs, not val) for evs, val in test_outcomes(t.operand)]
    return [([("test", t, True)], True), ([("test", t, False)], False)]


def paths(stmts, limit=MAX_PATHS, split=False):
    """split=True: compound tests are taken apart by short-circuit evaluation (test_outcomes)"""
    out = []

    def go(lst, i, ev):
        if len(out) > limit:
            raise AnalysisError("too many paths")
        if i == len(lst):
            return [(ev, "fall")]
        st = lst[i]
        res = []
        if isinstance(st, ast.If):
            alts = [(evs, st.body if val else st.orelse) for evs, val in test_outcomes(st.test)] if split else \
                [([("test", st.test, True)], st.body), ([("test", st.test, False)], st.orelse)]
            for evs, branch in alts:
                for ev2, ex in go(branch, 0, ev + evs):
                    if ex == "fall":
                        res.extend(go(lst, i + 1, ev2))
                    else:
                        res.append((ev2, ex))
            return res
        if isinstance(st, (ast.For, ast.While)):
            return go(lst, i + 1, ev + [("loop", st)])
        if isinstance(st, ast.With):
            for ev2, ex in go(st.body, 0, ev + [("stmt", st)]):
                if ex == "fall":
                    res.extend(go(lst, i + 1, ev2))
                else:
                    res.append((ev2, ex))
            return res
        if isinstance(st, ast.Try):
            # normal path through the body, plus one path per handler entered
            # from the start of the body (coarse, sound for "must happen" rules
            # only when the rule inspects handlers itself)
            for ev2, ex in go(st.body + st.orelse + st.finalbody, 0, ev + [("stmt", st)]):
                if ex == "fall":
                    res.extend(go(lst, i + 1, ev2))
                else:
                    res.append((ev2, ex))
            for h in st.handlers:
                for ev2, ex in go(h.body + st.finalbody, 0, ev + [("stmt", st), ("handler", h)]):
                    if ex == "fall":
                        res.extend(go(lst, i + 1, ev2))
                    else:
                        res.append((ev2, ex))
            return res
        if isinstance(st, ast.Continue):
            return [(ev + [("stmt", st)], "continue")]
        if isinstance(st, ast.Break):
            return [(ev + [("stmt", st)], "break")]
        if isinstance(st, ast.Return):
            return [(ev + [("stmt", st)], "return")]
        if isinstance(st, ast.Raise):
            return [(ev + [("stmt", st)], "raise")]
        return go(lst, i + 1, ev + [("stmt", st)])

    for ev, ex in go(list(stmts), 0, []):
        out.append(Path(ev, ex))
    return out


def path_stmts(p: Path):
    return [e[1] for e in p.events if e[0] in ("stmt", "loop")]


# ---------------------------------------------------------------------------
# loop skeletons


@dataclass
class Fold:
    loop: ast.For
    acc: str
    init: ast.AST | None
    op: str  # 'max' | 'min' | 'sum' | ...
    operand: ast.AST
    update: ast.stmt
    full: bool  # iterates the whole collection, no break/continue/conditional skip
    reasons: list


def _minmax_update(st, acc):
    """acc = max(acc, v) / np.max([acc, v]) / max(v, acc): returns (op, operand) or None."""
    if not (isinstance(st, ast.Assign) and len(st.targets) == 1):
        return None
    if norm(st.targets[0]) != acc:
        return None
    v = st.value
    if not isinstance(v, ast.Call):
        return None
    fn = norm(v.func)
    op = None
    if fn in ("max", "np.max", "numpy.max", "np.maximum", "np.amax", "np.nanmax"):
        op = "max"
    elif fn in ("min", "np.min", "numpy.min", "np.minimum", "np.amin", "np.nanmin"):
        op = "min"
    if op is None:
        return None
    args = list(v.args)
    if len(args) == 1 and isinstance(args[0], (ast.List, ast.Tuple)):
        args = list(args[0].elts)
    if len(args) != 2:
        return None
    texts = [norm(a) for a in args]
    if acc not in texts:
        return None
    other = args[1 - texts.index(acc)]
    return op, other


def find_fold(loop: ast.For, acc: str, func=None):
    """Recognise `for ... in C: ...; acc = op(acc, v)` with no way to skip."""
    reasons = []
    upd = None
    for st in walk_local(loop):
        r = _minmax_update(st, acc) if isinstance(st, ast.Assign) else None
        if r:
            if upd is not None:
                reasons.append("accumulator updated more than once")
            upd = (st, r)
    if upd is None:
        return None
    st, (op, operand) = upd
    full = True
    # the update must be unconditional within the loop body
    p = getattr(st, "_parent", None)
    if p is not loop:
        # allow nesting inside `with`; anything else (if / inner loop) is conditional
        q = p
        ok = True
        while q is not loop and q is not None:
            if not isinstance(q, ast.With):
                ok = False
            q = getattr(q, "_parent", None)
        if not ok:
            full = False
            reasons.append("accumulator update is conditional / nested")
    # no break / continue at this loop's level, no return inside
    for n in walk_local(loop):
        if isinstance(n, (ast.Break, ast.Continue)):
            # belongs to this loop unless nested in an inner loop
            q = getattr(n, "_parent", None)
            inner = False
            while q is not loop and q is not None:
                if isinstance(q, (ast.For, ast.While)):
                    inner = True
                q = getattr(q, "_parent", None)
            if not inner:
                full = False
                reasons.append(f"{type(n).__name__.lower()} at line {n.lineno}")
        if isinstance(n, ast.Return):
            full = False
            reasons.append(f"return inside the loop at line {n.lineno}")
    if loop.orelse:
        pass
    # the iterated collection must not be sliced / filtered
    it = loop.iter
    if not whole_collection(it):
        full = False
        reasons.append(f"iterates {norm(it)[:60]}, not the whole collection")
    return Fold(loop, acc, None, op, operand, st, full, reasons)


def whole_collection(it):
    """x, x.items(), x.values(), x.keys(), enumerate(x), range(len(x)), list(x.items())."""
    if isinstance(it, (ast.Name, ast.Attribute)):
        return True
    if isinstance(it, ast.Call):
        fn = it.func
        if isinstance(fn, ast.Attribute) and fn.attr in ("items", "values", "keys") and not it.args:
            return whole_collection(fn.value)
        if isinstance(fn, ast.Name) and fn.id in ("enumerate", "list", "tuple", "iter") and len(it.args) == 1 \
                and not it.keywords:
            return whole_collection(it.args[0])
        if isinstance(fn, ast.Name) and fn.id == "range" and len(it.args) == 1:
            a = it.args[0]
            return isinstance(a, ast.Call) and norm(a.func) == "len" or isinstance(a, (ast.Name, ast.Attribute))
    return False


def init_before(loop, acc, func):
    """The last simple assignment `acc = <expr>` that precedes `loop` in the same
    or an enclosing statement list (the reaching initialisation)."""
    from .astutil import stmt_list_of, ancestors

    node = loop
    while node is not None and node is not func:
        try:
            lst, i = stmt_list_of(node)
        except AnalysisError:
            break
        for st in reversed(lst[:i]):
            if isinstance(st, ast.Assign) and any(norm(t) == acc for t in st.targets):
                return st
            # a conditional/loop that assigns acc in between makes the init unclear
            for n in ast.walk(st):
                if isinstance(n, ast.Assign) and any(norm(t) == acc for t in n.targets):
                    return None
        node = getattr(node, "_parent", None)
    return None
