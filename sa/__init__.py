"""Static-analysis checkers for pbstark/SHANGRLA (properties C01..C20).

Nothing in this package imports or executes the code under analysis: every
verdict is computed from `ast.parse` of the files under $VERIF_REPO (default
/repo).  See /verif/DESIGN.md.
"""
