"""Comparing a function of the repository with a specification written as Python
source in the checker: both go through the same AST->term translation (symx)
and are compared by exhaustive decision table + algebraic identity per row."""
from __future__ import annotations

import ast
import textwrap

import sympy as sp

from .core import AnalysisError, norm
from . import symx
from .symx import Tx, E, I, T, Raise, S, equivalent, prune, val_atoms, fmt_cond


def parse_func(src: str) -> ast.FunctionDef:
    tree = ast.parse(textwrap.dedent(src))
    fn = tree.body[0]
    if not isinstance(fn, ast.FunctionDef):
        raise AnalysisError("spec source is not a function")
    return fn


def term(fdef, env=None, inline=None, boolean=(), aliases=None, post=None):
    tx = Tx(env=env, inline=inline, boolean=boolean, aliases=aliases)
    tx.post = post
    body = fdef.body if isinstance(fdef, (ast.FunctionDef, ast.Lambda)) is False else fdef.body
    if isinstance(fdef, ast.Lambda):
        r = tx.expr(fdef.body)
    else:
        r = tx.block(list(fdef.body))
    if r is None:
        r = E(S("None"))
    return prune(r), tx


def spec_term(src, env=None, inline=None, boolean=(), aliases=None, post=None):
    return term(parse_func(src), env, inline, boolean, aliases, post)


def expr_term(src, env=None, inline=None, boolean=(), aliases=None, post=None):
    tx = Tx(env=env, inline=inline, boolean=boolean, aliases=aliases)
    tx.post = post
    return prune(tx.expr(ast.parse(src.strip(), mode="eval").body)), tx


def cond_term(src, env=None, inline=None, boolean=(), aliases=None):
    tx = Tx(env=env, inline=inline, boolean=boolean, aliases=aliases)
    return tx.cond(ast.parse(src.strip(), mode="eval").body)


def cond_as_val(c):
    return I(c, E(sp.Integer(1)), E(sp.Integer(0))) if c not in (True, False) else E(sp.Integer(1 if c else 0))


def compare(chk, rule, where, key, what, code_val, spec_val, node=None, constraints=(), atmost_one=(), strength="P",
            **detail):
    ok, n, cex = equivalent(code_val, spec_val, constraints, atmost_one)
    d = dict(detail)
    d["table_rows"] = n
    d["atoms"] = sorted(val_atoms(code_val) | val_atoms(spec_val))
    if not ok:
        d["counterexample"] = cex
    chk.ob(rule, where, key, ok, what, node=node, strength=strength, **d)
    chk.exhaustive = True
    return ok
