"""C04 -- RAIRE assertions, if any, are true of the CVRs (sufficiency declined)."""
from __future__ import annotations

import ast

import sympy as sp

from ..core import AnalysisError, norm
from .. import symx, spec, aud
from ..symx import Tx, E, S, fmt_cond, c_and, c_or, c_not, cond_atoms, eval_cond, rows
from ..canon import expand_locals
from ..astutil import walk_local, stores, parent, ancestors, attr_stores, dominates_structurally
from ..cfg import paths, whole_collection

RA = "shangrla/raire/raire.py"
RU = "shangrla/raire/raire_utils.py"
SI = "shangrla/raire/simp_assertions.py"

META = dict(
    text="Decided clauses (N / P by dataflow): (R1) at both creation sites an assertion becomes usable only under a dominating strict "
         "`tally_w > tally_l`, its reported tallies are assigned from those same two names, and the tallies are full sums over all "
         "CVRs / ballots of the assertion's own predicates (the NEN tallies use the very winner, loser and eliminated list handed to "
         "the constructor); (R2) every instantiation of an assertion class passes the contest *name* as identifier, the key the "
         "predicates look up in a CVR; (R3) the harvesting loop dereferences best_assertion of every frontier node, so every way a "
         "non-expandable node can enter the frontier is tied to a finite estimate or flags 'audit not possible' (incl. the initial "
         "two-candidate frontier); (R4) `[]` is returned only on the audit-not-possible flag.",
    note="NOT decided: sufficiency (every alternative elimination order is contradicted) and the exactness of 'returns empty iff "
         "impossible' -- properties of the branch-and-bound search over n! orders, out of static reach. D5 (Contest object as "
         "identifier) and D10 ([None] for two candidates) were repaired with fix: commits.",
    technique="guard-dominance + def-use rules at the creation sites, sibling agreement of constructor arguments, None-discipline obligations",
)
META["text"] += " Also (R3) a child's best_ancestor is the least-estimate ancestor at both sites that create children; (R6) bookkeeping the subsumption pass relies on: a discarded equivalent / subsumed assertion hands its rules_out to the one kept, and NEBAssertion.subsumes disposes of a ruled-out tail iff the loser outlasts the winner in it (decision table); (R7 = C14.R4) vote_for_cand, whose sums the NEN tallies are, is 1 iff the candidate stands, is ranked, and no other standing candidate is ranked before it."
META["text"] += " R6 also covers the tree vocabulary of the search: is_descendent_of (strictly longer tail ending in the ancestor's), is_suffix, and replace_descendents (every descendant removed, from the back, then the root inserted)."
META["text"] += " R6 also: before the search the frontier holds [d, c] for every candidate c other than the reported-winner argument and every d != c. R7 also borrows C14.R3 (the NEB predicates' tables)."
META["text"] += " R6 also: NENAssertion.subsumes holds iff every tail the other assertion rules out has one of this assertion's tails as a suffix (forall-exists)."
META["text"] += ' R6 also: the search ranges over the contest and winner handed in (the parameters are not re-bound, the candidate list is not edited).'
META["text"] += ' R3 also: the difficulty functions shipped with the search are finite for every strict win (inf only under an exact sign test of the margin, never under a tolerance).'
META["text"] += ' R2 also: the RAIRE Contest stores its constructor arguments unconverted. R6 also: the harvest recognises duplicates by same_as and subsumes only.'
META["text"] += " (R8, N, frame condition on arguments) the search scores assertions on the caller's ballots and leaves them as they were: every function in scope changes the objects it is handed only in the ways confirmed for it (aud.ARG_EFFECTS); references are followed through aliases, elements, attributes, loop variables, .get/.items/.values and np.asarray, resolved by the bindings that reach the use."
META["text"] += ' (R9, N) raire_utils.Contest stores its constructor arguments verbatim and nothing derived from them (a cached candidate count goes stale when the caller appends a candidate or re-uses the object, and the search then treats shorter elimination orders as complete).'


def r3_estimates(chk):
    """R3 also: the search treats an infinite estimate as 'no assertion here'.  The difficulty functions shipped with the library
    must therefore be finite for every strict win they are asked about: a path that returns inf / None (or raises) may only be
    taken under an exact sign test of the margin (`margin <= 0`, `winner <= loser`), never under a tolerance (`np.isclose`,
    `abs(m) < eps`), which declares a narrow but real win unauditable."""
    RE_ = "shangrla/raire/sample_estimator.py"
    n = 0
    for q in ("bp_estimate", "cp_estimate"):
        if not chk.idx.has_func(RE_, q):
            continue
        fn = chk.fn(RE_, q)
        problems = []
        for r in [x for x in walk_local(fn) if isinstance(x, (ast.Return, ast.Raise))]:
            special = isinstance(r, ast.Raise) or r.value is None or any(
                (isinstance(x, ast.Attribute) and x.attr in ("inf", "nan", "Inf", "infty")) or
                (isinstance(x, ast.Constant) and (x.value is None or (isinstance(x.value, str) and x.value.lower() in ("inf", "nan"))))
                for x in ast.walk(r.value))
            if not special:
                continue
            tests = [a.test for a in ancestors(r) if isinstance(a, ast.If)]
            if not tests:
                problems.append(f"line {r.lineno}: unconditional {norm(r)[:40]}")
            for t in tests:
                exact = isinstance(t, ast.Compare) and len(t.ops) == 1 and isinstance(t.ops[0], (ast.Lt, ast.LtE, ast.Gt, ast.GtE)) \
                    and not any(isinstance(x, ast.Call) for x in ast.walk(t))
                if not exact:
                    problems.append(f"line {r.lineno}: {norm(r)[:30]} under `{norm(t)[:50]}`, which is not an exact sign test")
        n += 1
        chk.ob("C04.R3", f"{RE_}:{q}", "estimate-finite-on-strict-wins", not problems,
               "the difficulty estimate is a finite number for every strict win: no inf / None / exception except under an exact sign "
               "test of the margin", node=fn, strength="N", **({"problems": problems} if problems else {}))
    chk.need("C04.R3", n, 2, "difficulty functions in raire/sample_estimator.py")


def run(chk):
    r9_contest_fields(chk)
    from .. import aud as _aud8
    _aud8.argument_effects(chk, 'C04.R8', 'shangrla/raire/raire_utils.py', "the search scores assertions on the caller's ballots and leaves them as they were", only=None)
    _aud8.argument_effects(chk, 'C04.R8', 'shangrla/raire/raire.py', "the search scores assertions on the caller's ballots and leaves them as they were", only=None)
    _aud8.argument_effects(chk, 'C04.R8', 'shangrla/raire/simp_assertions.py', "the search scores assertions on the caller's ballots and leaves them as they were", only=None)
    chk.explain("R1 tally guard and report at the NEB and NEN creation sites; R2 contest identifier kind at every instantiation; R3 None "
                "discipline of RaireNode.best_assertion; R4 `[]` only when the audit is not possible.")
    chk.trust("structured dominance (a statement inside an `if` body executes only when the test held)")
    r1(chk)
    r2(chk)
    r3(chk)
    r3_estimates(chk)
    aud.ctor_fields(chk, "C04.R2", RU, "Contest", ["name", "candidates", "winner", ("tot_ballots", "total_auditable_ballots"), ("outcome", "order")],
                    "the contest name is the key the ballots are filed under: a converted copy finds no ballot")
    r4(chk)
    r5(chk)
    r6(chk)
    # R7: the NEN tallies are sums of vote_for_cand: its table (1 iff cand stands, is ranked, and no other standing candidate is
    # ranked before it) is the generator-side rule of C14.R4
    from . import c14
    chk.borrow(c14.r4, {"C14.R4": "C04.R7"})
    chk.borrow(c14.r3, {"C14.R3": "C04.R7"})  # ... and the NEB tallies are sums of the NEB predicates' tables


def roles_raire(fn):
    """Role names of compute_raire_assertions discovered from structure (independent of the spelling of locals)."""
    r = {}
    for st in fn.body:
        if isinstance(st, ast.Assign) and isinstance(st.targets[0], ast.Name):
            v = norm(st.value)
            if v == "RaireFrontier()":
                r["frontier"] = st.targets[0].id
    # the flag: the name tested by the `if` that returns []
    for st in walk_local(fn):
        if isinstance(st, ast.If) and isinstance(st.test, ast.Name):
            if any(isinstance(x, ast.Return) and isinstance(x.value, ast.List) and not x.value.elts for x in ast.walk(st)):
                r["flag"] = st.test.id
    # the contest's ballots: the list comprehension selecting blt[contest.name]
    for st in fn.body:
        if isinstance(st, ast.Assign) and isinstance(st.targets[0], ast.Name) and isinstance(st.value, ast.ListComp) \
                and "[contest.name]" in norm(st.value.elt):
            r["ballots"] = st.targets[0].id
    # the running lower bound: the name on the right of `<node>.estimate <= NAME` in the search loop
    for st in walk_local(fn):
        if isinstance(st, ast.If) and isinstance(st.test, ast.Compare) and len(st.test.ops) == 1 and isinstance(st.test.ops[0], ast.LtE) \
                and norm(st.test.left).endswith(".estimate") and isinstance(st.test.comparators[0], ast.Name):
            r.setdefault("lowerbound", st.test.comparators[0].id)
    return r


def roles_fba(fb):
    r = {}
    for t, v, s in stores(fb):
        if isinstance(t, ast.Attribute) and t.attr == "best_assertion" and isinstance(v, ast.Name):
            r["best"] = v.id
    # the ballots parameter: second positional parameter
    ps = [a.arg for a in fb.args.args]
    r["ballots"] = ps[1] if len(ps) > 1 else "ballots"
    r["node"] = ps[3] if len(ps) > 3 else "node"
    return r


def _guard_of(node, fn):
    """innermost enclosing If whose body contains node -> (if_node) list outward"""
    out = []
    for a in ancestors(node):
        if a is fn:
            break
        if isinstance(a, ast.If):
            in_body = any(x is node for s in a.body for x in ast.walk(s))
            out.append((a, in_body))
    return out


def r1(chk):
    # ---- NEB site
    fn = chk.fn(RA, "compute_raire_assertions")
    where = f"{RA}:compute_raire_assertions"
    ctor = [c for c in ast.walk(fn) if isinstance(c, ast.Call) and norm(c.func) == "NEBAssertion"]
    chk.need("C04.R1", len(ctor), 1, "NEBAssertion creation site")
    st = ctor[0]
    while not isinstance(st, ast.stmt):
        st = parent(st)
    av = norm(st.targets[0])
    blk = parent(st)
    # the tallies: += asrn.is_vote_for_winner(r) / loser(r) in a full loop over cvrs.items()
    tw = tl = None
    tloop = None
    for l in [x for x in blk.body if isinstance(x, ast.For)]:
        for s in l.body:
            if isinstance(s, ast.AugAssign) and isinstance(s.op, ast.Add) and isinstance(s.value, ast.Call):
                f = norm(s.value.func)
                if f == f"{av}.is_vote_for_winner":
                    tw, tloop = norm(s.target), l
                if f == f"{av}.is_vote_for_loser":
                    tl = norm(s.target)
    ok_t = False
    detail = {}
    if tw and tl and tloop is not None:
        rv = norm(tloop.target.elts[1]) if isinstance(tloop.target, ast.Tuple) else norm(tloop.target)
        args_ok = all(norm(s.value.args[0]) == rv for s in tloop.body if isinstance(s, ast.AugAssign))
        inits = {norm(s.targets[0]): norm(s.value) for s in blk.body if isinstance(s, ast.Assign) and s.lineno < tloop.lineno and s.lineno > st.lineno - 1}
        esc = [x for x in walk_local(tloop) if isinstance(x, (ast.Break, ast.Continue))]
        uncond = all(parent(s) is tloop for s in tloop.body if isinstance(s, ast.AugAssign))
        ok_t = args_ok and inits.get(tw) == "0" and inits.get(tl) == "0" and norm(tloop.iter) in ("cvrs.items()", "cvrs.values()") and not esc and uncond
        detail = dict(winner_tally=tw, loser_tally=tl, iter=norm(tloop.iter))
    chk.ob("C04.R1", where, "neb-tallies-are-full-sums", ok_t,
           "the NEB tallies are sums, from 0, over all CVRs of the assertion's own is_vote_for_winner / is_vote_for_loser", node=tloop or st, **detail)
    # guard + report + publication
    pubs = [(t, v, s) for t, v, s in stores(fn) if isinstance(t, ast.Subscript) and isinstance(t.value, ast.Subscript) and norm(v) == av]
    matrix = norm(pubs[0][0].value.value) if pubs else "nebs"
    ok_g = False
    detail = {}
    if len(pubs) == 1 and tw and tl:
        g = _guard_of(pubs[0][2], fn)
        strict = [a for a, in_body in g if in_body and norm(a.test) in (f"{tw}>{tl}", f"{tl}<{tw}")]
        rep = {t.attr: norm(v) for t, v, s in stores(strict[0]) if isinstance(t, ast.Attribute) and norm(t.value) == av} if strict else {}
        ok_g = bool(strict) and rep.get("votes_for_winner") == tw and rep.get("votes_for_loser") == tl and strict[0].lineno > tloop.lineno
        detail = dict(guard=norm(strict[0].test) if strict else None, reported=rep)
    other_pubs = [norm(s)[:60] for t, v, s in stores(fn) if isinstance(t, ast.Subscript) and norm(t.value).startswith(matrix + "[") and norm(v) not in (av, "None")]
    chk.ob("C04.R1", where, "neb-guard-and-report", ok_g and not other_pubs,
           "an NEB assertion enters the matrix only under the strict guard tally_winner > tally_loser, with votes_for_winner / "
           "votes_for_loser assigned from those same tallies", node=pubs[0][2] if pubs else fn, **detail)
    # ---- NEN site
    fb = chk.fn(RU, "find_best_audit")
    rf = roles_fba(fb)
    where = f"{RU}:find_best_audit"
    ctor = [c for c in ast.walk(fb) if isinstance(c, ast.Call) and norm(c.func) == "NENAssertion"]
    chk.need("C04.R1", len(ctor), 1, "NENAssertion creation site")
    c0 = ctor[0]
    st = c0
    while not isinstance(st, ast.stmt):
        st = parent(st)
    nv = norm(st.targets[0])
    cargs = [norm(a) for a in c0.args]
    # tallies
    env = {}
    for s in ast.walk(fb):
        if isinstance(s, ast.Assign) and isinstance(s.targets[0], ast.Name):
            env.setdefault(s.targets[0].id, []).append(s)
    def tally_of(name):
        ss = env.get(name, [])
        if len(ss) != 1:
            return None
        v = ss[0].value
        if isinstance(v, ast.Call) and norm(v.func) in ("sum", "np.sum") and len(v.args) == 1 and isinstance(v.args[0], (ast.ListComp, ast.GeneratorExp)):
            elt, tgt, it, ifs = aud.single_gen(v.args[0])
            if isinstance(elt, ast.Call) and norm(elt.func) == "vote_for_cand" and not ifs and norm(it) == rf["ballots"] and len(elt.args) == 3 \
                    and norm(elt.args[2]) == norm(tgt):
                return norm(elt.args[0]), norm(elt.args[1])
        return None
    g = _guard_of(st, fb)
    strict = None
    for a, in_body in g:
        t = a.test
        if in_body and isinstance(t, ast.Compare) and len(t.ops) == 1 and isinstance(t.ops[0], (ast.Gt, ast.Lt)):
            l, r = norm(t.left), norm(t.comparators[0])
            if isinstance(t.ops[0], ast.Lt):
                l, r = r, l
            strict = (a, l, r)
    ok = False
    detail = {}
    if strict and len(cargs) == 4:
        a, wname, lname = strict
        tw_, tl_ = tally_of(wname), tally_of(lname)
        rep = {t.attr: norm(v) for t, v, s in stores(a) if isinstance(t, ast.Attribute) and norm(t.value) == nv}
        detail = dict(guard=norm(a.test), ctor_args=cargs, winner_tally=tw_, loser_tally=tl_, reported=rep)
        ok = tw_ is not None and tl_ is not None and tw_[0] == cargs[1] and tl_[0] == cargs[2] and tw_[1] == cargs[3] == tl_[1] \
            and rep.get("votes_for_winner") == wname and rep.get("votes_for_loser") == lname
        # publication: best_asrtn = nen inside the guard
        pub = [s for t, v, s in stores(a) if norm(t) == rf.get("best") and norm(v) == nv]
        ok = ok and len(pub) == 1
        # the object that is published is the one created and filled in under the very same conditions: the constructor call,
        # the two tally stores and the publication are controlled by the same tests (an object created once and re-targeted on a
        # later iteration would keep the tallies of the pair it was created for)
        if ok:
            ctl = lambda x: [(id(n_), b_) for n_, b_ in _guard_of(x, fb)]
            same_ctl = all(ctl(s_) == ctl(pub[0]) for t_, v_, s_ in stores(a)
                           if isinstance(t_, ast.Attribute) and norm(t_.value) == nv and t_.attr in ("votes_for_winner", "votes_for_loser"))
            same_ctl = same_ctl and ctl(st) == ctl(pub[0])
            retarget = [norm(s_)[:60] for t_, v_, s_ in stores(fb) if isinstance(t_, ast.Attribute) and norm(t_.value) == nv
                        and t_.attr in ("winner", "loser", "eliminated", "contest")]
            detail["same_control"] = same_ctl
            detail["identity_fields_rewritten"] = retarget
            ok = same_ctl and not retarget
    chk.ob("C04.R1", where, "nen-guard-and-report", ok,
           "an NEN assertion is created only under the strict guard tally(winner) > tally(loser); both tallies are sums over all ballots "
           "of vote_for_cand with the very (candidate, eliminated) handed to the constructor, and are what the assertion reports",
           node=st, **detail)
    # NENAssertion's predicates evaluate exactly vote_for_cand(self.winner/loser, self.eliminated, cvr[self.contest])
    for q, who in (("NENAssertion.is_vote_for_winner", "winner"), ("NENAssertion.is_vote_for_loser", "loser")):
        f = chk.fn(RU, q)
        code, _ = spec.term(f)
        want, _ = spec.expr_term(f"vote_for_cand(self.{who}, self.eliminated, cvr[self.contest]) if self.contest in cvr else 0")
        spec.compare(chk, "C04.R1", f"{RU}:{q}", "predicate=tallied-function",
                     f"re-applying the assertion counts vote_for_cand(self.{who}, self.eliminated, .) on the CVR's entry for its contest "
                     "(0 when the contest is absent)", code, want, node=f)
    init = chk.fn(RU, "NENAssertion.__init__")
    sup = [c for c in ast.walk(init) if isinstance(c, ast.Call) and norm(c.func) == "super().__init__"]
    params = [a.arg for a in init.args.args]
    ok = len(sup) == 1 and [norm(a) for a in sup[0].args] == params[1:4] and any(
        isinstance(t, ast.Attribute) and t.attr == "eliminated" and norm(v) == params[4] for t, v, s in stores(init))
    base = chk.fn(RU, "RaireAssertion.__init__")
    bp = [a.arg for a in base.args.args]
    bst = {t.attr: norm(v) for t, v, s in stores(base) if isinstance(t, ast.Attribute) and norm(t.value) == "self"}
    ok = ok and bst.get("contest") == bp[1] and bst.get("winner") == bp[2] and bst.get("loser") == bp[3]
    chk.ob("C04.R1", f"{RU}:NENAssertion.__init__", "ctor-stores-its-arguments", ok,
           "the constructors store contest identifier, winner, loser and eliminated list in the attributes the predicates read",
           node=init, strength="N")
    # ballots of the contest
    rr = roles_raire(fn)
    bl = [s for s in fn.body if isinstance(s, ast.Assign) and norm(s.targets[0]) == rr.get("ballots")]
    ok = False
    if len(bl) == 1 and isinstance(bl[0].value, ast.ListComp):
        elt, tgt, it, ifs = aud.single_gen(bl[0].value)
        b = norm(tgt.elts[1]) if isinstance(tgt, ast.Tuple) else norm(tgt)
        ok = norm(elt) == f"{b}[contest.name]" and norm(it) in ("cvrs.items()", "cvrs.values()") and len(ifs) == 1 and norm(ifs[0]) == f"contest.namein{b}"
    chk.ob("C04.R1", f"{RA}:compute_raire_assertions", "ballots=all-cvrs-with-the-contest", ok,
           "the NEN tallies range over the contest entry of every CVR that lists the contest (the same records the assertion is re-applied to)",
           node=bl[0] if bl else fn, strength="N")


def r2(chk):
    idx = chk.idx
    n = 0
    for rel in (RA, RU, SI):
        for q, f in idx.module(rel).defs.items():
            if not isinstance(f, ast.FunctionDef):
                continue
            for c in walk_local(f):
                if isinstance(c, ast.Call) and norm(c.func) in ("NEBAssertion", "NENAssertion") and c.args:
                    a0 = c.args[0]
                    kind = "?"
                    txt = norm(a0)
                    if isinstance(a0, ast.Attribute) and a0.attr == "name":
                        kind = "name"
                    elif isinstance(a0, ast.Name):
                        defs = [s for s in ast.walk(f) if isinstance(s, ast.Assign) and norm(s.targets[0]) == a0.id]
                        if len(defs) == 1 and isinstance(defs[0].value, ast.Attribute) and defs[0].value.attr == "name":
                            kind = "name"
                        elif a0.id in [p.arg for p in f.args.args]:
                            kind = "parameter:" + a0.id
                        else:
                            kind = "object-or-unknown"
                    n += 1
                    chk.ob("C04.R2", f"{rel}:{q}", "contest-identifier", kind == "name",
                           "the assertion is created with the contest's *name* as identifier -- the key its predicates look up in a CVR "
                           "(`self.contest in cvr`, `cvr[self.contest]`) -- like every sibling creation site", node=c, argument=txt, kind=kind)
                    chk.call_sites.append(f"{rel}:{q}:{norm(c)[:60]}")
    chk.need("C04.R2", n, 4, "assertion creation sites")
    # the predicates do use it as a key into the CVR
    for q in ("NEBAssertion.is_vote_for_winner", "NEBAssertion.is_vote_for_loser"):
        f = chk.fn(RU, q)
        txt = norm(f)
        ok = "self.contestincvr" in txt.replace("not", "") and "cvr[self.contest]" in txt
        chk.ob("C04.R2", f"{RU}:{q}", "identifier-is-a-cvr-key", ok, "the predicate looks the identifier up as a key of the CVR", node=f, strength="N")


def r3(chk):
    fn = chk.fn(RA, "compute_raire_assertions")
    where = f"{RA}:compute_raire_assertions"
    rr = roles_raire(fn)
    fr, flag, lb = rr.get("frontier", "frontier"), rr.get("flag", "audit_not_possible"), rr.get("lowerbound", "lowerbound")
    # the harvesting loop dereferences best_assertion unguarded
    harv = [l for l in fn.body if isinstance(l, ast.For) and norm(l.iter) == f"{fr}.nodes"]
    guarded = False
    if harv:
        nv = norm(harv[0].target)
        for i in [x for x in walk_local(harv[0]) if isinstance(x, ast.If)]:
            if f"{nv}.best_assertion" in norm(i.test) and "None" in norm(i.test):
                guarded = True
    # initial frontier: nodes created in the loop before the while; may be non-expandable
    w = [s for s in fn.body if isinstance(s, ast.While)]
    if not w:
        raise AnalysisError("compute_raire_assertions: search loop not found")
    w = w[0]
    init_inserts = [c for c in walk_local(fn) if isinstance(c, ast.Call) and norm(c.func) == f"{fr}.insert_node" and c.lineno < w.lineno]
    chk.need("C04.R3", len(init_inserts), 1, "initial frontier insertion")
    ins = init_inserts[0]
    nn = norm(ins.args[0])
    loop = next(a for a in ancestors(ins) if isinstance(a, ast.For))
    exp = [(t, v, s) for t, v, s in stores(loop) if isinstance(t, ast.Attribute) and t.attr == "expandable" and norm(t.value) == nn]
    may_be_leaf = not (len(exp) == 1 and norm(exp[0][1]) == "True")
    ok = guarded or not may_be_leaf
    detail = dict(frontier_node=nn, expandable=norm(exp[0][1]) if exp else None)
    if may_be_leaf and not guarded:
        # need: `if not newn.expandable and newn.best_assertion is None: audit_not_possible = True` in the same loop body, after find_best_audit
        flag_sets = []
        for i in [x for x in walk_local(loop) if isinstance(x, ast.If)]:
            c = Tx().cond(i.test)
            want1 = spec.cond_term(f"not {nn}.expandable and {nn}.best_assertion is None")
            want2 = spec.cond_term(f"{nn}.best_assertion is None and not {nn}.expandable")
            want3 = spec.cond_term(f"{nn}.best_assertion is None")
            if aud.cond_equiv(c, want1)[0] or aud.cond_equiv(c, want3)[0]:
                for t, v, s in stores(i):
                    if norm(t) == flag and norm(v) == "True":
                        flag_sets.append(s)
        fba = [c for c in walk_local(loop) if isinstance(c, ast.Call) and norm(c.func) == "find_best_audit" and nn in [norm(a) for a in c.args]]
        resets = [s for t, v, s in stores(fn) if norm(t) == flag and norm(v) == "False"]
        reset_ok = all(s.lineno < loop.lineno for s in resets) and len(resets) >= 1
        ok = len(flag_sets) == 1 and bool(fba) and flag_sets[0].lineno > fba[0].lineno and reset_ok
        detail.update(flag_set=bool(flag_sets), flag_resets_before_loop=reset_ok)
    chk.ob("C04.R3", where, "initial-frontier-leaf", ok,
           "a node of the initial frontier that may be a leaf (two candidates) and has no assertion sets the audit-not-possible flag "
           "(which is initialised before the loop and not reset afterwards), or the harvest guards against best_assertion being None",
           node=ins, strength="N", **detail)
    # other ways a non-expandable node enters the frontier inside the search loop: dominated by estimate <= lowerbound
    sites = []
    for s in walk_local(w):
        if isinstance(s, ast.Assign) and any(isinstance(t, ast.Attribute) and t.attr == "expandable" for t in s.targets) and norm(s.value) == "False":
            node_txt = norm(s.targets[0].value)
            g = _guard_of(s, fn)
            dom = any(in_body and norm(a.test) in (f"{node_txt}.estimate<={lb}", f"{lb}>={node_txt}.estimate") for a, in_body in g)
            sites.append((s, dom))
    for k, (s, dom) in enumerate(sites):
        chk.ob("C04.R3", where, f"leafified-node-has-finite-estimate@{k}", dom,
               "a node is turned into a leaf and re-inserted only under `node.estimate <= lowerbound` (a finite estimate, hence an assertion)",
               node=s, strength="N")
    chk.need("C04.R3", len(sites), 2, "sites turning a frontier node into a leaf")
    # find_best_audit: estimate is set only together with an assertion
    fb = chk.fn(RU, "find_best_audit")
    rf = roles_fba(fb)
    best, nodep = rf.get("best", "best_asrtn"), rf.get("node", "node")
    est = [(t, v, s) for t, v, s in stores(fb) if isinstance(t, ast.Attribute) and t.attr == "estimate" and norm(t.value) == nodep]
    ok = len(est) == 1
    if ok:
        g = _guard_of(est[0][2], fb)
        ok = any(in_body and norm(a.test) in (f"{best}!=None", f"{best}isnotNone", f"None!={best}") for a, in_body in g) and norm(est[0][1]) == f"{best}.difficulty"
    ba = [(t, v, s) for t, v, s in stores(fb) if isinstance(t, ast.Attribute) and t.attr == "best_assertion" and norm(t.value) == nodep]
    ok = ok and len(ba) == 1 and norm(ba[0][1]) == best
    chk.ob("C04.R3", f"{RU}:find_best_audit", "estimate-finite-iff-assertion", ok,
           "node.estimate is assigned only under `best_asrtn is not None` (from that assertion's difficulty), and node.best_assertion is "
           "that same assertion: finite estimate <=> assertion present", node=fb, strength="N")
    # the invariant manage_node relies on: a node's best_ancestor is the ancestor of least estimate.  It is maintained where
    # children are created (the expansion loop and perform_dive are siblings): the child's best ancestor is the parent's when that
    # exists and is at least as good as the parent itself, otherwise the parent.
    sites = []
    for rel_, q_ in ((RA, "compute_raire_assertions"), (RU, "perform_dive")):
        f_ = chk.fn(rel_, q_)
        for t, v, s0 in stores(f_):
            if isinstance(t, ast.Attribute) and t.attr == "best_ancestor":
                sites.append((rel_, q_, t, v, s0))
    for k, (rel_, q_, t, v, s0) in enumerate(sites):
        okb = False
        detail = dict(value=norm(v)[:160])
        P = norm(v.orelse) if isinstance(v, ast.IfExp) and isinstance(v.orelse, ast.Name) else None
        if P is None and isinstance(v, ast.IfExp) and isinstance(v.body, ast.Name):
            P = norm(v.body)
        if P:
            try:
                got = Tx().expr(v)
                want = Tx().expr(ast.parse(f"{P}.best_ancestor if ({P}.best_ancestor is not None and {P}.best_ancestor.estimate <= {P}.estimate) else {P}",
                                           mode="eval").body)
                okb = symx.equivalent(got, want)[0]
            except symx.Unsupported as e:
                detail["untranslated"] = str(e)
        chk.ob("C04.R3", f"{rel_}:{q_}", f"best-ancestor-is-least-estimate-ancestor@{k}", okb,
               "a child's best_ancestor is the parent's best ancestor when that exists and its estimate is <= the parent's, otherwise "
               "the parent (so best_ancestor.estimate is the least estimate among the ancestors, which manage_node compares with)",
               node=s0, strength="N", **detail)
    chk.need("C04.R3", len(sites), 2, "sites assigning a child's best_ancestor")
    # manage_node: a leaf with no way to prune it reports 'audit not possible' before any insertion
    mn = chk.fn(RU, "manage_node")
    # by paths, whatever the nesting (if/else or guard clauses): on every path that a leaf with two infinite estimates can take,
    # the result reports "audit not possible" and nothing was put into the frontier
    from ..cfg import paths as _paths
    want = c_and(c_not(spec.cond_term("newn.expandable")), spec.cond_term("newn.estimate == np.inf and newn.best_ancestor.estimate == np.inf"))
    n_scope, bad = 0, []
    for p_ in _paths([x for x in mn.body if not (isinstance(x, ast.Expr) and isinstance(x.value, ast.Constant))]):
        conds = []
        for e in p_.events:
            if e[0] == "test":
                try:
                    c = Tx().cond(e[1])
                except symx.Unsupported:
                    c = ("atom", "opaque:" + norm(e[1]))
                conds.append(c if e[2] else c_not(c))
        pc = c_and(*conds) if conds else True
        both = c_and(pc, want)
        atoms = cond_atoms(both) if both not in (True, False) else set()
        if not any(eval_cond(both, row) for row in rows(atoms)):
            continue
        # the path's tests that mention the node decide membership; paths that only differ in `log` all count
        n_scope += 1
        stm = [e[1] for e in p_.events if e[0] == "stmt"]
        inserted = [x for st_ in stm if not isinstance(st_, ast.Return) for x in ast.walk(st_) if isinstance(x, ast.Call) and isinstance(x.func, ast.Attribute)
                    and x.func.attr in ("insert_node", "replace_descendents")]
        ret = [st_ for st_ in stm if isinstance(st_, ast.Return)]
        good = p_.exit == "return" and ret and isinstance(ret[-1].value, ast.Tuple) and ret[-1].value.elts and norm(ret[-1].value.elts[0]) == "True" \
            and not inserted
        if not good:
            bad.append(f"path via {[('' if e[2] else 'not ') + norm(e[1])[:40] for e in p_.events if e[0] == 'test']}")
    ok = n_scope >= 1 and not bad
    chk.ob("C04.R3", f"{RU}:manage_node", "unprunable-leaf-reports-impossible", ok,
           "a leaf whose own estimate and best ancestor's estimate are both infinite reports 'audit not possible' before anything is "
           "inserted into the frontier", node=mn, strength="N", paths_in_scope=n_scope, problems=bad)


def r4(chk):
    fn = chk.fn(RA, "compute_raire_assertions")
    where = f"{RA}:compute_raire_assertions"
    rets = [r for r in walk_local(fn) if isinstance(r, ast.Return)]
    empties = [r for r in rets if isinstance(r.value, ast.List) and not r.value.elts]
    ok = len(empties) == 1
    if ok:
        g = _guard_of(empties[0], fn)
        ok = any(in_body and isinstance(a.test, ast.Name) and a.test.id == roles_raire(fn).get("flag") for a, in_body in g)
    others = [r for r in rets if r not in empties]
    ok2 = len(others) == 1 and isinstance(others[0].value, ast.Name) and parent(others[0]) is fn
    chk.ob("C04.R4", where, "empty-only-when-impossible", ok and ok2,
           "the empty list is returned only under the audit-not-possible flag; otherwise the assembled list of assertions is returned",
           node=empties[0] if empties else fn, strength="N", returns=[norm(r.value) for r in rets])


def r5(chk):
    """De-duplication compares like with like.  The harvest loop calls `a.same_as(b)` / `a.subsumes(b)` on frontier assertions of
    either kind, so (i) an attribute read from `other` must be defined for every class that can be passed, or be protected by a
    type test on `other`; (ii) `same_as` must require the same class (an NEB and an NEN assertion with equal winner and loser
    are different assertions: merging them drops one from the audit)."""
    idx = chk.idx
    base = chk.fn(RU, "RaireAssertion.__init__")
    base_attrs = {t.attr for t, v, s in stores(base) if isinstance(t, ast.Attribute) and norm(t.value) == "self"}
    n = 0
    for cls in ("NEBAssertion", "NENAssertion"):
        for meth in ("same_as", "subsumes"):
            q = f"{cls}.{meth}"
            if not idx.has_func(RU, q):
                continue
            fn = chk.fn(RU, q)
            other = [a.arg for a in fn.args.args][1]
            # type tests on `other`
            tests = [norm(c) for c in ast.walk(fn) if isinstance(c, (ast.Compare, ast.Call)) and
                     (f"type({other})" in norm(c) or norm(c).startswith(f"isinstance({other},")) and not (isinstance(c, ast.Call) and norm(c) == f"type({other})")]
            def is_class_test(node, klass):
                if isinstance(node, ast.Call):
                    return norm(node) == f"isinstance({other},{klass})"
                if isinstance(node, ast.Compare) and len(node.ops) == 1 and isinstance(node.ops[0], (ast.Eq, ast.Is)):
                    sides = {norm(node.left), norm(node.comparators[0])}
                    return sides == {f"type({other})", klass} or (klass == cls and sides == {f"type({other})", "type(self)"})
                return False
            same_class = any(is_class_test(c, cls) for c in ast.walk(fn) if isinstance(c, (ast.Compare, ast.Call)))
            # an early `if type(other) == <the sibling>: return False` also pins the class in a two-class hierarchy
            sibling = "NENAssertion" if cls == "NEBAssertion" else "NEBAssertion"
            early = False
            for st in fn.body:
                if isinstance(st, ast.If) and is_class_test(st.test, sibling) \
                        and len(st.body) == 1 and isinstance(st.body[0], ast.Return) and norm(st.body[0].value) == "False":
                    early = True
            foreign = sorted({x.attr for x in ast.walk(fn) if isinstance(x, ast.Attribute) and norm(x.value) == other and x.attr not in base_attrs})
            # the guard must come first: in a conjunction the type test has to be the first operand
            first_ok = True
            if meth == "same_as":
                rets = [r for r in walk_local(fn) if isinstance(r, ast.Return)]
                first_ok = len(rets) == 1 and isinstance(rets[0].value, ast.BoolOp) and isinstance(rets[0].value.op, ast.And) \
                    and is_class_test(rets[0].value.values[0], cls)
                if early:
                    first_ok = True
            n += 1
            ok_attr = not foreign or ((same_class and first_ok) or early)
            chk.ob("C04.R5", f"{RU}:{q}", "sibling-attributes-guarded", ok_attr,
                   "attributes read from the other assertion are defined for every assertion class, or the read is preceded by a test of the "
                   "other assertion's class (otherwise de-duplicating a mixed frontier raises AttributeError)", node=fn, strength="N",
                   subclass_only_attributes=foreign, type_tests=tests)
            if meth == "same_as":
                chk.ob("C04.R5", f"{RU}:{q}", "same-kind-only", (same_class and first_ok) or early,
                       "two assertions are the same only if they are of the same kind (first operand of the conjunction is the class test)",
                       node=fn, strength="N", type_tests=tests)
    chk.need("C04.R5", n, 4, "same_as / subsumes implementations")



def r6(chk):
    """Bookkeeping of what an assertion rules out.  `rules_out` (the tails of the alternative-outcome tree an assertion disposes of)
    is consulted by NENAssertion.subsumes and by the sort: when the harvest discards an assertion because an equivalent
    (`same_as`) or stronger (`subsumes`) one is kept, the branches it ruled out have to be handed to the one kept -- otherwise a
    later subsumption test sees a kept assertion that covers fewer branches than it does and may drop an assertion that is
    still needed (an elimination order is then contradicted by nothing returned)."""
    fn = chk.fn(RA, "compute_raire_assertions")
    where = f"{RA}:compute_raire_assertions"
    sites = [c for c in ast.walk(fn) if isinstance(c, ast.Call) and isinstance(c.func, ast.Attribute) and c.func.attr in ("same_as", "subsumes")
             and len(c.args) == 1]
    # what counts as "the same assertion" is decided by the assertion classes themselves (same_as: NEB and NEN never coincide,
    # C04.R5) and "stronger" by subsumes: a harvest that recognises duplicates in some other way (a dict keyed by selected fields,
    # a set of tuples) decides it anew -- and differently, e.g. for an NEB and a first-round NEN with the same pair
    kinds = {c.func.attr for c in sites}
    if kinds != {"same_as", "subsumes"}:
        chk.ob("C04.R6", where, "duplicates-by-same_as-and-subsumes", False,
               "the harvest discards an assertion only because an equivalent one (same_as) or a stronger one (subsumes) is kept",
               node=fn, strength="N", calls=sorted(kinds))
        return
    chk.need("C04.R6", len(sites), 2, "same_as / subsumes call sites in the harvest")
    for k, c in enumerate(sites):
        recv, arg = norm(c.func.value), norm(c.args[0])
        st = parent(c)
        while st is not None and not isinstance(st, ast.stmt):
            st = parent(st)
        ok = False
        detail = dict(call=norm(c))
        if isinstance(st, ast.If) and st.test is c:
            loop = next((a for a in ancestors(st) if isinstance(a, ast.For)), None)
            kept = norm(loop.target) if loop is not None else None  # the element of the list of assertions kept so far
            other = arg if kept == recv else recv
            merged = False
            for x in st.body:
                if isinstance(x, ast.Expr) and isinstance(x.value, ast.Call) and norm(x.value.func) == f"{kept}.rules_out.update" \
                        and len(x.value.args) == 1 and norm(x.value.args[0]) == f"{other}.rules_out":
                    merged = True
                if isinstance(x, ast.AugAssign) and isinstance(x.op, ast.BitOr) and norm(x.target) == f"{kept}.rules_out" \
                        and norm(x.value) == f"{other}.rules_out":
                    merged = True
            ok = kept in (recv, arg) and merged
            detail.update(kept=kept, discarded=other)
        chk.ob("C04.R6", where, f"discarded-assertion-hands-over-rules_out@{c.func.attr}", ok,
               "where an assertion is discarded in favour of an equivalent / subsuming one that is kept, the kept one's rules_out is "
               "updated with the discarded one's", node=st or fn, strength="N", **detail)


    # NEBAssertion.subsumes, per ruled-out tail: the NEB (w never eliminated before l) disposes of a tail iff the tail shows l still
    # standing after w is gone: l is in the tail and w is not, or both are and w comes first.  A tail containing neither says
    # nothing about their order, so it is *not* disposed of.
    from .c14 import iteration_term, CONT
    from ..symx import I as _I
    sub = chk.fn(RU, "NEBAssertion.subsumes")
    loops = [x for x in ast.walk(sub) if isinstance(x, ast.For) and "rules_out" in norm(x.iter)]
    ok = False
    detail = {}
    if len(loops) == 1:
        l = loops[0]
        ro = norm(l.target)
        it = iteration_term(l, Tx())
        if it is not None:
            iw, il = f"{ro}.index(self.winner)", f"{ro}.index(self.loser)"
            in_w, in_l = ("atom", f"in(self.winner,{ro})"), ("atom", f"in(self.loser,{ro})")
            disposed = c_and(in_l, c_or(c_not(in_w), c_not(("atom", f"lt({il},{iw})"))))
            want = _I(disposed, E(S(CONT)), E(sp.Integer(0)))
            # list.index returns a position >= 0, and two different candidates have different positions
            def _total(r, a, b):
                """numbers: exactly one of a < b, b < a, a == b (equality excluded here: distinct candidates)"""
                la, lb = r.get(f"lt({a},{b})"), r.get(f"lt({b},{a})")
                if la is None or lb is None:
                    return True
                return la != lb
            cons = [lambda r, iw=iw, il=il: not r.get(f"eq(-1,{iw})") and not r.get(f"eq(-1,{il})")
                    and r.get(f"lt(-1,{iw})", True) and r.get(f"lt(-1,{il})", True)
                    and not r.get(f"lt({iw},-1)") and not r.get(f"lt({il},-1)")
                    and not r.get(f"eq({il},{iw})") and not r.get(f"eq({iw},{il})") and _total(r, iw, il)]
            okk, n, cex = symx.equivalent(it, want, constraints=cons)
            after = [x for x in (parent(l).orelse if l in getattr(parent(l), "orelse", []) else parent(l).body)]
            nxt = after[after.index(l) + 1] if after.index(l) + 1 < len(after) else None
            ok = okk and isinstance(nxt, ast.Return) and norm(nxt.value) == "True" and norm(l.iter) == "other.rules_out"
            detail = dict(rows=n, counterexample=cex)
    chk.ob("C04.R6", f"{RU}:NEBAssertion.subsumes", "tail-disposed-iff-loser-outlasts-winner", ok,
           "an NEB(w, l) is said to dispose of a ruled-out tail iff l is in the tail and (w is not, or w comes before l); every tail of the "
           "other assertion is examined and True is returned only after all were", node=sub, **detail)


    # ---- the tree vocabulary of the search: "is a descendant of", "is a suffix of", and the replacement of a subtree by its root
    f1 = chk.fn(RU, "RaireNode.is_descendent_of")
    code, _ = spec.term(f1)
    p1 = f1.args.args[1].arg
    want, _ = spec.expr_term(f"False if len(self.tail) <= len({p1}.tail) else (self.tail[len(self.tail) - len({p1}.tail):] == {p1}.tail)")
    spec.compare(chk, "C04.R6", f"{RU}:RaireNode.is_descendent_of", "descendant=strictly-longer-tail-ending-in-the-ancestor's",
                 "a node descends from another iff its tail is strictly longer and ends with the other's tail", code, want, node=f1, strength="N")
    f2 = chk.fn(RU, "is_suffix")
    code, _ = spec.term(f2)
    a_, b_ = [x.arg for x in f2.args.args[:2]]
    want, _ = spec.expr_term(f"False if len({b_}) < len({a_}) else ({b_}[len({b_}) - len({a_}):] == {a_})")
    spec.compare(chk, "C04.R6", f"{RU}:is_suffix", "suffix=last-len(a)-entries-equal-a",
                 "is_suffix(a, b) iff b is at least as long as a and its last len(a) entries are a", code, want, node=f2, strength="N")
    rd = chk.fn(RU, "RaireFrontier.replace_descendents", canonical=True)
    npar = rd.args.args[1].arg
    loops = [l for l in rd.body if isinstance(l, ast.For)]
    ok = False
    detail = {}
    # canonical form: the collecting loop has become a comprehension (it only filters and appends), possibly inlined into the
    # header of the deleting loop:  for k in reversed([i for i in range(len(self.nodes)) if self.nodes[i].is_descendent_of(node)])
    if len(loops) == 1:
        delete = loops[0]
        it = delete.iter
        comp = None
        if isinstance(it, ast.Call) and norm(it.func) == "reversed" and len(it.args) == 1:
            comp = it.args[0]
            if isinstance(comp, ast.Name):
                defs = [x for x in rd.body if isinstance(x, ast.Assign) and norm(x.targets[0]) == comp.id]
                comp = defs[0].value if len(defs) == 1 and rd.body.index(defs[0]) < rd.body.index(delete) else None
        full = rec = False
        if isinstance(comp, ast.ListComp) and len(comp.generators) == 1:
            g = comp.generators[0]
            iv = norm(g.target)
            full = norm(g.iter) == "range(len(self.nodes))" and norm(comp.elt) == iv
            rec = len(g.ifs) == 1 and norm(g.ifs[0]) == f"self.nodes[{iv}].is_descendent_of({npar})"
        dv = norm(delete.target)
        dels = [x for x in walk_local(delete) if isinstance(x, ast.Delete)]
        back = comp is not None and len(dels) == 1 and [norm(t) for t in dels[0].targets] == [f"self.nodes[{dv}]"] \
            and parent(dels[0]) is delete and not [x for x in walk_local(delete) if isinstance(x, (ast.Break, ast.Continue, ast.Return))]
        ins = [x for x in rd.body if isinstance(x, ast.Expr) and isinstance(x.value, ast.Call) and norm(x.value.func) == "self.insert_node"
               and [norm(a) for a in x.value.args] == [npar]]
        after = bool(ins) and rd.body.index(ins[0]) > rd.body.index(delete)
        other_mut = [norm(x)[:60] for x in walk_local(rd) if isinstance(x, ast.Call) and isinstance(x.func, ast.Attribute)
                     and norm(x.func.value) == "self.nodes" and x.func.attr in ("remove", "pop", "clear", "insert", "append")]
        ok = full and rec and back and after and not other_mut
        detail = dict(every_position_examined=full, recorded_iff_descendant=rec, deleted_from_the_back=back, root_inserted_afterwards=after)
    chk.ob("C04.R6", f"{RU}:RaireFrontier.replace_descendents", "subtree-replaced-by-its-root", ok,
           "all frontier nodes that descend from the given node are removed (positions collected over the whole frontier, deleted from "
           "the back) and the node itself is inserted", node=rd, strength="N", **detail)


    # ---- the initial frontier: one node [d, c] for every alternative winner c (every candidate but the *reported* winner the
    # function was given) and every other candidate d, each inserted unconditionally
    fn = chk.fn(RA, "compute_raire_assertions")
    params = [a.arg for a in fn.args.args]
    wpar = params[2] if len(params) > 2 else "winner"
    wl = [x for x in fn.body if isinstance(x, ast.While)]
    ok = False
    detail = {}
    ins = [c for c in walk_local(fn) if isinstance(c, ast.Call) and isinstance(c.func, ast.Attribute) and c.func.attr == "insert_node"
           and wl and c.lineno < wl[0].lineno]
    if len(ins) == 1:
        call = ins[0]
        st = call
        while not isinstance(st, ast.stmt):
            st = parent(st)
        loops = [a for a in ancestors(st) if isinstance(a, ast.For)]
        conds = []
        n_, p_ = st, parent(st)
        while p_ is not None and p_ is not fn:
            blk = None
            for fld in ("body", "orelse"):
                b_ = getattr(p_, fld, None)
                if isinstance(b_, list) and n_ in b_:
                    blk = b_
            if blk is not None:
                for prev in blk[:blk.index(n_)]:
                    # a guard clause before us in the same block: `if T: continue`
                    if isinstance(prev, ast.If) and not prev.orelse and len(prev.body) == 1 and isinstance(prev.body[0], ast.Continue):
                        conds.append(symx.c_not(Tx().cond(prev.test)))
                    elif any(isinstance(x, (ast.Continue, ast.Break, ast.Return)) for x in ast.walk(prev)):
                        conds.append(("atom", "opaque:" + norm(prev)[:40]))
            if isinstance(p_, ast.If):
                c_ = Tx().cond(p_.test)
                conds.append(c_ if n_ in p_.body else symx.c_not(c_))
            n_, p_ = p_, parent(p_)
        if len(loops) == 2:
            inner, outer = loops
            cv, dv = norm(outer.target), norm(inner.target)
            got = symx.c_and(*conds) if conds else True
            want = spec.cond_term(f"not ({cv} == {wpar}) and not ({cv} == {dv})")
            node_arg = call.args[0] if call.args else None
            nd = None
            if isinstance(node_arg, ast.Name):
                defs = [x for x in walk_local(outer) if isinstance(x, ast.Assign) and norm(x.targets[0]) == node_arg.id]
                nd = norm(defs[0].value) if len(defs) == 1 else None
            detail = dict(inserted_iff=fmt_cond(got) if got not in (True, False) else str(got), node_built=nd)
            ok = got not in (True, False) and aud.cond_equiv(got, want)[0] and nd == f"RaireNode([{dv},{cv}])" \
                and norm(outer.iter) == "contest.candidates" and norm(inner.iter) == "contest.candidates" \
                and not [x for x in walk_local(outer) if isinstance(x, (ast.Break, ast.Return))]
    # "contest.candidates" and the winner compared with are the ones *handed in*: the parameters are not re-bound (a pruned copy of
    # the contest -- candidates nobody ranked, say -- leaves their elimination orders uncontradicted)
    cpar = params[0] if params else "contest"
    rebound = sorted({n_.id for n_ in walk_local(fn) if isinstance(n_, ast.Name) and isinstance(n_.ctx, (ast.Store, ast.Del))
                      and n_.id in (cpar, wpar)} |
                     {norm(t_)[:40] for x in walk_local(fn) if isinstance(x, (ast.Assign, ast.AugAssign))
                      for t_ in (x.targets if isinstance(x, ast.Assign) else [x.target])
                      if isinstance(t_, (ast.Attribute, ast.Subscript)) and norm(t_).startswith(f"{cpar}.candidates")} |
                     {norm(c_)[:40] for c_ in walk_local(fn) if isinstance(c_, ast.Call) and isinstance(c_.func, ast.Attribute)
                      and norm(c_.func.value) == f"{cpar}.candidates" and c_.func.attr in ("remove", "pop", "clear", "append", "extend", "insert", "sort", "reverse")})
    if rebound:
        ok = False
        detail["rebound"] = rebound
    chk.ob("C04.R6", f"{RA}:compute_raire_assertions", "initial-frontier-has-every-alternative-winner", ok,
           "before the search starts the frontier holds the node [d, c] for every candidate c other than the reported winner passed "
           "in and every candidate d other than c", node=ins[0] if ins else fn, strength="N", **detail)


    # NENAssertion.subsumes: every tail that `other` disposes of must be covered (have as a suffix) by a tail of this assertion --
    # "for all o there is an ro", not "there is a pair".  Two spellings are accepted: the filtering loop (the tails of `other` that
    # no tail of self covers are kept; the answer is that nothing is left) and all(any(..)).
    ns = chk.fn(RU, "NENAssertion.subsumes")
    other_p = ns.args.args[1].arg if len(ns.args.args) > 1 else "other"
    ok = False
    detail = {}
    rets = [r for r in walk_local(ns) if isinstance(r, ast.Return)]
    loops = [l for l in ns.body if isinstance(l, ast.For) and norm(l.iter) == "self.rules_out"]
    guard_neb = any(isinstance(st, ast.If) and "NEBAssertion" in norm(st.test) and len(st.body) == 1 and isinstance(st.body[0], ast.Return)
                    and norm(st.body[0].value) == "False" for st in ns.body)
    if len(loops) == 1:
        l = loops[0]
        ro = norm(l.target)
        filt = [st for st in l.body if isinstance(st, ast.Assign) and isinstance(st.value, ast.ListComp)]
        if len(filt) == 1 and isinstance(filt[0].targets[0], ast.Name):
            T = filt[0].targets[0].id
            lc = filt[0].value
            g = lc.generators[0] if len(lc.generators) == 1 else None
            shape = g is not None and norm(g.iter) == T and norm(lc.elt) == norm(g.target) and len(g.ifs) == 1 \
                and aud.cond_equiv(Tx().cond(g.ifs[0]), symx.c_not(Tx().cond(ast.parse(f"is_suffix({ro}, {norm(g.target)})", mode="eval").body)))[0]
            init = [st for st in ns.body if isinstance(st, ast.Assign) and norm(st.targets[0]) == T and ns.body.index(st) < ns.body.index(l)]
            init_ok = len(init) == 1 and norm(init[0].value) in (f"set({other_p}.rules_out)", f"list({other_p}.rules_out)", f"{other_p}.rules_out")
            # (leaving the loop as soon as nothing is left uncovered changes nothing: filtering the empty list gives the empty list)
            empties = (f"{T}==[]", f"len({T})==0", f"not{T}", f"[]=={T}", f"0==len({T})")
            early = [st for st in l.body if isinstance(st, ast.If) and norm(st.test) in empties and not st.orelse
                     and len(st.body) == 1 and isinstance(st.body[0], ast.Break) and l.body.index(st) > l.body.index(filt[0])]
            others = [st for st in l.body if st is not filt[0] and st not in early
                      and not (isinstance(st, ast.Assign) and isinstance(st.value, ast.Constant))]
            # the answer: nothing is left uncovered (and, for the set-initialised spelling, at least one pass was made)
            ans = False
            if len(rets) == 2:
                final = [r for r in rets if parent(r) is ns][-1]
                v_ = expand_locals(final.value, ns, stop=(T,))
                parts = list(v_.values) if isinstance(v_, ast.BoolOp) and isinstance(v_.op, ast.And) else [v_]
                flags = {norm(st.targets[0]) for st in l.body if isinstance(st, ast.Assign) and isinstance(st.value, ast.Constant)
                         and st.value.value is True}
                empt = [p_ for p_ in parts if norm(p_) in (f"{T}==[]", f"len({T})==0", f"not{T}", f"[]=={T}", f"0==len({T})")]
                rest_ = [p_ for p_ in parts if p_ not in empt]
                # every other conjunct may only be a "the loop ran" flag (set to True inside the loop, False before it)
                ans = len(empt) == 1 and all(isinstance(p_, ast.Name) and p_.id in flags for p_ in rest_)
            ok = shape and init_ok and not others and ans and not [x for x in walk_local(l) if isinstance(x, (ast.Break, ast.Continue, ast.Return))
                                                                   and not any(x is e.body[0] for e in early)]
            detail = dict(filter=norm(lc)[:120], answer=norm(rets[-1].value) if rets else None)
    elif rets:
        v = rets[-1].value
        if isinstance(v, ast.Call) and norm(v.func) == "all" and len(v.args) == 1 and isinstance(v.args[0], (ast.GeneratorExp, ast.ListComp)) \
                and len(v.args[0].generators) == 1:
            og = v.args[0].generators[0]
            inner = v.args[0].elt
            if isinstance(inner, ast.Call) and norm(inner.func) == "any" and len(inner.args) == 1 and isinstance(inner.args[0], (ast.GeneratorExp, ast.ListComp)) \
                    and len(inner.args[0].generators) == 1:
                ig = inner.args[0].generators[0]
                ok = norm(og.iter) == f"{other_p}.rules_out" and norm(ig.iter) == "self.rules_out" and not og.ifs and not ig.ifs \
                    and norm(inner.args[0].elt) == f"is_suffix({norm(ig.target)},{norm(og.target)})"
        detail = dict(answer=norm(v)[:160])
    chk.ob("C04.R6", f"{RU}:NENAssertion.subsumes", "covers-every-tail-of-the-other", ok and guard_neb,
           "an NEN assertion subsumes another only if *every* tail the other disposes of ends in a tail this one disposes of (and never "
           "an NEB assertion)", node=ns, strength="N", **detail)


def r9_contest_fields(chk):
    """The search functions take the number of candidates, the winner and the ballot total from the Contest they are handed.  Its
    constructor copies its arguments verbatim into attributes; a *derived* value stored next to them (a count of the candidates,
    a set of them, a winner index) is a second copy that nothing keeps equal to its source once the caller appends a candidate
    or re-uses the object -- and the search would then bound elimination orders by the stale copy."""
    fd = chk.idx.func(RU, "Contest.__init__")
    params = {a.arg for a in fd.args.args + fd.args.kwonlyargs} - {"self"}
    n = 0
    for nd in walk_local(fd):
        tg = nd.targets if isinstance(nd, ast.Assign) else [nd.target] if isinstance(nd, (ast.AnnAssign, ast.AugAssign)) else []
        for t in tg:
            if isinstance(t, ast.Attribute) and norm(t.value) == "self":
                n += 1
                v = getattr(nd, "value", None)
                ok = isinstance(nd, (ast.Assign, ast.AnnAssign)) and isinstance(v, ast.Name) and v.id in params
                chk.ob("C04.R9", f"{RU}:Contest.__init__", f"verbatim-field[{t.attr}]", ok,
                       "the RAIRE Contest stores its constructor arguments verbatim and nothing derived from them: the search reads "
                       "len(contest.candidates), contest.winner and contest.tot_ballots at the time it runs", node=nd, strength="N",
                       **({} if ok else {"stored": norm(nd)[:100]}))
    chk.need("C04.R9", n, 4, "attribute stores in raire_utils.Contest.__init__")
