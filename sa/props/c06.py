"""C06 -- data handed to a test lie inside the bound the test is told."""
from __future__ import annotations

import ast

import sympy as sp

from ..core import AnalysisError, norm
from .. import symx, spec, aud, sign
from ..aud import REL, W, BOOL_FLAGS
from ..symx import Tx, E, I, T, S, is_zero, c_and, c_or, c_not, fmt_cond, val_atoms, rows, eval_val, leaves
from ..astutil import walk_local, stores, parent, attr_stores, find_calls

META = dict(
    text="Bound algebra (P): the comparison bound is the same rational function 2/(2 - v/u_a) at its four sites and the "
         "assorter's own bound for polling, selected by audit type (decision table); B is decreasing in omega with "
         "B(u_a)=0 and B(-u_a) = that bound, so omega in [-u_a,u_a] gives B in [0,u]. Plumbing (N): in set_p_values the "
         "store of u into the test precedes the call and both come from one mvrs_to_data call; the style filter of the "
         "data equals `not use_style or (cvr lists the contest and (use_all or sample_num <= threshold))` on the CVR; the "
         "IRV predicates return only 0/1 so their assorters take values in {0,1/2,1} with declared bound 1.",
    note="Assumes assorter values lie in [0,u_a] (C02.R2 for plurality/super-majority, R5 here for IRV) and margin < 2u_a; "
         "that margin > 0 at run time is not decided (the library asserts it only in find_sample_size).",
    technique="AST-to-algebra identity across sibling sites + decision tables + ordering (dominance) rule",
)
META["text"] += ' (R6 = C02.R2) the plurality and super-majority assorters take values in [0, declared upper_bound], and the three places stating the super-majority bound agree.'
META["text"] += ' (R7, N) Assorter and Assertion constructors store contest, upper_bound, assorter, margin and test unconditionally from the parameters of the same name.'
META["text"] += ' (R8 = C07.R3) the threshold moves only while the contest is in progress.'
META["text"] += ' (R9 = C03.R3) every ONEAudit pool mean is the assorter total over the count of the same cards.'
META["text"] += ' R3 also borrows C09.R1: (d, u) come from mvrs_to_data of the samples handed in, so the filter of R4 is the one that decides which cards contribute.'
META["text"] += " R4: the specified filter is evaluated on the arguments as handed in (a parameter re-bound on the way is part of the code's condition); the value functions keep no state between calls."
META["text"] += ' (R10, N, frame condition on arguments) the data are computed from the records, which stay as they are: every function in scope changes the objects it is handed only in the ways confirmed for it (aud.ARG_EFFECTS); references are followed through aliases, elements, attributes, loop variables, .get/.items/.values and np.asarray, resolved by the bindings that reach the use.'
META["text"] += ' R6 also borrows C02.R7 (dispatch): make_all_assertions installs exactly what the factories build, so test.u and assorter.upper_bound were computed together from the contest as it is now.'

SPEC_U = '''
def spec(at, v, ua):
    if at in [Audit.AUDIT_TYPE.CARD_COMPARISON, Audit.AUDIT_TYPE.ONEAUDIT]:
        return 2 / (2 - v / ua)
    elif at == Audit.AUDIT_TYPE.POLLING:
        return ua
    else:
        raise NotImplementedError()
'''

RE2 = "shangrla/raire/sample_estimator.py"


def u_spec(at, v, ua):
    t, _ = spec.spec_term(SPEC_U, env={"at": E(S(at)), "v": E(S(v)), "ua": E(S(ua))})
    return t


def with_guards(val, tx):
    """Re-attach recorded raise-guards: outside the guards the function raises."""
    out = val
    for g in tx.guards:
        out = I(g, out, symx.Raise("guard"))
    return symx.prune(out)


def _stmt_pos(block, pred):
    """position of the first statement of the block satisfying pred (statement order, not line numbers: expanded helpers keep
    the line numbers of their definition)"""
    for i, s in enumerate(block):
        if pred(s):
            return i
    return len(block) + 1


def run(chk):
    from .. import aud as _aud8
    _aud8.argument_effects(chk, 'C06.R10', 'shangrla/core/Audit.py', 'the data are computed from the records, which stay as they are', only=lambda q: q.startswith('Assertion.'))
    _aud8.argument_effects(chk, 'C06.R10', 'shangrla/core/Audit.py', 'the data are computed from the records, which stay as they are', only=lambda q: q.startswith('Assorter.'))
    _aud8.argument_effects(chk, 'C06.R10', 'shangrla/core/Audit.py', 'the data are computed from the records, which stay as they are', only=lambda q: q.startswith('Contest.'))
    idx = chk.idx
    chk.explain(
        "R1 one bound, four sites (mvrs_to_data, set_margin_from_cvrs, set_all_margins_from_cvrs, raire sample_size) by "
        "decision table over the audit type + cancel. R2 range of B by sympy on the extracted form. R3 u installed before "
        "the test is called, from the same mvrs_to_data call. R4 style/threshold filter table, consulted on the CVR, with "
        "index-aligned MVR/CVR pairs in ascending order. R5 IRV predicates return literals 0/1; assorter values in "
        "{0,1/2,1}; upper_bound = u = 1 at both creation sites; no late-bound loop variables in the assorter lambdas."
    )
    chk.trust("symx translation and truth tables", "sympy.cancel / assumptions")
    chk.assume("assorter values lie in [0, upper_bound]", "0 < margin < 2*upper_bound")
    r1(chk)
    r2(chk)
    r3(chk)
    r4(chk)
    r5(chk)
    # R6: the polling data are the assorter's values; they lie in [0, upper_bound] only if the declared bound is the bound of the
    # assorter that is actually built (C02.R2: value tables within [0, upper_bound]; the three sites of the supermajority bound agree)
    from . import c02
    chk.borrow(c02.r1_r2_plurality, {"C02.R2": "C06.R6"})
    chk.borrow(c02.r3_supermajority, {"C02.R2": "C06.R6"})
    # every (re)build of a contest's assertions pairs each assorter with a test configured for *its* bound: an Assertion object kept
    # from an earlier build keeps the bound of the earlier share_to_win / candidates while its assorter follows the new ones
    chk.borrow(c02.r7_dispatch, {"C02.R7": "C06.R6"})
    # R7: the bound and the test that the rules above read off an assertion / assorter are the ones it was built with
    aud.ctor_fields(chk, "C06.R7", REL, "Assorter", ["contest", "upper_bound", "tally_pool_means"], "the declared bound is obj.upper_bound")
    aud.ctor_fields(chk, "C06.R7", REL, "Assertion", ["contest", "assorter", "margin", "test"], "u is installed in obj.test, data come from obj.assorter")
    # R8: what "within the contest's threshold" means: the threshold is the sample number of the contest's own n-th card -- it
    # moves only while the contest is still in progress (C07.R3)
    from . import c07
    f_ = c07.sampling_facts(chk)
    def _r23(c):
        c07.r2(c, f_)  # (locates the taken branch for r3)
        c07.r3(c, f_)
    chk.borrow(_r23, {"C07.R3": "C06.R8"})
    # R9: ONEAudit data stay in range only if every pool mean is a mean: numerator and denominator over the same cards (C03.R3)
    from . import c03
    chk.borrow(c03.run, {"C03.R3": "C06.R9"})
    chk.obs = [o for o in chk.obs if not (o.rule == "C06.R9" and o.key not in ("tot-and-n-over-same-cards", "pool-mean=tot/n"))]
    # R3 also: the (d, u) pair comes from mvrs_to_data *of the samples handed in* -- the filter that decides which cards contribute
    # is the one inside mvrs_to_data (R4), not a pre-selection by the caller (C09.R1)
    from . import c09
    n0 = len(chk.obs)
    chk.borrow(c09.r_set_p_values, {"C09.R1": "C06.R3"})
    chk.obs = chk.obs[:n0] + [o for o in chk.obs[n0:] if o.rule != "C06.R3" or o.key == "data-of-same-assertion"]


def r1(chk):
    idx = chk.idx
    # --- mvrs_to_data
    fn = chk.fn(REL, "Assertion.mvrs_to_data", canonical=True)
    tx = Tx()
    ret = tx.block(list(fn.body))
    if not isinstance(ret, T) or len(ret.items) != 2:
        raise AnalysisError("mvrs_to_data does not return (d, u)")
    code = with_guards(ret.items[1], tx)
    want = u_spec("self.contest.audit_type", "self.margin", "self.assorter.upper_bound")
    spec.compare(chk, "C06.R1", W("Assertion.mvrs_to_data"), "bound-by-audit-type",
                 "u == 2/(2 - margin/upper_bound) for CARD_COMPARISON/ONEAUDIT, the assorter's upper_bound for POLLING, "
                 "otherwise raise", code, want, node=fn)
    # --- set_margin_from_cvrs
    fn = chk.fn(REL, "Assertion.set_margin_from_cvrs")
    tx = Tx()
    tx.forward_stores = True  # `self.margin = m` ... `self.margin` later in the method is m (whether or not m also has a local name)
    tx.block(list(fn.body))
    got = tx.env.get("@self.test.u")
    stored_margin = tx.env.get("@self.margin")
    if isinstance(stored_margin, E):
        want = symx.map_e(want, lambda e: e.subs(S("self.margin"), stored_margin.e))
    if got is None:
        chk.ob("C06.R1", W("Assertion.set_margin_from_cvrs"), "bound-by-audit-type", False, "the method stores self.test.u", node=fn)
    else:
        code = with_guards(got, tx)
        # guards in this method: len(strata) > 1 raises as well; restrict to rows where that guard holds
        spec.compare(chk, "C06.R1", W("Assertion.set_margin_from_cvrs"), "bound-by-audit-type",
                     "self.test.u == the same function of audit type, margin and assorter bound",
                     _drop_foreign_guards(code), want, node=fn)
    # --- set_all_margins_from_cvrs (inner loop body)
    fn = chk.fn(REL, "Assertion.set_all_margins_from_cvrs")
    loops = [l for l in walk_local(fn) if isinstance(l, ast.For)]
    inner = [l for l in loops if any(isinstance(s, ast.If) for s in l.body) and "asn" in norm(l.target)]
    if not inner:
        raise AnalysisError("set_all_margins_from_cvrs: inner loop not found")
    l = inner[0]
    ak, av = [norm(e) for e in l.target.elts]
    outer = [o for o in loops if l in o.body]
    con = norm(outer[0].target.elts[1]) if outer else "con"
    tx = Tx(env={})
    tx.skip_calls = True
    tx.block(list(l.body))
    got = tx.env.get(f"@{av}.test.u")
    if got is None:
        chk.ob("C06.R1", W("Assertion.set_all_margins_from_cvrs"), "bound-by-audit-type", False,
               "the loop stores asn.test.u", node=l)
    else:
        want2 = u_spec(f"{con}.audit_type", f"{av}.margin", f"{av}.assorter.upper_bound")
        spec.compare(chk, "C06.R1", W("Assertion.set_all_margins_from_cvrs"), "bound-by-audit-type",
                     "asn.test.u == the same function of the loop contest's audit type and the loop assertion's margin/bound",
                     with_guards(got, tx), want2, node=l)
        called = [norm(e.value.func) for e in tx.effects]
        chk.ob("C06.R1", W("Assertion.set_all_margins_from_cvrs"), "margin-set-before-read",
               f"{av}.set_margin_from_cvrs" in called and _stmt_pos(l.body, lambda s: isinstance(s, ast.Expr) and isinstance(s.value, ast.Call)
                                                                    and norm(s.value.func) == f"{av}.set_margin_from_cvrs") <
               _stmt_pos(l.body, lambda s: any(isinstance(t, ast.Attribute) and norm(t) == f"{av}.test.u" for t, v, s0 in stores(s))
                         or f"{av}.margin" in norm(s)),
               "the loop assertion's margin is (re)computed before the bound is derived from it", node=l, strength="N")
    # --- raire/sample_estimator.sample_size
    fn = chk.fn(RE2, "sample_size")
    tx = Tx()
    tx.skip_calls = True
    for st in fn.body:
        if isinstance(st, ast.Assign) and len(st.targets) == 1 and isinstance(st.targets[0], ast.Name):
            try:
                tx._assign(st.targets[0], tx.expr(st.value))
            except symx.Unsupported:
                pass
    # the bound is what the helper hands to NonnegMean as u=
    ucalls = [k.value for c in ast.walk(fn) if isinstance(c, ast.Call) and norm(c.func) == "NonnegMean" for k in c.keywords if k.arg == "u"]
    got = None
    if ucalls:
        vals = [symx.prune(tx.expr(u)) for u in ucalls]
        got = vals[0] if all(symx.equivalent(vals[0], v)[0] for v in vals[1:]) else None
    ok = isinstance(got, E) and is_zero(got.e - 2 / (2 - (2 * S("mean") - 1) / S("upper_bound")))
    chk.ob("C06.R1", f"{RE2}:sample_size", "bound-sibling", ok,
           "RAIRE's sample-size helper uses u == 2/(2 - margin/upper_bound) with margin = 2*mean - 1", node=fn,
           extracted=repr(got)[:200])


def _drop_foreign_guards(v):
    """Rows guarded by atoms unrelated to the audit type (e.g. stratified audits
    are refused) are collapsed to the non-raising branch: the claim is about the
    value installed when the method returns normally."""
    if isinstance(v, I):
        atoms = symx.cond_atoms(v.c)
        if not any("audit_type" in a for a in atoms) and (isinstance(v.a, symx.Raise) or isinstance(v.b, symx.Raise)):
            return _drop_foreign_guards(v.b if isinstance(v.a, symx.Raise) else v.a)
        return I(v.c, _drop_foreign_guards(v.a), _drop_foreign_guards(v.b))
    return v


def r2(chk):
    mo = chk.fn(REL, "Assertion.make_overstatement")
    code, _ = spec.term(mo)
    if not isinstance(code, E):
        raise AnalysisError("make_overstatement is not a single algebraic return")
    om = S("overs")
    ua = sign.pos("ua")
    d = sign.pos("slack")
    B = code.e.subs({S("self.assorter.upper_bound"): ua, S("self.margin"): 2 * ua - d})
    dB = sp.diff(B, om)
    chk.ob("C06.R2", W("Assertion.make_overstatement"), "B-decreasing-in-omega", sign.is_pos(-dB),
           "dB/d(omega) < 0 whenever margin < 2 u_a", node=mo, derivative=sp.sstr(sp.simplify(dB)))
    Bu = code.e.subs(om, S("self.assorter.upper_bound"))
    chk.ob("C06.R2", W("Assertion.make_overstatement"), "B(u_a)=0", is_zero(Bu), "the largest overstatement maps to 0", node=mo)
    Bm = code.e.subs(om, -S("self.assorter.upper_bound"))
    bound = 2 / (2 - S("self.margin") / S("self.assorter.upper_bound"))
    chk.ob("C06.R2", W("Assertion.make_overstatement"), "B(-u_a)=bound", is_zero(Bm - bound),
           "the largest understatement maps to exactly the installed bound 2/(2 - v/u_a)", node=mo, value=sp.sstr(sp.cancel(Bm)))


def r3(chk):
    fn = chk.fn(REL, "Assertion.set_p_values")
    where = W("Assertion.set_p_values")
    calls = [c for c in walk_local(fn) if isinstance(c, ast.Call) and norm(c.func).endswith(".test.test")]
    chk.need("C06.R3", len(calls), 1, "call of the assertion's test in set_p_values")
    for call in calls:
        recv = norm(call.func)[: -len(".test.test")]
        st = call
        while not isinstance(st, ast.stmt):
            st = parent(st)
        blk = parent(st)
        body = blk.body
        i_call = body.index(st) if st in body else None
        ok = False
        detail = {}
        if i_call is not None:
            u_stores = [(k, s) for k, s in enumerate(body[:i_call]) if isinstance(s, ast.Assign)
                        and any(norm(t) == f"{recv}.test.u" for t in s.targets)]
            src = [(k, s) for k, s in enumerate(body[:i_call]) if isinstance(s, ast.Assign) and isinstance(s.value, ast.Call)
                   and norm(s.value.func) == f"{recv}.mvrs_to_data" and isinstance(s.targets[0], ast.Tuple)]
            if u_stores and src:
                ks, s_u = u_stores[-1]
                kd, s_d = src[-1]
                dn, un = [norm(e) for e in s_d.targets[0].elts][:2]
                detail = dict(store=norm(s_u), source=norm(s_d)[:100])
                rebound = any(norm(t) in (dn, un) for s2 in body[kd + 1:i_call] for t, v, _ in stores(s2))
                later_u = [s for s in body[i_call:] if isinstance(s, ast.Assign) and any(norm(t) == f"{recv}.test.u" for t in s.targets)]
                ok = kd < ks < i_call and norm(s_u.value) == un and norm(call.args[0]) == dn and not rebound
        chk.ob("C06.R3", where, "u-installed-before-test", ok,
               "on every path the store `asn.test.u = u` precedes `asn.test.test(d)`, with (d, u) from one mvrs_to_data call "
               "of the same assertion and no redefinition in between", node=st, strength="P", **detail)


SPEC_FILTER = "(not use_style) or (cvr_sample[i].has_contest(self.contest.id) and (use_all or (cvr_sample[i].sample_num <= self.contest.sample_threshold)))"


def r4(chk):
    aud.keeps_no_state(chk, "C06.R4", REL, ["Assertion.overstatement_assorter", "Assertion.make_overstatement", "Assorter.overstatement",
                                            "Assertion.mvrs_to_data"],
                       "a datum is B of the records handed in at the margin and bound of the moment")
    fn = chk.fn(REL, "Assertion.mvrs_to_data", canonical=True)
    where = W("Assertion.mvrs_to_data")
    tx = Tx()
    # bind the locals (margin, upper_bound, con, use_style) as the method does
    for st in fn.body:
        if isinstance(st, ast.Assign) and len(st.targets) == 1 and isinstance(st.targets[0], ast.Name):
            tx._assign(st.targets[0], tx.expr(st.value))
        if isinstance(st, ast.If):
            break
    cs = [c for c in aud.comps(fn) if any(norm(x.func).endswith("overstatement_assorter") for x in ast.walk(c.elt) if isinstance(x, ast.Call))]
    chk.need("C06.R4", len(cs), 1, "comprehension building the comparison data")
    comp = cs[0]
    elt, tgt, it, ifs = aud.single_gen(comp)
    i = norm(tgt)
    t2 = tx.child(dict(tx.env))
    cond = c_and(*[t2.cond(x) for x in ifs]) if ifs else True
    # (the specification speaks about the arguments as handed in: a parameter re-bound on the way -- `use_all = use_all or ...` --
    # is part of the code's condition, not of the specification's)
    params_ = {a.arg for a in fn.args.posonlyargs + fn.args.args + fn.args.kwonlyargs}
    want_tx = tx.child({k: v for k, v in tx.env.items() if k not in params_})
    want = want_tx.cond(ast.parse(SPEC_FILTER.replace("[i]", f"[{i}]").replace("use_style", "self.contest.use_style"), mode="eval").body)
    ok, n, cex = aud.cond_equiv(cond, want)
    chk.ob("C06.R4", where, "style-threshold-filter", ok,
           "a pair contributes iff not use_style or (the CVR lists the assertion's own contest and (use_all or its "
           "sample_num <= the contest's threshold))", node=comp, extracted=fmt_cond(cond), rows=n,
           counterexample=cex if not ok else None)
    chk.exhaustive = True
    call = [x for x in ast.walk(elt) if isinstance(x, ast.Call) and norm(x.func).endswith("overstatement_assorter")][0]
    args = [norm(a) for a in call.args]
    kw = {k.arg: norm(k.value) for k in call.keywords}
    us_node = next((k.value for k in call.keywords if k.arg == "use_style"), call.args[2] if len(call.args) > 2 else None)
    us_ok = False
    if us_node is not None:
        v = tx.child(dict(tx.env)).expr(us_node)
        us_ok = isinstance(v, E) and sp.sstr(v.e) == "self.contest.use_style"
    ok = args[:2] == [f"mvr_sample[{i}]", f"cvr_sample[{i}]"] and us_ok and elt is call
    chk.ob("C06.R4", where, "aligned-pairs", ok,
           "the datum for position i is B(mvr_sample[i], cvr_sample[i]) with the contest's use_style", node=call, args=args, kwargs=kw)
    ok = norm(it) in ("range(len(mvr_sample))", "range(len(cvr_sample))")
    chk.ob("C06.R4", where, "ascending-order", ok,
           "positions are visited in ascending order without sorting or reversal (data order = sample order)", node=comp, iter=norm(it))
    # polling branch: assorter applied to each MVR in order
    cs2 = [c for c in aud.comps(fn) if c is not comp and isinstance(c.elt, ast.Call) and norm(c.elt.func) == "self.assorter.assort"]
    ok = False
    if cs2:
        e2, t2_, it2, ifs2 = aud.single_gen(cs2[0])
        ok = norm(e2) == f"self.assorter.assort(mvr_sample[{norm(t2_)}])" and norm(it2) == "range(len(mvr_sample))" and not ifs2
    chk.ob("C06.R4", where, "polling-data", ok, "polling data are the assorter applied to every MVR in order", node=fn, strength="N")


def data_as_built(chk, rule):
    """the first component mvrs_to_data returns *is* the array of B(mvr_i, cvr_i) (comparison) resp. A(mvr_i) (polling) it built:
    the name is bound to nothing else, is not stored into, augmented or handed over as an `out=` buffer.  (C03: the reduction
    identity is about the mean of the B values themselves; a 'sanitising' transformation in between -- clipping, rounding --
    breaks it for some discrepancy.)"""
    fn = chk.fn(REL, "Assertion.mvrs_to_data", canonical=True)
    where = W("Assertion.mvrs_to_data")
    comps = [c for c in aud.comps(fn) if any(norm(x.func).endswith("overstatement_assorter") or norm(x.func) == "self.assorter.assort"
                                             for x in ast.walk(c.elt) if isinstance(x, ast.Call))]
    built = lambda e: isinstance(e, ast.Call) and norm(e.func) in ("np.array", "np.asarray", "numpy.array") and e.args \
        and any(e.args[0] is c for c in comps) and not [k for k in e.keywords if k.arg not in ("dtype",)]
    rets = [r for r in walk_local(fn) if isinstance(r, ast.Return) and r.value is not None]
    problems = []
    for r in rets:
        first = r.value.elts[0] if isinstance(r.value, ast.Tuple) and r.value.elts else r.value
        if built(first):
            continue
        if not isinstance(first, ast.Name):
            problems.append(f"returns {norm(first)[:60]}")
            continue
        nm = first.id
        for x in walk_local(fn):
            if isinstance(x, ast.Assign):
                for t in x.targets:
                    if isinstance(t, ast.Name) and t.id == nm and not built(x.value):
                        problems.append(f"line {x.lineno}: {nm} = {norm(x.value)[:60]}")
                    elif isinstance(t, ast.Subscript) and norm(t.value) == nm:
                        problems.append(f"line {x.lineno}: store into {nm}")
                    elif isinstance(t, (ast.Tuple, ast.List)) and any(isinstance(e, ast.Name) and e.id == nm for e in t.elts):
                        problems.append(f"line {x.lineno}: {nm} rebound in a tuple assignment")
            elif isinstance(x, (ast.AugAssign, ast.AnnAssign)) and isinstance(x.target, ast.Name) and x.target.id == nm \
                    and not (isinstance(x, ast.AnnAssign) and (x.value is None or built(x.value))):
                problems.append(f"line {x.lineno}: {nm} augmented / rebound")
            elif isinstance(x, ast.Call) and any(k.arg == "out" and norm(k.value) == nm for k in x.keywords):
                problems.append(f"line {x.lineno}: {nm} used as an out= buffer")
            elif isinstance(x, ast.Call) and isinstance(x.func, ast.Attribute) and norm(x.func.value) == nm \
                    and x.func.attr in ("clip", "round", "sort", "fill", "put", "resize", "itemset", "partition") and \
                    (x.func.attr in ("sort", "fill", "put", "resize", "itemset", "partition") or any(k.arg == "out" for k in x.keywords)):
                problems.append(f"line {x.lineno}: {nm}.{x.func.attr}(...) in place")
    chk.need(rule, len(comps), 2, "comprehensions building the data")
    chk.ob(rule, where, "data-returned-as-built", bool(rets) and not problems,
           "the data returned are the array of assorter values as built, position by position: not transformed, re-bound or "
           "written into on the way out", node=fn, strength="N", **({"problems": problems} if problems else {}))


def r5(chk):
    idx = chk.idx
    for q in ("CVR.rcv_lfunc_wo", "CVR.rcv_votefor_cand"):
        fn = chk.fn(REL, q)
        rets = [n for n in walk_local(fn) if isinstance(n, ast.Return)]
        vals = [norm(r.value) if r.value is not None else "None" for r in rets]
        falls_off = not isinstance(fn.body[-1], (ast.Return, ast.If, ast.Raise))
        ok = all(v in ("0", "1") for v in vals) and len(rets) >= 2 and not _may_fall_off(fn.body)
        chk.ob("C06.R5", W(q), "returns-0-or-1", ok, "the ranked-vote predicate returns only the literals 0 and 1 on every path",
               node=fn, returns=vals)
    maj = chk.fn(REL, "Assertion.make_assertions_from_json")
    lams = aud.lambdas_in(maj)
    chk.need("C06.R5", len(lams), 3, "lambdas in make_assertions_from_json")
    for k, lam in enumerate(lams):
        aud.closure_lint(chk, "C06.R5", W("Assertion.make_assertions_from_json"), maj, lam, f"lambda@{k}")
    # value sets / declared bounds
    outer = Tx()
    for k, lam in enumerate(lams):
        v, _ = aud.lambda_term(lam, outer)
        txt = norm(lam.body)
        if "rcv_votefor_cand" in txt:
            # (a - b + 1)/2 with a, b in {0,1}
            apps = sorted({sp.sstr(f) for f in _apps(v)})
            vals = set()
            if isinstance(v, E):
                fs = list(_apps(v))
                for bits in _bits(len(fs)):
                    vals.add(sp.nsimplify(v.e.subs(dict(zip(fs, bits)))))
            ok = vals and vals <= {sp.Integer(0), sp.Rational(1, 2), sp.Integer(1)} and len(fs) == 2
            chk.ob("C06.R5", W("Assertion.make_assertions_from_json"), "nen-assorter-values", bool(ok),
                   "the elimination assorter (w - l + 1)/2 over 0/1 predicates takes values in {0, 1/2, 1}", node=lam,
                   values=sorted(map(str, vals)), predicates=apps)
        elif "get_vote_for" in txt:
            lv = leaves(v)
            vals = {sp.sstr(x) for _, x in lv}
            chk.ob("C06.R5", W("Assertion.make_assertions_from_json"), "winner-func-values", vals <= {"0", "1"},
                   "the first-preference predicate returns only 0 or 1", node=lam, values=sorted(vals))
    # upper_bound and u are 1 at both creation sites
    n_sites = 0
    for call in [c for c in ast.walk(maj) if isinstance(c, ast.Call)]:
        cn = norm(call.func)
        if cn == "Assorter":
            ub = [k for k in call.keywords if k.arg == "upper_bound"]
            ok = len(ub) == 1 and norm(ub[0].value) == "1"
            chk.ob("C06.R5", W("Assertion.make_assertions_from_json"), f"assorter-upper_bound@{_site(call, maj)}", ok,
                   "the IRV assorter declares upper_bound = 1 (= max of {0,1/2,1})", node=call)
            n_sites += 1
        if cn == "NonnegMean":
            uu = [k for k in call.keywords if k.arg == "u"]
            tt = [k for k in call.keywords if k.arg == "t"]
            ok = len(uu) == 1 and norm(uu[0].value) == "1" and len(tt) == 1 and norm(tt[0].value) in ("1/2", "0.5")
            chk.ob("C06.R5", W("Assertion.make_assertions_from_json"), f"test-u-and-t@{_site(call, maj)}", ok,
                   "the test is created with u = 1 and null mean 1/2", node=call)
    chk.need("C06.R5", n_sites, 2, "Assorter creation sites for IRV")


def _site(call, fn):
    # stable site label: ordinal of the call among same-named calls in the function
    same = [c for c in ast.walk(fn) if isinstance(c, ast.Call) and norm(c.func) == norm(call.func)]
    same.sort(key=lambda c: (c.lineno, c.col_offset))
    return same.index(call)


def _may_fall_off(body):
    """True if control can reach the end of the statement list without return/raise."""
    from ..cfg import paths

    return any(p.exit == "fall" for p in paths(body))


def _apps(v):
    if isinstance(v, E):
        return [a for a in v.e.atoms(sp.core.function.AppliedUndef)]
    return []


def _bits(n):
    import itertools

    return itertools.product((0, 1), repeat=n)
