"""C02 -- assorter means exceed 1/2 exactly when the reported winners really won."""
from __future__ import annotations

import ast

import sympy as sp

from ..core import AnalysisError, norm
from .. import symx, spec, aud, sign
from ..aud import REL, W
from ..symx import Tx, E, I, T, S, is_zero, leaves, val_atoms, fmt_cond, eval_val, rows
from ..astutil import walk_local, stores, parent, find_calls, returned_names, ancestors
from ..cfg import whole_collection

META = dict(
    text="The 'iff' is a consequence of the form of each assorter, decided for all ballots: the plurality/approval lambda "
         "is (W - L + 1)/2 for the loop's own pair and contest (no late binding), one assertion per winner-loser pair; the "
         "super-majority lambda is W/(2f) on ballots with exactly one mark among the candidates and 1/2 otherwise, with "
         "the same f at the three sites; value sets {0,1/2,1} resp. {0,1/(2f),1/2} lie in [0, declared bound] (exhaustive "
         "over the finite abstract domain); margin-from-tally equals 2*mean-1 as an identity of symbolic sums for both "
         "choice functions. The tally's over-vote rule and the plurality assorter disagree on over-voted ballots: "
         "reported as open known finding K3.",
    note="P for forms/value sets/identities; N for the tally-vs-assorter validity cross-check. Marks are interpreted "
         "by truthiness via CVR.as_vote (inlined). Dict key injectivity of 'w v l' assumes candidate ids do not contain ' v '.",
    technique="lambda extraction + AST-to-term translation, finite value-set enumeration, symbolic-sum identities, closure lint",
)
META["text"] += ' (R7, N) make_all_assertions gives every contest the assertions of the factory for its own social choice function, fed with its own winners, the other candidates as losers, its share_to_win / assertion JSON and its own test configuration (one term per iteration against the dispatch table); any other choice function raises.'
META["text"] += " R6 also decides the tally's validity condition as a table (a card is tallied iff it lists the contest and rules are not enforced or it has at most n_winners marks, whatever the choice function); R5 accepts the mean as np.mean over the filtered cards or as the filtered sum over the filtered count (same filter in numerator and denominator)."
META["text"] += ' R6 also: the tally starts from zero at every call (the counter is created unconditionally before the first card is counted).'
META["text"] += ' R5 also: the CVR list reaches the mean as given (set_all_margins_from_cvrs -> set_margin_from_cvrs -> Assorter.mean hand on the list itself, not a filtered copy), and the value functions involved keep no state between calls.'
META["text"] += ' R5 also: merging repeated records builds a new vote dict (= C18.R2; placeholders share one default dict). R7 also: Contest.from_dict copies the configured entries verbatim, and the assertion factories read their options without writing into them.'
META["text"] += ' (R8, N, frame condition on arguments) tallies and assorters read the cards: every function in scope changes the objects it is handed only in the ways confirmed for it (aud.ARG_EFFECTS); references are followed through aliases, elements, attributes, loop variables, .get/.items/.values and np.asarray, resolved by the bindings that reach the use.'


def outer_tx(idx):
    as_vote = idx.func(REL, "CVR.as_vote")
    tx = Tx(inline={"CVR.as_vote": as_vote, "cls.as_vote": as_vote})
    return tx


def run(chk):
    from .. import aud as _aud8
    _aud8.argument_effects(chk, 'C02.R8', 'shangrla/core/Audit.py', 'tallies and assorters read the cards', only=lambda q: q.startswith('Assertion.'))
    _aud8.argument_effects(chk, 'C02.R8', 'shangrla/core/Audit.py', 'tallies and assorters read the cards', only=lambda q: q.startswith('Assorter.'))
    _aud8.argument_effects(chk, 'C02.R8', 'shangrla/core/Audit.py', 'tallies and assorters read the cards', only=lambda q: q.startswith('Contest.'))
    idx = chk.idx
    chk.explain(
        "R1 plurality form and pairing; R2 value sets within the declared bounds (finite enumeration), three-site agreement "
        "of the super-majority scale; R3 super-majority form and the exactly-one-mark validity rule; R4 margin from tally == "
        "2*mean - 1 (symbolic sums); R5 Assorter.mean filter; R6 tally validity rule vs assorter (sibling cross-check)."
    )
    chk.trust("symx translation + exhaustive tables", "sympy.cancel", "CVR.as_vote == int(bool(v)) (inlined from the source)")
    chk.assume("tallies are sums over the same cards of the truthiness of each candidate's mark",
               "candidate identifiers do not contain the separator ' v '")
    r1_r2_plurality(chk)
    r3_supermajority(chk)
    r4_margin(chk)
    r5_mean(chk)
    r6_tally_rule(chk)
    r6b_tally_validity(chk)
    r6c_tally_fresh(chk)
    r7_dispatch(chk)
    r7_from_dict(chk)
    r5_merge(chk)
    r_get_vote_for(chk)


def r_get_vote_for(chk):
    fn = chk.fn(REL, "CVR.get_vote_for")
    code, _ = spec.term(fn)
    want, _ = spec.expr_term("self.votes[contest_id][candidate] if (contest_id in self.votes and candidate in self.votes[contest_id]) else False")
    spec.compare(chk, "C02.R2", W("CVR.get_vote_for"), "absent-means-false",
                 "get_vote_for returns the stored mark, and False when the contest or the candidate is absent", code, want, node=fn)
    av = chk.fn(REL, "CVR.as_vote")
    code, _ = spec.term(av)
    want, _ = spec.expr_term("1 if v else 0")
    spec.compare(chk, "C02.R2", W("CVR.as_vote"), "truthiness-indicator", "as_vote(v) is 1 for a truthy mark and 0 otherwise",
                 code, want, node=av)


def r1_r2_plurality(chk):
    idx = chk.idx
    fn = chk.fn(REL, "Assertion.make_plurality_assertions")
    where = W("Assertion.make_plurality_assertions")
    lams = aud.lambdas_in(fn)
    chk.need("C02.R1", len(lams), 1, "assorter lambda in make_plurality_assertions")
    lam = lams[0]
    aud.closure_lint(chk, "C02.R1", where, fn, lam, "assort")
    # the loops
    loops = [l for l in walk_local(fn) if isinstance(l, ast.For)]
    lw = [l for l in loops if norm(l.iter) == "winner"]
    ll = [l for l in loops if norm(l.iter) == "loser"]
    ok = len(lw) == 1 and len(ll) == 1 and ll[0] in list(walk_local(lw[0])) and isinstance(lw[0].target, ast.Name) \
        and isinstance(ll[0].target, ast.Name)
    esc = [n for n in walk_local(fn) if isinstance(n, (ast.Break, ast.Continue))]
    cond_nested = ok and parent(ll[0]) is lw[0]
    chk.ob("C02.R1", where, "all-pairs", ok and not esc and cond_nested,
           "the construction visits every (winner, loser) pair: two full nested loops, no skip", node=lw[0] if lw else fn,
           escapes=[n.lineno for n in esc])
    if not ok:
        return
    wv, lv = lw[0].target.id, ll[0].target.id
    tx = outer_tx(idx)
    term, t_in = aud.lambda_term(lam, tx, arg_names=["c"])
    want_tx = outer_tx(idx)
    want = want_tx.expr(ast.parse(
        f"(CVR.as_vote(c.get_vote_for(contest.id, {wv})) - CVR.as_vote(c.get_vote_for(contest.id, {lv})) + 1) / 2", mode="eval").body)
    spec.compare(chk, "C02.R1", where, "form-(W-L+1)/2",
                 "assorter(c) == (W - L + 1)/2 with W, L the truthiness of the marks for the loop's own winner and loser in the "
                 "contest's own id", term, want, node=lam)
    # R2 value set
    vals = {sp.nsimplify(x) for _, x in leaves(term)}
    ub = _kw(_call(fn, "Assorter"), "upper_bound")
    uu = _kw(_call(fn, "NonnegMean"), "u")
    tt = _kw(_call(fn, "NonnegMean"), "t")
    ok = vals == {sp.Integer(0), sp.Rational(1, 2), sp.Integer(1)} and ub is not None and norm(ub) == "1" \
        and uu is not None and norm(uu) == "1" and tt is not None and norm(tt) in ("1/2", "0.5")
    chk.ob("C02.R2", where, "values-in-[0,upper_bound]", ok,
           "the assorter takes exactly the values {0, 1/2, 1}; declared upper_bound and the test's u are 1 = the maximum, null mean 1/2",
           node=lam, values=sorted(map(str, vals)), upper_bound=norm(ub) if ub else None, u=norm(uu) if uu else None)
    chk.exhaustive = True
    # one assertion per pair, labelled with the pair
    rn = [r for r in returned_names(fn) if isinstance(r, str)]
    dname = rn[0] if len(set(rn)) == 1 else None  # the dict of assertions is what the function returns
    sts = [(t, v, s) for t, v, s in stores(fn) if isinstance(t, ast.Subscript) and dname and norm(t.value) == dname]
    ok = False
    detail = {}
    if len(sts) == 1:
        t, v, s = sts[0]
        keyname = norm(t.slice)
        kdef = [x for x in walk_local(ll[0]) if isinstance(x, ast.Assign) and norm(x.targets[0]) == keyname]
        detail["dict_key"] = norm(kdef[0].value) if kdef else keyname
        key_ok = kdef and norm(kdef[0].value) in (f'{wv}+"v"+{lv}', f"{wv}+'v'+{lv}") or False
        # normalised text strips blanks: accept the separator " v "
        if kdef:
            kv = kdef[0].value
            key_ok = isinstance(kv, ast.BinOp) and norm(kv.left.left) == wv and norm(kv.right) == lv \
                and isinstance(kv.left.right, ast.Constant) and isinstance(kv.left.right.value, str) and kv.left.right.value.strip() != ""
        a = v
        kw = {k.arg: norm(k.value) for k in a.keywords} if isinstance(a, ast.Call) else {}
        detail["assertion_kwargs"] = {k: kw[k] for k in ("winner", "loser") if k in kw}
        ok = bool(key_ok) and isinstance(a, ast.Call) and norm(a.func) == "Assertion" and kw.get("winner") == wv \
            and kw.get("loser") == lv and parent(s) is ll[0] and (norm(a.args[0]) == "contest" if a.args else kw.get("contest") == "contest")
    chk.ob("C02.R1", where, "one-assertion-per-pair", ok,
           "each pair gets its own dict key (winner + separator + loser) and an Assertion labelled with that winner and loser "
           "for the same contest", node=sts[0][2] if sts else fn, **detail)


def _call(fn, name):
    cs = [c for c in ast.walk(fn) if isinstance(c, ast.Call) and norm(c.func) == name]
    return cs[0] if cs else None


def _kw(call, name):
    if call is None:
        return None
    for k in call.keywords:
        if k.arg == name:
            return k.value
    return None


def r3_supermajority(chk):
    idx = chk.idx
    fn = chk.fn(REL, "Assertion.make_supermajority_assertion")
    where = W("Assertion.make_supermajority_assertion")
    lams = aud.lambdas_in(fn)
    chk.need("C02.R3", len(lams), 1, "assorter lambda in make_supermajority_assertion")
    lam = lams[0]
    tx = outer_tx(idx)
    term, _ = aud.lambda_term(lam, tx, arg_names=["c"])
    f = "contest.share_to_win"
    hov_calls = [c for c in ast.walk(lam.body) if isinstance(c, ast.Call) and norm(c.func).endswith(".has_one_vote") and len(c.args) == 2]
    cands_name = norm(hov_calls[0].args[1]) if hov_calls and isinstance(hov_calls[0].args[1], ast.Name) else "cands"
    want = outer_tx(idx).expr(ast.parse(
        f"(CVR.as_vote(c.get_vote_for(contest.id, winner)) / (2 * {f})) if c.has_one_vote(contest.id, {cands_name}) else 1/2", mode="eval").body)
    spec.compare(chk, "C02.R3", where, "form-W/(2f)-or-1/2",
                 "assorter(c) == W/(2f) when the ballot has exactly one mark among the candidates, else 1/2, with f the contest's "
                 "own share_to_win and W the winner's mark", term, want, node=lam)
    # cands = losers + [winner]
    ok = False
    cdefs = [s for s in fn.body if isinstance(s, ast.Assign) and norm(s.targets[0]) == cands_name]
    apps = [c for c in walk_local(fn) if isinstance(c, ast.Call) and norm(c.func) == f"{cands_name}.append"]
    if len(cdefs) == 1:
        v = norm(cdefs[0].value)
        if v in ("loser.copy()", "list(loser)", "loser[:]") and len(apps) == 1 and norm(apps[0].args[0]) == "winner":
            ok = True
        if v in ("loser+[winner]", "[winner]+loser", "list(loser)+[winner]", "[*loser,winner]") and not apps:
            ok = True
    chk.ob("C02.R3", where, "candidates=losers+winner", ok,
           "validity is judged over all candidates of the contest: the losers plus the winner (without mutating the caller's list)",
           node=cdefs[0] if cdefs else fn)
    # three sites agree on the scale 1/(2f)
    ub = _kw(_call(fn, "Assorter"), "upper_bound")
    uu = _kw(_call(fn, "NonnegMean"), "u")
    t0 = Tx()
    sites = {}
    for nm, node in (("Assorter.upper_bound", ub), ("NonnegMean.u", uu)):
        if node is None:
            sites[nm] = None
        else:
            v = t0.expr(node)
            sites[nm] = v.e if isinstance(v, E) else None
    fs = S(f)
    ok = all(v is not None and is_zero(v - 1 / (2 * fs)) for v in sites.values())
    chk.ob("C02.R2", where, "three-sites-agree", ok,
           "the declared upper_bound, the test's u and the lambda's scale are all 1/(2*contest.share_to_win)", node=fn,
           sites={k: sp.sstr(v) if v is not None else None for k, v in sites.items()})
    # value set within [0, upper bound] for f in (0,1]
    fq = sign.unit_open("qf")  # f in (0,1); f = 1 is the closure
    vals = [sp.nsimplify(x) for _, x in leaves(term)]
    ok = True
    shown = []
    for v in vals:
        e = v.subs(fs, fq)
        shown.append(sp.sstr(v))
        if not (sign.is_nonneg(e) and sign.is_nonneg(1 / (2 * fq) - e)):
            ok = False
    tt = _kw(_call(fn, "NonnegMean"), "t")
    chk.ob("C02.R2", where, "values-in-[0,upper_bound]", ok and len(vals) >= 3 and tt is not None and norm(tt) in ("1/2", "0.5"),
           "every assorter value (0, 1/(2f), 1/2) lies in [0, 1/(2f)] for every share f in (0,1]; null mean 1/2", node=lam, values=shown)
    # has_one_vote -- on the canonical form (alias temporaries inlined), as one term:
    #   0 if the contest is absent else (1 if sum(COMP) == 1 else 0), COMP = [truthiness of the mark, 0 if the candidate is absent]
    from ..canon import inline_aliases
    hov0 = chk.fn(REL, "CVR.has_one_vote")
    hov = inline_aliases(hov0)
    cs = aud.comps(hov)
    ok = False
    detail = {}
    if len(cs) == 1:
        elt, tgt, it, ifs = aud.single_gen(cs[0])
        c = norm(tgt)
        ev = Tx().expr(elt)
        want = Tx().expr(ast.parse(f"(1 if self.votes[contest_id][{c}] else 0) if ({c} in self.votes[contest_id]) else 0", mode="eval").body)
        same, n, cex = symx.equivalent(symx.prune(ev), symx.prune(want))
        COMP = "comp:" + norm(cs[0])
        try:
            code_t, _ = spec.term(hov)
        except symx.Unsupported:
            code_t = None
        same_r = False
        if code_t is not None:
            Sm = sp.Function
            # accept np.sum / sum / numpy.sum of the comprehension
            def summed_of(v):
                apps = [a for a in v.atoms(sp.core.function.AppliedUndef) if a.func.__name__ in ("np.sum", "sum", "numpy.sum")
                        and len(a.args) == 1 and sp.sstr(a.args[0]) == COMP] if isinstance(v, sp.Basic) else []
                return apps
            leaves_ = [lf for _, lf in symx.leaves(code_t)]
            tot = None
            for a_ in cond_atoms_of(code_t):
                # (the entries are 0/1 by `same`, so counting the non-zero ones is summing them)
                if COMP in a_ and a_.startswith("eq(") and ("sum(" in a_ or "count_nonzero(" in a_):
                    tot = a_
            want_t = None
            if tot is not None:
                absent = symx.c_not(("atom", "in(contest_id,self.votes)"))
                want_t = symx.I(absent, E(sp.Integer(0)), symx.I(("atom", tot), E(sp.Integer(1)), E(sp.Integer(0))))
                same_r = symx.equivalent(code_t, symx.prune(want_t))[0] and tot.startswith("eq(1,") and tot.count("sum(") + tot.count("count_nonzero(") == 1
        detail = dict(elt=norm(elt), iter=norm(it), term=repr(code_t)[:200])
        ok = same and norm(it) == "candidates" and not ifs and same_r
    # totality on ballots lacking the contest (the property quantifies over them): no unguarded self.votes[contest_id]
    idxs = [n for n in ast.walk(hov) if isinstance(n, ast.Subscript) and norm(n.value) == "self.votes" and norm(n.slice) == "contest_id"]
    guard = None
    for st in hov.body:
        if isinstance(st, ast.If) and len(st.body) == 1 and isinstance(st.body[0], ast.Return) and not st.orelse:
            c = Tx().cond(st.test)
            if aud.cond_equiv(c, spec.cond_term("contest_id not in self.votes"))[0] and norm(st.body[0].value) in ("False", "0"):
                guard = st
    total = not idxs or (guard is not None and all(n.lineno > guard.lineno for n in idxs))
    chk.ob("C02.R3", W("CVR.has_one_vote"), "total-on-ballots-lacking-the-contest", total,
           "a ballot that does not list the contest has no valid vote in it: has_one_vote returns False before indexing the contest "
           "(so the super-majority assorter is 1/2 there, like every other assorter, instead of raising KeyError)", node=guard or hov,
           unguarded_index_expressions=len(idxs) if not total else 0)
    chk.ob("C02.R3", W("CVR.has_one_vote"), "exactly-one-mark", ok,
           "has_one_vote == (number of listed candidates with a truthy mark, absent candidates counting 0) == 1", node=hov, **detail)


def cond_atoms_of(v):
    return sorted(symx.val_atoms(v))


def r4_margin(chk):
    fn = chk.fn(REL, "Assertion.find_margin_from_tally")
    where = W("Assertion.find_margin_from_tally")
    tx = Tx()
    tx.skip_calls = True
    # `tally = tally if tally else self.contest.tally`: the tallies in force
    tx.env["tally"] = E(S("tally"))
    body = [s for s in fn.body if not (isinstance(s, ast.Assign) and norm(s.targets[0]) == "tally")]
    tx.block(body)
    got = tx.env.get("@self.margin")
    if got is None:
        chk.ob("C02.R4", where, "margin-store", False, "the method stores self.margin", node=fn)
        return
    got = symx.prune(got)
    guard_txt = " ".join(symx.fmt_cond(g) for g in tx.guards)
    chk.ob("C02.R4", where, "other-choice-functions-raise", "SOCIAL_CHOICE_FUNCTION.SUPERMAJORITY" in guard_txt,
           "choice functions other than plurality/approval/super-majority are refused (raise)", node=fn, strength="N")
    cf = "self.contest.choice_function"
    P, A_, SM = "Contest.SOCIAL_CHOICE_FUNCTION.PLURALITY", "Contest.SOCIAL_CHOICE_FUNCTION.APPROVAL", "Contest.SOCIAL_CHOICE_FUNCTION.SUPERMAJORITY"
    Tw, Tl, C = S("tally[self.winner]"), S("tally[self.loser]"), S("self.contest.cards")
    fsh = S("self.contest.share_to_win")
    n_rows = {"plurality": 0, "supermajority": 0}
    ok_p = ok_s = True
    det = {}
    for row in rows(val_atoms(got)):
        is_p = any(row.get(a) for a in row if a.startswith("eq(") and (P in a or A_ in a) and cf in a)
        # the other choice functions raise (recorded as guards by the translator): what is left is super-majority
        is_s = not is_p
        leaf = eval_val(got, row)
        if isinstance(leaf, symx.Raise) or (isinstance(leaf, sp.Symbol) and leaf.name.startswith("unbound")):
            continue
        if is_p:
            n_rows["plurality"] += 1
            # 2 * [sum (W - L + 1)/2]/C - 1 with sum W = T_w, sum L = T_l over the C cards
            oracle = 2 * ((Tw - Tl + C) / 2) / C - 1
            if not is_zero(leaf - oracle):
                ok_p = False
                det["plurality"] = {"extracted": sp.sstr(leaf), "oracle": sp.sstr(sp.cancel(oracle))}
        elif is_s:
            n_rows["supermajority"] += 1
            V = [a for a in leaf.atoms(sp.core.function.AppliedUndef) if a.func.__name__ in ("np.sum", "sum", "numpy.sum")]
            if len(set(V)) != 1:
                ok_s = False
                det["supermajority"] = {"extracted": sp.sstr(leaf), "reason": "the number of valid votes is not a single sum over the tally"}
                continue
            Vs = list(set(V))[0]
            # 2 * [T_w/(2f) + (C - V)/2]/C - 1
            oracle = 2 * (Tw / (2 * fsh) + (C - Vs) / 2) / C - 1
            if not is_zero(leaf - oracle):
                ok_s = False
                det["supermajority"] = {"extracted": sp.sstr(leaf), "oracle": sp.sstr(sp.cancel(oracle)),
                                        "residue": sp.sstr(sp.cancel(sp.together(leaf - oracle)))}
            # V must be the sum of the tally over the contest's candidates
            comp_txt = sp.sstr(Vs)
            if "tally[c]forcinself.contest.candidates" not in comp_txt.replace(" ", ""):
                ok_s = False
                det["valid_votes"] = comp_txt
    chk.ob("C02.R4", where, "plurality-margin-identity", ok_p and n_rows["plurality"] >= 1,
           "(tally[w] - tally[l])/cards == 2*mean((W-L+1)/2) - 1 over the same cards", node=fn, rows=n_rows["plurality"], **({"detail": det.get("plurality")} if not ok_p else {}))
    chk.ob("C02.R4", where, "supermajority-margin-identity", ok_s and n_rows["supermajority"] >= 1,
           "q(p/f - 1) as computed == 2*[T_w/(2f) + (cards - valid)/2]/cards - 1 with valid = sum of the tally over the candidates",
           node=fn, rows=n_rows["supermajority"], **({"detail": {k: v for k, v in det.items() if k != "plurality"}} if not ok_s else {}))


def r5_merge(chk):
    # the mean is over the records as the caller has them: merging repeated records builds a new vote dict for the merged card
    # and leaves the dicts of the records it read alone (C18.R2) -- placeholders share one default dict
    from . import c18 as _c18
    chk.borrow(_c18.run, {"C18.R2": "C02.R5"})


def r7_from_dict(chk):
    aud.from_dict_verbatim(chk, "C02.R7", REL, "Contest", "the candidates the losers are derived from are the ones configured")
    # the factories build their test from the options handed in and leave those options alone (a `setdefault` into a shared
    # default dict configures every later contest)
    aud.keeps_no_state(chk, "C02.R7", REL, ["Assertion.make_plurality_assertions", "Assertion.make_supermajority_assertion",
                                            "Assertion.make_assertions_from_json", "Assertion.make_all_assertions"],
                       "an assertion factory reads its options")


def r5_mean(chk):
    aud.keeps_no_state(chk, "C02.R5", REL, ["Assorter.mean", "Assorter.sum", "Assorter.assort", "CVR.get_vote_for", "CVR.has_one_vote", "CVR.as_vote"],
                       "the mean is recomputed from the CVRs handed in")
    mf = aud.mean_facts(chk)
    want_f = spec.cond_term("(not use_style) or c.has_contest(self.contest.id)")
    ok = mf["filter"] is not None and aud.cond_equiv(mf["filter"], want_f)[0] and mf["over_filtered"]
    chk.ob("C02.R5", W("Assorter.mean"), "mean-population", ok,
           "the mean is over exactly the cards that list the contest when use_style, all cards otherwise (numerator and denominator "
           "over the same cards)", node=mf["node"], strength="N", **mf["detail"])
    # ... of the list the caller handed in: the margin "from these CVRs" (which the tally margin equals) is taken over that very
    # list, with the style filter of the mean deciding which cards count -- not over a copy filtered on the way down
    aud.same_name_arguments(chk, "C02.R5", REL, "Assertion.set_all_margins_from_cvrs", "Assertion.set_margin_from_cvrs",
                            "the CVR list reaches the margin computation as given", strict=True)
    smc = chk.fn(REL, "Assertion.set_margin_from_cvrs")
    pars = [a.arg for a in smc.args.args]
    calls = [c for c in walk_local(smc) if isinstance(c, ast.Call) and norm(c.func) == "self.assorter.mean"]
    from ..canon import expand_locals
    ok = len(calls) == 1 and "cvr_list" in pars and calls[0].args and norm(expand_locals(calls[0].args[0], smc, stop=("cvr_list",))) == "cvr_list" \
        and not any(isinstance(x, ast.Name) and x.id == "cvr_list" and isinstance(x.ctx, (ast.Store, ast.Del)) for x in walk_local(smc))
    chk.ob("C02.R5", W("Assertion.set_margin_from_cvrs"), "mean-of-the-list-handed-in", ok,
           "the margin is 2 * (the assorter's mean over the CVR list handed in) - 1: the list is passed to Assorter.mean as given",
           node=calls[0] if calls else smc, strength="N")


def r6_tally_rule(chk):
    """Sibling cross-check of 'when does a mark count': Contest.tally vs the plurality assorter."""
    fn = chk.fn(REL, "Contest.tally")
    # does the tally discard ballots by a count of marks?
    guards = []
    for st in walk_local(fn):
        if isinstance(st, ast.If):
            t = norm(st.test)
            if "n_votes" in t and "n_winners" in t:
                guards.append(st)
    default_enforce = None
    a = fn.args
    names = [x.arg for x in a.args]
    if "enforce_rules" in names:
        i = names.index("enforce_rules") - (len(names) - len(a.defaults))
        if i >= 0:
            default_enforce = norm(a.defaults[i])
    tally_filters = bool(guards) and default_enforce == "True"
    # does the plurality assorter look at any mark other than the pair's?
    mp = chk.fn(REL, "Assertion.make_plurality_assertions")
    lam = aud.lambdas_in(mp)[0]
    calls = {norm(c.func).split(".")[-1] for c in ast.walk(lam.body) if isinstance(c, ast.Call)}
    assorter_filters = bool(calls & {"has_one_vote", "n_votes", "is_valid"})
    agree = tally_filters == assorter_filters
    chk.ob("C02.R6", W("Contest.tally"), "overvote-rule-vs-plurality-assorter", agree,
           "the tally and the plurality assorter apply the same validity rule to a ballot (either both discard over-voted "
           "ballots or neither does), so that margin-from-tally == 2*mean(assorter) - 1 on every ballot set",
           node=guards[0] if guards else fn, strength="N", tally_discards_overvotes_by_default=tally_filters,
           assorter_discards_overvotes=assorter_filters)


def r6b_tally_validity(chk):
    """When is a card tallied?  The super-majority assorter scores a card with more than one mark as invalid (has_one_vote), the
    margin-from-tally of C02.R4 uses the tally's valid votes: the tally must therefore drop over-voted cards whenever rules are
    enforced, whatever the contest's choice function -- the condition that guards the tally increment is decided as a table."""
    from ..canon import expand_locals
    fn = chk.fn(REL, "Contest.tally")
    where = W("Contest.tally")
    incs = [s0 for s0 in walk_local(fn) if isinstance(s0, ast.AugAssign) and isinstance(s0.target, ast.Subscript) and norm(s0.target.value).endswith(".tally")]
    ok = False
    detail = {}
    if len(incs) == 1:
        inc = incs[0]
        cv = norm(inc.target.value)[:-len(".tally")]
        loops = [a for a in ancestors(inc) if isinstance(a, ast.For)]
        card_loop = next((l for l in loops if norm(l.iter) == "cvr_list"), None)
        conds = []
        n_, p_ = inc, parent(inc)
        while p_ is not None and p_ is not card_loop and p_ is not fn:
            if isinstance(p_, ast.If):
                t_ = expand_locals(p_.test, fn)
                try:
                    c_ = Tx().cond(t_)
                except symx.Unsupported:
                    c_ = ("atom", "opaque:" + norm(t_)[:50])
                if norm(p_.test) != norm(inc.target.slice):  # `if candidate:` skips the empty key, not a validity rule
                    conds.append(c_ if n_ in p_.body else symx.c_not(c_))
            n_, p_ = p_, parent(p_)
        got = symx.c_and(*conds) if conds else True
        cardv = norm(card_loop.target) if card_loop is not None else "cvr"
        # the mark counter: whatever is compared with the contest's n_winners
        NV = None
        for x in ast.walk(fn):
            if isinstance(x, ast.Compare) and len(x.ops) == 1 and isinstance(x.left, ast.Name) and norm(x.comparators[0]) == f"{cv}.n_winners":
                NV = x.left.id
            if isinstance(x, ast.Compare) and len(x.ops) == 1 and isinstance(x.comparators[0], ast.Name) and norm(x.left) == f"{cv}.n_winners":
                NV = x.comparators[0].id
        ok = False
        if NV is not None:
            want = spec.cond_term(f"{cardv}.has_contest({cv}.id) and ((not enforce_rules) or ({NV} <= {cv}.n_winners))")
            detail["guard"] = fmt_cond(got) if got not in (True, False) else str(got)
            ok = card_loop is not None and got not in (True, False) and aud.cond_equiv(got, want)[0]
            # the counter counts the truthy marks of the card in this contest
            cnt = [s0 for s0 in walk_local(fn) if isinstance(s0, ast.AugAssign) and norm(s0.target) == NV]
            if len(cnt) == 1:
                lp = next((a for a in ancestors(cnt[0]) if isinstance(a, ast.For)), None)
                mv = norm(lp.target.elts[1]) if lp is not None and isinstance(lp.target, ast.Tuple) and len(lp.target.elts) == 2 else None
                ok = ok and mv is not None and norm(cnt[0].value) in (f"int(bool({mv}))", f"bool({mv})", f"CVR.as_vote({mv})")
            else:
                ok = False
    chk.ob("C02.R6", where, "over-voted-cards-dropped-whenever-rules-are-enforced", ok,
           "a card's marks are tallied iff it lists the contest and (rules are not enforced or it has at most n_winners marks), for "
           "every choice function the tally covers", node=incs[0] if incs else fn, strength="N", **detail)


def r6c_tally_fresh(chk):
    """Every call tallies from zero: each tabulated contest gets a fresh defaultdict, whatever it carried before (a re-tally after
    corrected CVRs must not add to the earlier counts)."""
    fn = chk.fn(REL, "Contest.tally")
    where = W("Contest.tally")
    sts = [(t, v, s0) for t, v, s0 in stores(fn) if isinstance(t, ast.Attribute) and t.attr == "tally"]
    ok = False
    detail = {}
    if len(sts) == 1:
        t, v, s0 = sts[0]
        conds = []
        n_, p_ = s0, parent(s0)
        loop = None
        while p_ is not None and p_ is not fn:
            if isinstance(p_, ast.If):
                conds.append((norm(p_.test)[:120], n_ in p_.body))
            if isinstance(p_, ast.For) and loop is None:
                loop = p_
            n_, p_ = p_, parent(p_)
        only_kind = len(conds) == 1 and conds[0][1] and "choice_function" in conds[0][0] and "tally" not in conds[0][0]
        fresh = norm(v) in ("defaultdict(int)", "collections.defaultdict(int)", "Counter()", "collections.Counter()")
        before_count = loop is not None and all(isinstance(x, ast.For) is False or x is loop for x in [loop])
        detail = dict(value=norm(v), under=[c_[0] for c_ in conds])
        ok = only_kind and fresh and loop is not None
    chk.ob("C02.R6", where, "tally-starts-from-zero", ok,
           "every contest that is tabulated gets a fresh zero tally on every call (the only condition on the reset is the contest's "
           "choice function)", node=sts[0][2] if sts else fn, strength="N", **detail)


SPEC_DISPATCH = '''
def spec(con):
    if con.choice_function == Contest.SOCIAL_CHOICE_FUNCTION.PLURALITY:
        return Assertion.make_plurality_assertions(contest=con, winner=con.winner, loser=list(set(con.candidates) - set(con.winner)),
                                                   test=con.test, test_kwargs=con.test_kwargs, estim=con.estim, bet=con.bet)
    elif con.choice_function == Contest.SOCIAL_CHOICE_FUNCTION.SUPERMAJORITY:
        return Assertion.make_supermajority_assertion(contest=con, winner=con.winner[0], loser=list(set(con.candidates) - set(con.winner)),
                                                      share_to_win=con.share_to_win, test=con.test, test_kwargs=con.test_kwargs,
                                                      estim=con.estim, bet=con.bet)
    elif con.choice_function == Contest.SOCIAL_CHOICE_FUNCTION.IRV:
        return Assertion.make_assertions_from_json(contest=con, candidates=con.candidates, json_assertions=con.assertion_json,
                                                   test=con.test, test_kwargs=con.test_kwargs, estim=con.estim, bet=con.bet)
    else:
        raise NotImplementedError("x")
'''


def r7_dispatch(chk):
    """Which assorters a contest gets: the factory matching its social choice function, fed with the contest's own winners, the
    other candidates as losers, its share_to_win / assertion JSON, and its own test configuration -- for every contest."""
    from ..canon import structure_continues
    from ..cfg import whole_collection
    fn = chk.fn(REL, "Assertion.make_all_assertions")
    where = W("Assertion.make_all_assertions")
    loops = [l for l in fn.body if isinstance(l, ast.For)]
    ok = False
    detail = {}
    if len(loops) == 1 and isinstance(loops[0].target, ast.Tuple) and len(loops[0].target.elts) == 2:
        l = loops[0]
        k, con = [norm(e) for e in l.target.elts]
        body = structure_continues(l.body)
        sts = [(t, v, s0) for t, v, s0 in stores(l) if isinstance(t, ast.Attribute) and t.attr == "assertions"]
        slots = {norm(t.value) for t, v, s0 in sts}
        esc = [x for x in walk_local(l) if isinstance(x, (ast.Break, ast.Return))]
        if body is not None and slots and slots <= {con, f"contests[{k}]"} and not esc:
            tx = Tx()
            tx.env[con] = E(S("con"))
            # the two spellings of the contest object, `con` and `contests[c]`, denote the same thing inside the loop
            alias = S(f"contests[{k}]")
            tx.post = lambda e, alias=alias: e.xreplace({alias: S("con")}) if alias in e.free_symbols else e
            try:
                r = tx.block(body)
                got = None
                for nm in (f"@con.assertions", f"@contests[{k}].assertions"):
                    if nm in tx.env:
                        got = tx.env[nm]
                if got is not None:
                    want, _ = spec.spec_term(SPEC_DISPATCH, env={"con": E(S("con"))})
                    got = with_guards_(got, tx)
                    okk, n, cex = symx.equivalent(symx.prune(got), symx.prune(want))
                    detail = dict(rows=n, counterexample=cex)
                    ok = okk and norm(l.iter) == "contests.items()" and whole_collection(l.iter)
            except symx.Unsupported as e:
                detail["untranslated"] = str(e)
    chk.ob("C02.R7", where, "factory-by-choice-function", ok,
           "every contest gets the assertions of the factory for its own social choice function (plurality / super-majority / IRV), "
           "built from its own winners, the other candidates as losers, its own share_to_win or assertion JSON and test "
           "configuration; any other choice function raises", node=fn, strength="N", **detail)


def with_guards_(val, tx):
    """a value that is only reached when the guards (raise-branches passed) hold: elsewhere the function raises"""
    g = symx.c_and(*tx.guards) if tx.guards else True
    if g is True:
        return val
    return symx.I(g, val, symx.Raise("NotImplementedError"))
