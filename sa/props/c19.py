"""C19 -- Dominion import reflects counted marks, adjudication and grouping faithfully."""
from __future__ import annotations

import ast

import sympy as sp

from ..core import AnalysisError, norm
from .. import symx, spec, aud
from ..symx import Tx, E, I, S, is_zero, fmt_cond
from ..canon import structure_continues
from ..astutil import walk_local, stores, parent, ancestors
from ..cfg import paths, whole_collection
from ..canon import _dc

DOM = "shangrla/formats/Dominion.py"

META = dict(
    text="By form / exhaustive tables, for every export: (R1) every path through the session loop either skips the session "
         "before any effect (include-group guard) or appends exactly one record, in file order, never sorted; (R2) id, tally pool "
         "and pooled flag are the stated functions of tabulator, batch, record number and counting group; (R3) the record versions "
         "are applied in a literal precedence list (Original, then Modified iff current data are requested) filtered by presence "
         "-- independent of the file's key order; (R4) a mark counts iff IsVote or rules are not enforced, and the per-candidate "
         "update equals 'smallest positive rank', a commutative fold on the abstract domain {absent, falsy, positive} (table); "
         "(R5) both export layouts are traversed (all contests of all cards, or the session's contests).",
    note="D9 (versions applied in the session's key order) was repaired with a fix: commit. Ranks are treated as numbers "
         "(int(x) == x); JSON parsing itself is trusted.",
    technique="structured-path rule, literal-precedence-list rule, exhaustive decision table of the mark-update code",
)
META["text"] += ' (R6, N) read_cvrs_directory hands each of its options to the parameter of read_cvrs with the same name and concatenates the records of every export file in sorted order.'
META["text"] += " R4 refutes grouping a candidate's marks with itertools.groupby over unsorted marks."
META["text"] += " R4 also: the mark loop runs over the contest's marks themselves. R6: strict hand-over (the callee gets the caller's own include_groups / pool_groups)."
META["text"] += ' (R7, N, frame condition on arguments) an import reads its options: every function in scope changes the objects it is handed only in the ways confirmed for it (aud.ARG_EFFECTS); references are followed through aliases, elements, attributes, loop variables, .get/.items/.values and np.asarray, resolved by the bindings that reach the use.'

SPEC_MARK = '''
def spec(present, old, rank):
    if present:
        if rank:
            return min(old, rank) if old else rank
        else:
            return old
    else:
        return rank
'''


def run(chk):
    from .. import aud as _aud8
    _aud8.argument_effects(chk, 'C19.R7', 'shangrla/formats/Dominion.py', 'an import reads its options', only=None)
    chk.explain("R1 one record per included session in file order (paths); R2 identifier / tally pool / pooled flag forms; R3 literal "
                "precedence list filtered by presence; R4 mark filter and smallest-positive-rank update table; R5 both layouts.")
    chk.trust("symx translation and exhaustive tables", "min() of two numbers is commutative and associative")
    fn = chk.fn(DOM, "Dominion.read_cvrs", canonical=True)
    where = f"{DOM}:Dominion.read_cvrs"
    loops = [l for l in walk_local(fn) if isinstance(l, ast.For) and "Sessions" in norm(l.iter)]
    if len(loops) != 1:
        raise AnalysisError("read_cvrs: loop over Sessions not found")
    L = loops[0]
    c = norm(L.target)
    rets_ = [r for r in walk_local(fn) if isinstance(r, ast.Return) and isinstance(r.value, ast.Name)]
    OUT = rets_[0].value.id if rets_ else "cvr_list"
    ctor = [x.args[0] for x in walk_local(L) if isinstance(x, ast.Call) and norm(x.func) == f"{OUT}.append" and x.args
            and isinstance(x.args[0], ast.Call) and norm(x.args[0].func) == "CVR"]
    kw0 = {k.arg: k.value for k in ctor[0].keywords} if ctor else {}
    VOTES = kw0["votes"].id if isinstance(kw0.get("votes"), ast.Name) else "votes"
    # the record id: the local that is initialised from the session's RecordId
    RID = next((norm(s0.targets[0]) for s0 in L.body if isinstance(s0, ast.Assign) and isinstance(s0.targets[0], ast.Name)
                and norm(s0.value) in (f"{c}['RecordId']",)), "record_id")
    cst0 = [(t, v, s0) for t, v, s0 in stores(L) if isinstance(t, ast.Subscript) and norm(t.value) == VOTES and isinstance(v, ast.Name)]
    CV = cst0[0][1].id if len(cst0) == 1 else "contest_votes"
    # ---- R1
    # the loop ranges over the "Sessions" of the parsed JSON document (whatever the local holding it is called)
    ok_iter = isinstance(L.iter, ast.Subscript) and isinstance(L.iter.value, ast.Name) and isinstance(L.iter.slice, ast.Constant) \
        and L.iter.slice.value == "Sessions" and any(
            isinstance(s0, ast.Assign) and norm(s0.targets[0]) == L.iter.value.id and norm(s0.value).startswith("json.load(") for s0 in ast.walk(fn))
    ps = paths(L.body)
    bad = []
    n_app = n_skip = 0
    for p in ps:
        apps = [s for s in (e[1] for e in p.events if e[0] == "stmt") if isinstance(s, ast.Expr) and isinstance(s.value, ast.Call)
                and norm(s.value.func) == f"{OUT}.append"]
        if p.exit == "continue":
            n_skip += 1
            if apps:
                bad.append("append before continue")
            # the only test on a skipping path must be the include-group guard
        elif p.exit == "fall":
            n_app += 1
            if len(apps) != 1:
                bad.append(f"{len(apps)} appends on a completing path")
        else:
            bad.append(f"path leaves the loop body by {p.exit}")
    nested_apps = [x for l2 in walk_local(L) if isinstance(l2, (ast.For, ast.While)) and l2 is not L for x in ast.walk(l2)
                   if isinstance(x, ast.Call) and norm(x.func) == f"{OUT}.append"]
    chk.ob("C19.R1", where, "one-record-per-session", ok_iter and not bad and not nested_apps and n_app >= 1,
           "every path through the session loop either skips the session before any append or appends exactly one record", node=L,
           paths=len(ps), completing=n_app, skipping=n_skip, problems=bad)
    guards = [s for s in L.body if isinstance(s, ast.If) and any(isinstance(x, ast.Continue) for x in s.body)]
    ok = False
    if len(guards) == 1 and len(guards[0].body) == 1 and not guards[0].orelse:
        got = Tx().cond(guards[0].test)
        want = spec.cond_term(f'include_groups and {c}["CountingGroupId"] not in include_groups')
        ok = aud.cond_equiv(got, want)[0]
        first_effect = min([s.lineno for s in L.body if isinstance(s, (ast.For,)) or (isinstance(s, ast.Expr))] or [10 ** 9])
        ok = ok and guards[0].lineno < first_effect
    chk.ob("C19.R1", where, "include-group-guard", ok and n_skip >= 1,
           "a session is skipped iff include_groups is non-empty and the session's counting group is not in it, before any effect",
           node=guards[0] if guards else L)
    sorts = [x for x in walk_local(fn) if isinstance(x, ast.Call) and (norm(x.func) in ("sorted", "reversed") or
             (isinstance(x.func, ast.Attribute) and x.func.attr in ("sort", "reverse", "insert") and norm(x.func.value) == OUT))]
    rets = [r for r in walk_local(fn) if isinstance(r, ast.Return)]
    chk.ob("C19.R1", where, "file-order", not sorts and len(rets) == 1 and norm(rets[0].value) == OUT and any(
               isinstance(s0, ast.Assign) and norm(s0.targets[0]) == OUT and norm(s0.value) == "[]" for s0 in walk_local(fn)),
           "records are appended in file order and the list is returned as built (no sort, reverse or insert)", node=fn,
           reordering=[norm(x)[:60] for x in sorts])
    # ---- R2
    app = [x for x in walk_local(L) if isinstance(x, ast.Call) and norm(x.func) == f"{OUT}.append"]
    ok_id = ok_tp = ok_pool = ok_votes = False
    detail = {}
    if app and isinstance(app[0].args[0], ast.Call) and norm(app[0].args[0].func) == "CVR":
        kw = {k.arg: k.value for k in app[0].args[0].keywords}
        tx = Tx()
        tx.env[RID] = E(S("record_id"))
        if "id" in kw:
            got = tx.expr(kw["id"])
            want = tx.expr(ast.parse(f'str({c}["TabulatorId"]) + "-" + str({c}["BatchId"]) + "-" + str(record_id)', mode="eval").body)
            ok_id = symx.equivalent(got, want)[0]
            detail["id"] = repr(got)
        if "tally_pool" in kw:
            got = tx.expr(kw["tally_pool"])
            want = tx.expr(ast.parse(f'str({c}["TabulatorId"]) + "-" + str({c}["BatchId"])', mode="eval").body)
            ok_tp = symx.equivalent(got, want)[0]
        if "pool" in kw:
            got = tx.cond(kw["pool"])
            want = spec.cond_term(f'{c}["CountingGroupId"] in pool_groups')
            ok_pool = aud.cond_equiv(got, want)[0]
        ok_votes = "votes" in kw and norm(kw["votes"]) == VOTES
    rid = [s for s in L.body if isinstance(s, ast.Assign) and norm(s.targets[0]) == RID]
    ok_rid = len(rid) == 1 and norm(rid[0].value) in (f'{c}["RecordId"]', f"{c}['RecordId']")
    chk.ob("C19.R2", where, "identifier", ok_id and ok_rid,
           "id == TabulatorId-BatchId-RecordId (record id taken from the session, de-obfuscated from the image mask only when it is 'X')",
           node=app[0] if app else L, **detail)
    # de-obfuscation: the record id is replaced only when it is the placeholder "X", by the number taken from the image mask
    later = [(t, v, s0) for t, v, s0 in stores(L) if norm(t) == RID and not (rid and s0 is rid[0])]
    ok_ob = True
    det_ob = []
    is_x = spec.cond_term(f"{RID} == 'X'")
    for t, v, s0 in later:
        # the conjunction of the tests that control the store (nested ifs, one merged condition, a walrus inside it: all the same)
        conds = []
        n_, p_ = s0, parent(s0)
        while p_ is not None and p_ is not L:
            if isinstance(p_, ast.If):
                try:
                    c_ = Tx().cond(p_.test)
                except symx.Unsupported:
                    c_ = ("atom", "opaque:" + norm(p_.test)[:40])
                conds.append(c_ if n_ in p_.body else symx.c_not(c_))
            n_, p_ = p_, parent(p_)
        pc = symx.c_and(*conds) if conds else True
        det_ob.append(norm(s0)[:80])
        escape = symx.c_and(pc, symx.c_not(is_x))
        atoms = symx.cond_atoms(escape) if escape not in (True, False) else set()
        if escape is True or (escape is not False and any(symx.eval_cond(escape, row) for row in symx.rows(atoms))):
            ok_ob = False  # the store can happen although the record id is not the placeholder
        if "image" not in norm(v).lower() and "match" not in norm(v).lower():
            ok_ob = False
    chk.ob("C19.R2", where, "record-id-deobfuscation", ok_ob,
           "the record id taken from the session is replaced only under `record id == 'X'` (obfuscated export), by the number parsed from "
           "the image mask", node=later[0][2] if later else L, strength="N", later_stores=det_ob)
    chk.ob("C19.R2", where, "tally-pool", ok_tp, "tally_pool == TabulatorId-BatchId", node=app[0] if app else L)
    chk.ob("C19.R2", where, "pooled-flag", ok_pool, "pool == (the session's CountingGroupId is in pool_groups)", node=app[0] if app else L)
    vinit = [s for s in L.body if isinstance(s, ast.Assign) and norm(s.targets[0]) == VOTES]
    chk.ob("C19.R2", where, "fresh-votes-per-session", ok_votes and len(vinit) == 1 and norm(vinit[0].value) == "{}",
           "each record gets its own vote dict, created afresh for the session", node=vinit[0] if vinit else L)
    # ---- R3
    kloops = [l for l in L.body if isinstance(l, ast.For) and ("Original" in norm(l.iter) or "Modified" in norm(l.iter))]
    ok = False
    detail = {}
    if len(kloops) == 1:
        kl = kloops[0]
        it = kl.iter
        detail["iter"] = norm(it)[:160]
        src = None
        filt_ok = True
        if isinstance(it, ast.ListComp):
            elt, tgt, src, ifs = aud.single_gen(it)
            filt_ok = norm(elt) == norm(tgt) and len(ifs) == 1 and norm(ifs[0]) in (f"{norm(tgt)}in{c}.keys()", f"{norm(tgt)}in{c}")
        else:
            src = it
            # presence must then be tested in the body before use
            first = kl.body[0] if kl.body else None
            filt_ok = isinstance(first, ast.If) and norm(first.test) in (f"{norm(kl.target)}notin{c}", f"{norm(kl.target)}notin{c}.keys()") \
                and any(isinstance(x, ast.Continue) for x in first.body)
        lists = _literal_lists(src)
        if lists is not None and filt_ok:
            cur, orig = lists
            ok = cur == ["Original", "Modified"] and orig == ["Original"]
            detail["precedence"] = {"use_current": cur, "otherwise": orig}
    chk.ob("C19.R3", where, "precedence-list", ok,
           "the record versions are visited in the literal order Original, Modified (Modified only when current data are requested), "
           "filtered by presence in the session -- not in the session's own key order", node=kloops[0] if kloops else L, **detail)
    # ---- R4 mark filter and update: the whole body of the loop over the marks as one term
    mloops = [l for l in walk_local(L) if isinstance(l, ast.For) and "Marks" in norm(l.iter)]
    ok_f = ok_u = False
    detail = {}
    adj = aud.adjacent_grouping(L)
    if adj:
        # grouping a candidate's marks with groupby collects *adjacent* marks only: a candidate whose marks are separated by
        # another candidate's is processed twice and the later group wins -- the result depends on the order of the marks
        detail["adjacent_grouping"] = [f"line {c_.lineno}: {norm(c_)[:80]}" for c_ in adj]
    elif len(mloops) == 1 and isinstance(mloops[0].target, ast.Name) and not (
            isinstance(mloops[0].iter, ast.Subscript) and isinstance(mloops[0].iter.slice, ast.Constant) and mloops[0].iter.slice.value == "Marks"):
        # every mark of the contest is examined: the loop runs over con["Marks"] itself, not over a selection of it (whether a
        # mark counts is decided mark by mark, by IsVote and enforce_rules alone)
        detail["marks_iterated"] = norm(mloops[0].iter)[:100]
    elif len(mloops) == 1 and isinstance(mloops[0].target, ast.Name):
        ml = mloops[0]
        m = norm(ml.target)
        body = structure_continues(ml.body)
        sts = [(t, v, s0) for t, v, s0 in stores(ml) if isinstance(t, ast.Subscript)]
        slots = {norm_src(t) for t, v, s0 in sts}
        if body is not None and len(slots) == 1 and not [x for x in walk_local(ml) if isinstance(x, (ast.Break, ast.Return))]:
            tx = Tx()
            tx.post = _strip_int
            slot = tx.expr(ast.parse(slots.pop(), mode="eval").body)
            if isinstance(slot, E) and isinstance(slot.e, sp.Symbol):
                name = "@" + slot.e.name
                tx.env[name] = E(slot.e)      # "no store" = the old contents of the slot
                try:
                    tx.block(body)
                    got = symx.prune(tx.env[name])
                except symx.Unsupported as e:
                    got = None
                    detail["untranslated"] = str(e)
                if got is not None:
                    old = slot.e
                    rank = Tx().expr(ast.parse(f'{m}["Rank"]', mode="eval").body).e
                    env = {"old": E(old), "rank": E(rank), "present": E(S("PRESENT")), "counted": E(S("COUNTED"))}
                    want_in = spec.spec_term(SPEC_MARK, env=env)[0]
                    pres = spec.cond_term(f'str({m}["CandidateId"]) in {CV}')
                    cnt = spec.cond_term(f'{m}["IsVote"] or not enforce_rules')
                    upd = _subst_atom(want_in, "truthy(PRESENT)", pres)
                    want = I(cnt, upd, E(old))
                    ok_u, n, cex = symx.equivalent(got, symx.prune(want))
                    detail["update_rows"] = n
                    if not ok_u:
                        detail["counterexample"] = cex
                    # the filter alone: on the rows where the mark is not counted the slot keeps its contents, and the code's
                    # term depends on the mark at all only when it is counted
                    ok_f = symx.equivalent(I(cnt, E(old), got), E(old))[0] and not symx.equivalent(got, E(old))[0]
                    detail["filter"] = "slot unchanged whenever not (IsVote or not enforce_rules)"
                    chk.exhaustive = True
    if not adj:  # (with adjacent grouping the update below is refuted; the filter is then not examined)
        chk.ob("C19.R4", where, "counted-marks", ok_f, "a mark is counted iff IsVote or rules are not enforced", node=mloops[0] if mloops else L,
               **{k: v for k, v in detail.items() if k == "filter"})
    chk.ob("C19.R4", where, "smallest-positive-rank", ok_u,
           "per candidate: absent -> the mark's rank; present -> min(old, rank) when both are positive, the positive one when only one "
           "is, unchanged when the new rank is falsy: the smallest positive rank among the counted marks, whatever their order",
           node=mloops[0] if mloops else L, **{k: v for k, v in detail.items() if k != "filter"})
    # commutativity/associativity of the abstract fold (table on the checker's own spec, for the record)
    chk.ob("C19.R4", where, "fold-is-order-independent", _fold_commutes(),
           "on the abstract domain {absent, falsy, a, b} the specified update is commutative and associative (3-element permutations)",
           strength="P")
    # per-contest store
    cst = [(t, v, s) for t, v, s in stores(L) if isinstance(t, ast.Subscript) and norm(t.value) == VOTES]
    conv = norm(parent(cst[0][2]).target) if cst and isinstance(parent(cst[0][2]), ast.For) else "con"
    ok = len(cst) == 1 and norm(cst[0][0].slice) in (f"str({conv}['Id'])",) and norm(cst[0][1]) == CV
    init = [s for s in walk_local(L) if isinstance(s, ast.Assign) and norm(s.targets[0]) == CV]
    ok = ok and len(init) == 1 and norm(init[0].value) == "{}" and isinstance(parent(init[0]), ast.For) and parent(init[0]) is parent(cst[0][2])
    chk.ob("C19.R4", where, "per-contest-dict", ok,
           "each contest of a version gets a fresh candidate dict stored under the contest id (a later version replaces the contest's data)",
           node=cst[0][2] if cst else L, strength="N")
    # ---- R5 both layouts
    ok = False
    if len(kloops) == 1:
        kl = kloops[0]
        k = norm(kl.target)
        sel = [s for s in kl.body if isinstance(s, ast.If) and "Cards" in norm(s.test)]
        if len(sel) == 1:
            t = norm(sel[0].test)
            has_cards = t in (f'"Cards"in{c}[{k}].keys()', f'"Cards"in{c}[{k}]', f"'Cards'in{c}[{k}].keys()", f"'Cards'in{c}[{k}]")
            a = [s for s in sel[0].body if isinstance(s, ast.Assign)]
            b = [s for s in sel[0].orelse if isinstance(s, ast.Assign)]
            if has_cards and len(a) == 1 and len(b) == 1 and norm(a[0].targets[0]) == norm(b[0].targets[0]):
                flat = a[0].value
                okb = norm(b[0].value) in (f'{c}[{k}]["Contests"]', f"{c}[{k}]['Contests']")
                oka = False
                if isinstance(flat, ast.ListComp) and len(flat.generators) == 2 and not any(g.ifs for g in flat.generators) \
                        and norm(flat.elt) == norm(flat.generators[1].target):
                    g0, g1 = flat.generators
                    cards = (f'{c}[{k}]["Cards"]', f"{c}[{k}]['Cards']")
                    if isinstance(g0.iter, ast.ListComp):
                        e0, t0, i0, f0 = aud.single_gen(g0.iter)
                        oka = norm(i0) in cards and not f0 and norm(e0) in (f'{norm(t0)}["Contests"]', f"{norm(t0)}['Contests']") \
                            and norm(g1.iter) == norm(g0.target)
                    else:
                        oka = norm(g0.iter) in cards and norm(g1.iter) in (f'{norm(g0.target)}["Contests"]', f"{norm(g0.target)}['Contests']")
                cl = [l for l in kl.body if isinstance(l, ast.For) and norm(l.iter) == norm(a[0].targets[0])]
                ok = oka and okb and len(cl) == 1
    chk.ob("C19.R5", where, "both-layouts", ok,
           "with a 'Cards' level the contests of all cards are concatenated in order; otherwise the version's own 'Contests' are used; "
           "every contest is then processed", node=kloops[0] if kloops else L, strength="N")
    # R6: the directory import is the per-file import applied to every export file with the same options
    aud.same_name_arguments(chk, "C19.R6", DOM, "Dominion.read_cvrs_directory", "Dominion.read_cvrs", "the directory reader delegates per file", strict=True)
    rd = chk.fn(DOM, "Dominion.read_cvrs_directory")
    loops = [l for l in rd.body if isinstance(l, ast.For)]
    ext = [c for c in ast.walk(rd) if isinstance(c, ast.Call) and isinstance(c.func, ast.Attribute) and c.func.attr in ("extend", "append")]
    rets = [r for r in walk_local(rd) if isinstance(r, ast.Return)]
    ok = len(loops) == 1 and "sorted(glob.glob(" in norm(loops[0].iter) and len(ext) == 1 and ext[0].func.attr == "extend" \
        and parent(parent(ext[0])) is loops[0] and len(rets) == 1 and norm(rets[0].value) == norm(ext[0].func.value) \
        and not [x for x in walk_local(loops[0]) if isinstance(x, (ast.Break, ast.Continue, ast.Return))]
    chk.ob("C19.R6", f"{DOM}:Dominion.read_cvrs_directory", "every-file-in-sorted-order", ok,
           "the records of every export file of the directory, in sorted file-name order, are concatenated and returned",
           node=rd, strength="N")



def norm_src(node):
    import copy

    n = _dc(node)
    for x in ast.walk(n):
        if hasattr(x, "ctx"):
            x.ctx = ast.Load()
    return ast.unparse(n)


def _strip_int(e):
    repl = {}
    for sub in sp.preorder_traversal(e):
        if isinstance(sub, sp.core.function.AppliedUndef) and sub.func.__name__ in ("int", "float") and len(sub.args) == 1:
            repl[sub] = sub.args[0]
    return e.xreplace(repl) if repl else e


def _literal_lists(src):
    """src is `[..] if use_current else [..]` (or a plain literal): -> (list when use_current, list otherwise)"""
    def lit(n):
        if isinstance(n, (ast.List, ast.Tuple)) and all(isinstance(e, ast.Constant) and isinstance(e.value, str) for e in n.elts):
            return [e.value for e in n.elts]
        return None
    if isinstance(src, ast.IfExp):
        a, b = lit(src.body), lit(src.orelse)
        if a is None or b is None:
            return None
        t = norm(src.test)
        if t == "use_current":
            return a, b
        if t == "notuse_current":
            return b, a
        return None
    return None


def _subst_atom(v, atom, cond):
    """replace the atom `atom` in the conditions of a term by the condition `cond`."""
    def sc(c):
        if c is True or c is False:
            return c
        if c[0] == "atom":
            return cond if c[1] == atom else c
        if c[0] == "not":
            return symx.c_not(sc(c[1]))
        f = symx.c_and if c[0] == "and" else symx.c_or
        return f(*[sc(x) for x in c[1]])
    if isinstance(v, I):
        return I(sc(v.c), _subst_atom(v.a, atom, cond), _subst_atom(v.b, atom, cond))
    return v


def _fold_commutes():
    import itertools

    def op(state, r):  # state: None absent / 0 falsy / positive int ; r: 0 or positive int
        if state is None:
            return r
        if r:
            return min(state, r) if state else r
        return state

    vals = [0, 1, 2, 3]
    for seq in itertools.product(vals, repeat=3):
        res = set()
        for perm in itertools.permutations(seq):
            s = None
            for r in perm:
                s = op(s, r)
            res.add(s)
        if len(res) != 1:
            return False
        pos = [r for r in seq if r]
        if res.pop() != (min(pos) if pos else 0):
            return False
    return True
