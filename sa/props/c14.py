"""C14 -- RAIRE and the audit interpret every ranked ballot identically."""
from __future__ import annotations

import ast

import sympy as sp

from ..core import AnalysisError, norm
from .. import symx, spec, aud
from ..aud import REL, W
from ..symx import Tx, E, I, S, is_zero, fmt_cond, c_and, c_or, c_not, cond_atoms, rows, eval_cond, val_atoms, eval_val
from ..canon import structure_continues, expand_locals
from ..astutil import walk_local, stores, parent, ancestors
from . import c04, c06, c18
from ..canon import _dc

RU = "shangrla/raire/raire_utils.py"
RA = "shangrla/raire/raire.py"
AU = "shangrla/core/Audit.py"

META = dict(
    text="Both implementations touch ranks only through comparisons and truthiness (R1, lint), so every predicate is a finite decision "
         "table over the order type of the ballot. (R2) The two readers of the RAIRE format are related by an affine shift derived from "
         "their slice/index expressions: core rank = generator index + 1; hence 'ranked' is bool(rank) vs idx != -1 and 'first' is == 1 vs "
         "== 0, which is what the two winner predicates test. (R3) The not-eliminated-before loser predicates have identical tables over "
         "{ranked(w), ranked(l), l before w} (exhaustive). (R4) The not-eliminated-next predicates are exists-early-return loops whose "
         "guards, skip conditions and kill conditions equal the two stated forms, which coincide when remaining = candidates minus "
         "eliminated (checked at the creation site), ballot keys are candidates and ranks are distinct. (R5) Both assorter "
         "combinations are (w - l + 1)/2 without late binding. (R6) identifier and recount = C04.R1/R2.",
    note="Assumptions (the property's own preconditions): duplicate-free rankings (so <= vs < agree) and ballot keys among the "
         "contest's candidates. Malformed files are not decided.",
    technique="comparison-only lint (def-use), affine index arithmetic, exhaustive decision tables, loop-skeleton (exists-early-return) matching",
)
META["text"] += ' R2 also: every reader of the format stores tokens verbatim (a case-folded token may be compared, not stored); grouping records with itertools.groupby on unsorted input is refuted.'
META["text"] += ' R1 also: the ballot predicates keep no state between calls.'
META["text"] += ' R5 also: the assorter mean is over the cards that carry the contest (= C02.R5).'
META["text"] += ' (R7, N, frame condition on arguments) generator and audit read the same ballots: neither side edits the rankings it is shown: every function in scope changes the objects it is handed only in the ways confirmed for it (aud.ARG_EFFECTS); references are followed through aliases, elements, attributes, loop variables, .get/.items/.values and np.asarray, resolved by the bindings that reach the use.'


def run(chk):
    from .. import aud as _aud8
    _aud8.argument_effects(chk, 'C14.R7', 'shangrla/raire/raire_utils.py', 'generator and audit read the same ballots: neither side edits the rankings it is shown', only=None)
    _aud8.argument_effects(chk, 'C14.R7', 'shangrla/raire/raire.py', 'generator and audit read the same ballots: neither side edits the rankings it is shown', only=None)
    _aud8.argument_effects(chk, 'C14.R7', 'shangrla/raire/simp_assertions.py', 'generator and audit read the same ballots: neither side edits the rankings it is shown', only=None)
    _aud8.argument_effects(chk, 'C14.R7', 'shangrla/core/Audit.py', 'generator and audit read the same ballots: neither side edits the rankings it is shown', only=lambda q: q.startswith('CVR.'))
    chk.explain("R1 comparison-only lint over the 9 rank-handling predicates; R2 rank base of the two readers and of the first-preference / "
                "unranked tests; R3 NEB loser tables equal; R4 NEN loop skeletons; R5 assorter combination; R6 identifier and recount (C04).")
    chk.trust("a predicate that uses ranks only in comparisons depends only on the order type of the ranking", "symx decision tables")
    chk.assume("rankings are duplicate-free (distinct ranks)", "every key of a ballot's ranking is a candidate of the contest")
    r1(chk)
    r2(chk)
    r3(chk)
    r4(chk)
    r5(chk)
    # the audit-side reader merges repeated ballot ids through CVR.merge_cvrs: a later line for the same (ballot, contest)
    # must replace the earlier ranking, as the generator-side reader's `cvrs[bid][cid] = ballot` does (C18.R1/R2/R5)
    chk.borrow(c18.run, {"C18.R1": "C14.R2", "C18.R2": "C14.R2", "C18.R5": "C14.R2"})
    chk.borrow(c04.r1, {"C04.R1": "C14.R6"})
    chk.borrow(c04.r2, {"C04.R2": "C14.R6"})


# ---------------------------------------------------------------------------


RANK_SOURCES = ("get_vote_for", "ranking")


def rank_names(fn):
    """local names holding rank values: results of get_vote_for / ranking, the value variable of `for k, v in ballot.items()`."""
    names = set()
    for n in ast.walk(fn):
        if isinstance(n, (ast.Assign, ast.NamedExpr)):
            v = n.value
            tg = n.targets[0] if isinstance(n, ast.Assign) else n.target
            if isinstance(v, ast.Call) and norm(v.func).split(".")[-1] in RANK_SOURCES and isinstance(tg, ast.Name):
                names.add(tg.id)
        if isinstance(n, ast.For) and isinstance(n.iter, ast.Call) and isinstance(n.iter.func, ast.Attribute) and n.iter.func.attr == "items" \
                and isinstance(n.target, ast.Tuple) and "ballot" in norm(n.iter.func.value):
            names.add(n.target.elts[1].id)
    return names


def uses_ok(fn, names, allow_return=False):
    bad = []
    n_uses = 0
    for n in ast.walk(fn):
        is_rank = (isinstance(n, ast.Name) and isinstance(n.ctx, ast.Load) and n.id in names) or \
                  (isinstance(n, ast.Call) and norm(n.func).split(".")[-1] in RANK_SOURCES) or \
                  (isinstance(n, ast.Subscript) and isinstance(n.ctx, ast.Load) and norm(n.value) == "ballot")
        if not is_rank:
            continue
        p = parent(n)
        # a walrus binding inside bool(...) etc: look through
        while isinstance(p, ast.NamedExpr):
            n, p = p, parent(p)
        n_uses += 1
        if isinstance(p, ast.Compare):
            continue
        if isinstance(p, ast.Call) and norm(p.func) == "bool":
            continue
        if isinstance(p, ast.UnaryOp) and isinstance(p.op, ast.Not):
            continue
        if isinstance(p, ast.BoolOp) or (isinstance(p, (ast.If, ast.IfExp, ast.While)) and p.test is n):
            continue
        if isinstance(p, (ast.Assign,)) and p.value is n:
            continue  # binding a rank to a name (tracked)
        if isinstance(p, ast.Return) and allow_return:
            continue
        bad.append(f"{type(p).__name__}@{getattr(n, 'lineno', '?')}:{norm(p)[:50]}")
    return bad, n_uses


def r1(chk):
    aud.keeps_no_state(chk, "C14.R1", AU, ["CVR.rcv_lfunc_wo", "CVR.rcv_votefor_cand", "CVR.get_vote_for", "CVR.has_contest"],
                       "a ballot predicate is a function of the ballot's current ranking")
    aud.keeps_no_state(chk, "C14.R1", RU, ["NEBAssertion.is_vote_for_winner", "NEBAssertion.is_vote_for_loser", "NENAssertion.is_vote_for_winner",
                                           "NENAssertion.is_vote_for_loser", "vote_for_cand", "ranking"],
                       "a ballot predicate is a function of the ballot's current ranking")
    idx = chk.idx
    targets = [(REL, "CVR.rcv_lfunc_wo", False), (REL, "CVR.rcv_votefor_cand", False), (RU, "ranking", True), (RU, "vote_for_cand", False),
               (RU, "NEBAssertion.is_vote_for_winner", False), (RU, "NEBAssertion.is_vote_for_loser", False),
               (RU, "NENAssertion.is_vote_for_winner", True), (RU, "NENAssertion.is_vote_for_loser", True)]
    n = 0
    for rel, q, allow_ret in targets:
        fn = chk.fn(rel, q)
        names = rank_names(fn)
        bad, uses = uses_ok(fn, names, allow_return=allow_ret)
        n += 1
        chk.ob("C14.R1", f"{rel}:{q}", "comparison-only", not bad,
               "rank values flow only into comparisons, bool()/not/truthiness tests (never into arithmetic or containers), so the result "
               "depends only on the order type of the ranking", node=fn, rank_names=sorted(names), uses=uses, offending=bad)
    # winner_func lambda in make_assertions_from_json
    maj = chk.fn(REL, "Assertion.make_assertions_from_json")
    lams = [l for l in aud.lambdas_in(maj) if "get_vote_for" in norm(l.body)]
    for l in lams:
        bad, uses = uses_ok(l, set())
        n += 1
        chk.ob("C14.R1", W("Assertion.make_assertions_from_json"), "comparison-only:winner_func", not bad,
               "the first-preference lambda uses the rank only in a comparison", node=l, offending=bad)
    chk.need("C14.R1", n, 9, "rank-handling predicates")


def r2(chk):
    # ---- core reader: rank = j - 1 for column j >= 2  (same facts as C18.R5)
    fr = chk.fn(REL, "CVR.from_raire")
    base_core = None
    F = c18.raire_reader_facts(fr)
    rk = F.get("rank")
    if rk is not None:
        col = c18.column_and_rank(rk, F.get("row"))
        if col is not None:
            K, Rk, a, b = col
            j_ = S("j")
            d = sp.simplify(Rk - K)
            first_col = sp.simplify(K.subs(j_, a))
            if d.is_Number and first_col.is_Number and is_zero(sp.diff(K, j_) - 1) \
                    and is_zero(K.subs(j_, b) - Tx().expr(ast.parse(f"len({F.get('row')})", mode="eval").body).e):
                # the token in column c (first candidate column = first_col) gets rank c + d
                base_core = (int(first_col), int(d))
    ok = base_core == (2, -1)
    chk.ob("C14.R2", W("CVR.from_raire"), "core-rank=k", ok,
           "audit-side reader: the token in column j >= 2 (the (j-1)-th listed candidate) gets rank j - 1: ranks are 1-based", node=fr,
           start_column_and_shift=base_core)
    # ---- generator reader: prefs = toks[2:]; idx = prefs.index(c)
    lr = chk.fn(RU, "load_contests_from_raire", canonical=True)
    # the ballot loop `for l in range(<n>+1, len(<lines>))`; every query below is made on expressions with the temporaries
    # expanded (canon.expand_locals), so the reader may name its columns or not, and may build the ballot dict by a loop or a
    # comprehension (the canonical form turns the loop into the comprehension)
    hdr = [l for l in ast.walk(lr) if isinstance(l, ast.For) and isinstance(l.iter, ast.Call) and norm(l.iter.func) == "range" and len(l.iter.args) == 2
           and isinstance(l.iter.args[1], ast.Call) and norm(l.iter.args[1].func) == "len"]
    ok_p = ok_i = ok = body_ok = ok_merge = False
    if len(hdr) == 1:
        L = hdr[0]
        lines = norm(L.iter.args[1].args[0])
        lv = norm(L.target)
        def X(e):
            """the expanded expression; a column of the line's token list is rendered as TOK[<slice>]"""
            x = expand_locals(e, lr, stop=(lv, lines))

            class R(ast.NodeTransformer):
                def visit_Subscript(self, n):
                    n = self.generic_visit(n)
                    b = n.value
                    if isinstance(b, ast.ListComp) and len(b.generators) == 1 and not b.generators[0].ifs \
                            and norm(b.elt) in (f"{norm(b.generators[0].target)}.strip()", norm(b.generators[0].target)):
                        b = b.generators[0].iter
                    bt = norm(b)
                    if bt in (f"{lines}[{lv}].strip().split(',')", f"{lines}[{lv}].split(',')", f"{lines}[{lv}].rstrip().split(',')"):
                        return ast.Subscript(value=ast.Name(id="TOK", ctx=ast.Load()), slice=n.slice, ctx=ast.Load())
                    return n
            return norm(ast.fix_missing_locations(R().visit(x)))
        is_tok = lambda txt, k: txt == f"TOK{k}"
        dcs = [d for d in ast.walk(L) if isinstance(d, ast.DictComp) and isinstance(d.value, ast.Call) and isinstance(d.value.func, ast.Attribute)
               and d.value.func.attr == "index"]
        BALLOT_DC = None
        if len(dcs) == 1 and len(dcs[0].generators) == 1:
            d = dcs[0]
            g = d.generators[0]
            cand = norm(g.target)
            recv = X(d.value.func.value)
            ok_p = is_tok(recv, "[2:]")
            ok_i = norm(d.key) == cand and [norm(a_) for a_ in d.value.args] == [cand] and len(g.ifs) == 1 \
                and isinstance(g.ifs[0], ast.Compare) and len(g.ifs[0].ops) == 1 and isinstance(g.ifs[0].ops[0], ast.In) \
                and norm(g.ifs[0].left) == cand and X(g.ifs[0].comparators[0]) == recv
            BALLOT_DC = d
        # header skipping: range(<n>+1, len(lines)) with <n> = int(lines[0])
        a0 = expand_locals(L.iter.args[0], lr, stop=(lines,))
        ok = symx.equivalent(Tx().expr(a0), Tx().expr(ast.parse(f"int({lines}[0]) + 1", mode="eval").body))[0]
        # repeated ballot ids merge contests:  if bid not in S: S[bid] = {cid: ballot} else: S[bid][cid] = ballot,
        # or S.setdefault(bid, {})[cid] = ballot -- with bid = column 1, cid = column 0 and ballot = that dict
        def is_ballot(e):
            return BALLOT_DC is not None and ast.dump(expand_locals(e, lr, stop=(lv, lines))) == ast.dump(expand_locals(BALLOT_DC, lr, stop=(lv, lines)))
        for st_ in ast.walk(L):
            if isinstance(st_, ast.Assign) and len(st_.targets) == 1 and isinstance(st_.targets[0], ast.Subscript):
                t = st_.targets[0]
                if isinstance(t.value, ast.Call) and isinstance(t.value.func, ast.Attribute) and t.value.func.attr == "setdefault" \
                        and len(t.value.args) == 2 and norm(t.value.args[1]) == "{}":
                    if is_tok(X(t.value.args[0]), "[1]") and is_tok(X(t.slice), "[0]") and is_ballot(st_.value) and parent(st_) is L:
                        ok_merge = body_ok = True
        for i in [x for x in ast.walk(L) if isinstance(x, ast.If)]:
            c = Tx().cond(i.test)
            if c in (True, False) or len(i.body) != 1 or len(i.orelse) != 1:
                continue
            neg = c[0] == "not"
            atom = c[1] if neg else c
            if not (isinstance(atom, tuple) and atom[0] == "atom" and atom[1].startswith("in(")):
                continue
            absent, present = (i.body[0], i.orelse[0]) if neg else (i.orelse[0], i.body[0])
            cmp_ = i.test.operand if isinstance(i.test, ast.UnaryOp) else i.test
            if not (isinstance(cmp_, ast.Compare) and is_tok(X(cmp_.left), "[1]")):
                continue
            store = norm(cmp_.comparators[0])
            if isinstance(absent, ast.Assign) and isinstance(present, ast.Assign) and isinstance(absent.value, ast.Dict) and len(absent.value.keys) == 1:
                ta, tp = absent.targets[0], present.targets[0]
                good_a = isinstance(ta, ast.Subscript) and norm(ta.value) == store and is_tok(X(ta.slice), "[1]") \
                    and is_tok(X(absent.value.keys[0]), "[0]") and is_ballot(absent.value.values[0])
                good_p = isinstance(tp, ast.Subscript) and isinstance(tp.value, ast.Subscript) and norm(tp.value.value) == store \
                    and is_tok(X(tp.value.slice), "[1]") and is_tok(X(tp.slice), "[0]") and is_ballot(present.value)
                if good_a and good_p and parent(i) is L:
                    ok_merge = body_ok = True
    # identifiers are taken verbatim (up to surrounding blanks) by every reader of the format: a token that is case-folded,
    # translated or otherwise rewritten on one side only no longer names the same candidate / contest / card on the other.  A
    # rewritten token may be *compared* (recognising a keyword case-insensitively), not stored.
    REWRITES = {"lower", "upper", "casefold", "title", "capitalize", "swapcase", "replace", "translate", "removeprefix", "removesuffix",
                "zfill", "ljust", "rjust", "center", "expandtabs"}
    for rel_, q_ in ((RU, "load_contests_from_raire"), (AU, "CVR.from_raire"), (AU, "CVR.from_raire_file")):
        if not chk.idx.has_func(rel_, q_):
            continue
        f_ = chk.fn(rel_, q_)
        bad = []
        for c_ in walk_local(f_):
            if isinstance(c_, ast.Call) and isinstance(c_.func, ast.Attribute) and c_.func.attr in REWRITES:
                anc = []
                p_ = parent(c_)
                while p_ is not None and not isinstance(p_, ast.stmt):
                    anc.append(p_)
                    p_ = parent(p_)
                if not any(isinstance(a_, ast.Compare) for a_ in anc) or isinstance(p_, (ast.Assign, ast.AugAssign, ast.Return)) and \
                        not any(isinstance(a_, ast.Compare) for a_ in anc):
                    bad.append(f"line {c_.lineno}: {norm(c_)[:60]}")
        chk.ob("C14.R2", f"{rel_}:{q_}", "tokens-verbatim", not bad,
               "the reader stores the file's tokens as they are (blanks stripped): no case folding or rewriting of identifiers",
               node=f_, strength="N", **({"rewrites": bad} if bad else {}))
    chk.ob("C14.R2", f"{RU}:load_contests_from_raire", "raire-index=k-1", ok_p and ok_i,
           "generator-side reader: the token in column j >= 2 gets index j - 2 (its position in toks[2:]), only listed candidates are "
           "recorded in a fresh dict per line: indices are 0-based, so core rank = generator index + 1 for every ballot", node=lr)
    chk.ob("C14.R2", f"{RU}:load_contests_from_raire", "header-and-columns", ok and body_ok,
           "ballot lines start after the count line and the declared contest lines; column 0 is the contest, column 1 the ballot id "
           "(as in the audit-side reader)", node=lr)
    chk.ob("C14.R2", f"{RU}:load_contests_from_raire", "repeated-ids-merge-contests", ok_merge,
           "a repeated ballot identifier adds the contest to the existing record (as CVR.merge_cvrs does on the audit side)", node=lr, strength="N")
    # first-preference and unranked tests use the respective bases
    maj = chk.fn(REL, "Assertion.make_assertions_from_json")
    lam = [l for l in aud.lambdas_in(maj) if "get_vote_for" in norm(l.body)]
    ok = False
    wn, ln = outer_pair_names(maj)
    if len(lam) == 1:
        v, _ = aud.lambda_term(lam[0], Tx(), arg_names=["v"])
        want = symx.prune(Tx().expr(ast.parse(f"1 if v.get_vote_for(contest.id, {wn}) == 1 else 0", mode="eval").body))
        ok = symx.equivalent(symx.prune(v), want)[0]
    chk.ob("C14.R2", W("Assertion.make_assertions_from_json"), "core-first-preference==1", ok,
           "audit side: a ballot counts for the NEB winner iff the winner's rank equals 1 (the 1-based first preference)", node=lam[0] if lam else maj)
    f = chk.fn(RU, "NEBAssertion.is_vote_for_winner")
    code, _ = spec.term(f)
    want, _ = spec.expr_term("(1 if ranking(self.winner, cvr[self.contest]) == 0 else 0) if self.contest in cvr else 0")
    spec.compare(chk, "C14.R2", f"{RU}:NEBAssertion.is_vote_for_winner", "raire-first-preference==0",
                 "generator side: a ballot counts for the NEB winner iff the winner's index equals 0 (the 0-based first preference); 0 when "
                 "the contest is absent", code, want, node=f)
    rk = chk.fn(RU, "ranking")
    code, _ = spec.term(rk)
    want, _ = spec.expr_term("ballot[cand] if cand in ballot else -1")
    spec.compare(chk, "C14.R2", f"{RU}:ranking", "unranked-sentinel=-1", "ranking() returns the stored index, and -1 for a candidate that is not ranked",
                 code, want, node=rk)


def outer_pair_names(maj):
    """names bound to assrtn["winner"] / assrtn["loser"] in the assertion loop"""
    wn = ln = None
    for st in ast.walk(maj):
        if isinstance(st, ast.Assign) and isinstance(st.targets[0], ast.Name) and isinstance(st.value, ast.Subscript) \
                and isinstance(st.value.slice, ast.Constant):
            if st.value.slice.value == "winner":
                wn = st.targets[0].id
            if st.value.slice.value == "loser":
                ln = st.targets[0].id
    return wn or "winr", ln or "losr"


def rename(val, mapping):
    """Replace atoms of a term by conditions (atom string -> cond)."""
    def sc(c):
        if c is True or c is False:
            return c
        if c[0] == "atom":
            if c[1] in mapping:
                return mapping[c[1]]
            return c
        if c[0] == "not":
            return c_not(sc(c[1]))
        f = c_and if c[0] == "and" else c_or
        return f(*[sc(x) for x in c[1]])
    if isinstance(val, I):
        return I(sc(val.c), rename(val.a, mapping), rename(val.b, mapping))
    return val


RW, RL, BEF = ("atom", "ranked(w)"), ("atom", "ranked(l)"), ("atom", "before(l,w)")


def r3(chk):
    core = chk.fn(REL, "CVR.rcv_lfunc_wo")
    t_core, _ = spec.term(core)
    gw, gl = "self.get_vote_for(contest_id, winner)", "self.get_vote_for(contest_id, loser)"
    m_core = {f"truthy({gw})": RW, f"truthy({gl})": RL, f"lt({gl},{gw})": BEF, f"lt({gw},{gl})": c_and(RW, RL, c_not(BEF))}
    a_core = rename(t_core, m_core)
    left = val_atoms(a_core) - {"ranked(w)", "ranked(l)", "before(l,w)"}
    rai = chk.fn(RU, "NEBAssertion.is_vote_for_loser")
    t_rai, _ = spec.term(rai)
    iw, il = "ranking(self.winner, cvr[self.contest])", "ranking(self.loser, cvr[self.contest])"
    m_rai = {f"eq(-1,{iw})": c_not(RW), f"eq(-1,{il})": c_not(RL), f"lt({il},{iw})": BEF, f"lt({iw},{il})": c_and(RW, RL, c_not(BEF)),
             "in(self.contest,cvr)": True}
    a_rai = rename(t_rai, m_rai)
    left |= val_atoms(a_rai) - {"ranked(w)", "ranked(l)", "before(l,w)"}
    if left:
        chk.ob("C14.R3", W("CVR.rcv_lfunc_wo"), "neb-loser-tables-equal", False,
               "both NEB loser predicates are tables over {ranked(w), ranked(l), l before w}", node=core, foreign_atoms=sorted(left))
    else:
        # consistent rows: 'before' is meaningful only when both are ranked
        cons = [lambda r: (r.get("ranked(w)") and r.get("ranked(l)")) or not r.get("before(l,w)")]
        ok, n, cex = symx.equivalent(a_core, a_rai, constraints=cons)
        table = []
        for row in rows({"ranked(w)", "ranked(l)", "before(l,w)"}, cons):
            table.append({**row, "value": sp.sstr(eval_val(a_core, row))})
        want = lambda r: 1 if (r["ranked(l)"] and (not r["ranked(w)"] or r["before(l,w)"])) else 0
        ok_spec = all(int(t["value"]) == want(t) for t in table)
        chk.ob("C14.R3", W("CVR.rcv_lfunc_wo"), "neb-loser-tables-equal", ok and ok_spec,
               "audit-side rcv_lfunc_wo and generator-side NEBAssertion.is_vote_for_loser have the same table over {ranked(w), ranked(l), "
               "l before w}: 1 iff l is ranked and (w is unranked or l precedes w)", node=core, rows=n, table=table, counterexample=cex)
        chk.exhaustive = True
    # contest absent on the generator side -> 0, as on the audit side (get_vote_for -> False -> unranked)
    t0 = rename(t_rai, {"in(self.contest,cvr)": False})
    ok = all(eval_val(t0, row) == 0 for row in rows(val_atoms(t0)))
    chk.ob("C14.R3", f"{RU}:NEBAssertion.is_vote_for_loser", "contest-absent->0", ok,
           "a CVR without the contest counts for neither side on the generator side, as on the audit side (unranked)", node=rai)


def loop_skeleton(fn):
    """exists-early-return skeleton: pre-guards (returning 0), the loop, final return.  The body of the loop is summarised as one
    term by iteration_term, so it may spell its skips and its early return with `continue` guards, a merged condition or
    named temporaries alike.  -> dict or None"""
    loops = [x for x in ast.walk(fn) if isinstance(x, ast.For)]
    if len(loops) != 1:
        return None
    l = loops[0]
    if l.orelse or any(isinstance(x, ast.Break) for x in ast.walk(l)):
        return None
    # statements after the loop in its block
    blk = parent(l)
    lst = blk.body if l in blk.body else blk.orelse
    after = lst[lst.index(l) + 1:]
    fin = norm(after[0].value) if len(after) == 1 and isinstance(after[0], ast.Return) else None
    return dict(loop=l, final=fin)


CONT = "__next_iteration__"


def iteration_term(l, tx):
    """one iteration of the loop as a term: the value returned from inside the body, or the symbol CONT when the iteration ends
    without returning (falls off the end or continues)"""
    body = structure_continues(l.body)
    if body is None:
        return None
    body = body + [ast.Return(value=ast.Name(id=CONT, ctx=ast.Load()))]
    for b in body:
        ast.fix_missing_locations(b)
    try:
        return tx.block(body)
    except symx.Unsupported:
        return None


def r4(chk):
    # ---- audit side
    core = chk.fn(REL, "CVR.rcv_votefor_cand")
    sk = loop_skeleton(core)
    ok = False
    detail = {}
    if sk and sk["final"] == "1":
        l = sk["loop"]
        a = norm(l.target)
        tx = Tx()
        # rank_cand is bound by a walrus in the guard
        for ne in ast.walk(core):
            if isinstance(ne, ast.NamedExpr) and isinstance(ne.value, ast.Call) and norm(ne.value.func) == "self.get_vote_for":
                tx.env.setdefault(ne.target.id, Tx().expr(ne.value))
        for st0 in core.body:
            if isinstance(st0, ast.Assign) and isinstance(st0.targets[0], ast.Name) and isinstance(st0.value, ast.Call) \
                    and norm(st0.value.func) == "self.get_vote_for":
                tx.env.setdefault(st0.targets[0].id, Tx().expr(st0.value))
        it = iteration_term(l, tx)
        ga, gc = f"self.get_vote_for(contest_id, {a})", "self.get_vote_for(contest_id, cand)"
        want_kill = c_and(c_not(spec.cond_term(f"{a} == cand")), ("atom", f"truthy({ga})"), c_not(("atom", f"lt({gc},{ga})")))
        okk = it is not None and symx.equivalent(it, I(want_kill, E(sp.Integer(0)), E(S(CONT))))[0]
        okc = norm(l.iter) == "remaining"
        # pre-guards: cand not in remaining -> 0 ; unranked cand -> 0  (translate the function with the loop abstracted away)
        pre = _pre_guards(core, l)
        want_pre = c_or(c_not(("atom", "in(cand,remaining)")), c_not(("atom", f"truthy({gc})")))
        okp = pre is not None and aud.cond_equiv(pre, want_pre)[0]
        ok = okk and okc and okp
        detail = dict(collection=norm(l.iter), iteration=repr(it)[:300], zero_guards=fmt_cond(pre) if pre is not None else None)
    chk.ob("C14.R4", W("CVR.rcv_votefor_cand"), "nen-form[audit]", ok,
           "audit side: 1 iff cand is in `remaining`, is ranked, and no other candidate of `remaining` is ranked at or before it "
           "(exists-early-return loop over `remaining`)", node=core, **detail)
    # ---- generator side
    rai = chk.fn(RU, "vote_for_cand")
    sk = loop_skeleton(rai)
    ok = False
    detail = {}
    if sk and sk["final"] == "1":
        l = sk["loop"]
        okc = norm(l.iter) == "ballot.items()" and isinstance(l.target, ast.Tuple)
        if okc:
            a, ai = [norm(e) for e in l.target.elts]
            tx = Tx()
            for s in rai.body:
                if isinstance(s, ast.Assign) and isinstance(s.targets[0], ast.Name):
                    tx._assign(s.targets[0], tx.expr(s.value))
            it = iteration_term(l, tx)
            ic = "ranking(cand, ballot)"
            want_kill = c_and(c_not(spec.cond_term(f"{a} == cand")), c_not(spec.cond_term(f"{a} in eliminated")), ("atom", f"lt({ai},{ic})"))
            okk = it is not None and symx.equivalent(it, I(want_kill, E(sp.Integer(0)), E(S(CONT))))[0]
            pre = _pre_guards(rai, l)
            want_pre = c_or(("atom", "in(cand,eliminated)"), ("atom", f"eq(-1,{ic})"))
            okp = pre is not None and aud.cond_equiv(pre, want_pre)[0]
            ok = okk and okp
            detail = dict(collection=norm(l.iter), iteration=repr(it)[:300], zero_guards=fmt_cond(pre) if pre is not None else None)
    chk.ob("C14.R4", f"{RU}:vote_for_cand", "nen-form[generator]", ok,
           "generator side: 1 iff cand is not eliminated, is ranked, and no other non-eliminated candidate on the ballot has a smaller index "
           "(exists-early-return loop over the ballot)", node=rai, **detail)
    # ---- (i) remaining = candidates minus eliminated at the creation site
    maj = chk.fn(REL, "Assertion.make_assertions_from_json")
    defs = {norm(s.targets[0]): s.value for s in ast.walk(maj) if isinstance(s, ast.Assign) and isinstance(s.targets[0], ast.Name)}
    ok = False
    lam = [l for l in aud.lambdas_in(maj) if "rcv_votefor_cand" in norm(l.body)]
    wn, ln = outer_pair_names(maj)
    # the list handed over as `remaining`: the default bound to the lambda parameter used as third argument
    rem_outer = None
    if lam:
        calls = [c for c in ast.walk(lam[0].body) if isinstance(c, ast.Call) and norm(c.func).endswith("rcv_votefor_cand") and len(c.args) == 3]
        if calls and isinstance(calls[0].args[2], ast.Name):
            pname = calls[0].args[2].id
            a = lam[0].args
            dmap = dict(zip([x.arg for x in a.args][len(a.args) - len(a.defaults):], a.defaults))
            if pname in dmap and isinstance(dmap[pname], ast.Name):
                rem_outer = dmap[pname].id
    if rem_outer in defs and isinstance(defs[rem_outer], ast.ListComp):
        e1, t1, i1, f1 = aud.single_gen(defs[rem_outer])
        if len(f1) == 1 and isinstance(f1[0], ast.Compare) and isinstance(f1[0].ops[0], ast.NotIn) and isinstance(f1[0].comparators[0], ast.Name):
            el = f1[0].comparators[0].id
            if el in defs and isinstance(defs[el], ast.ListComp):
                e2, t2, i2, f2 = aud.single_gen(defs[el])
                ok = norm(e1) == norm(t1) and norm(i1) == "candidates" and norm(f1[0].left) == norm(t1) \
                    and norm(e2) == norm(t2) and norm(i2).endswith(("['already_eliminated']", '["already_eliminated"]')) and not f2
    passes = False
    if lam:
        v, t_in = aud.lambda_term(lam[0], Tx(env={rem_outer or "remn": E(S("REMN")), wn: E(S("WINR")), ln: E(S("LOSR"))}), arg_names=["v"])
        if isinstance(v, E):
            apps = sorted(sp.sstr(a) for a in v.e.atoms(sp.core.function.AppliedUndef))
            passes = apps == ["v.rcv_votefor_cand(contest.id, LOSR, REMN)", "v.rcv_votefor_cand(contest.id, WINR, REMN)"] and \
                is_zero(v.e - (sp.Function("v.rcv_votefor_cand")(S("contest.id"), S("WINR"), S("REMN")) - sp.Function("v.rcv_votefor_cand")(S("contest.id"), S("LOSR"), S("REMN")) + 1) / 2)
    chk.ob("C14.R4", W("Assertion.make_assertions_from_json"), "remaining=candidates-eliminated", ok and passes,
           "the audit-side predicate is called with remaining = [c in candidates if c not in already_eliminated] for the assertion's own winner "
           "and loser, so 'in remaining' <=> 'not eliminated' for every candidate", node=maj)


def _pre_guards(fn, loop):
    """condition under which the function returns 0 before reaching the loop."""
    # replace the loop (and what follows in its block) by `return REACHED`
    import copy

    f2 = _dc(fn)
    target_line = loop.lineno

    class R(ast.NodeTransformer):
        def visit_For(self, node):
            if node.lineno == target_line:
                return ast.Return(value=ast.Name(id="REACHED", ctx=ast.Load()))
            return node

    f2 = R().visit(f2)
    ast.fix_missing_locations(f2)
    # drop statements after a Return in the same block
    def trim(stmts):
        out = []
        for s in stmts:
            for fld in ("body", "orelse"):
                if hasattr(s, fld) and isinstance(getattr(s, fld), list):
                    setattr(s, fld, trim(getattr(s, fld)))
            out.append(s)
            if isinstance(s, ast.Return):
                break
        return out
    f2.body = trim(f2.body)
    try:
        v, _ = spec.term(f2)
    except symx.Unsupported:
        return None
    zero = False
    for row in rows(val_atoms(v)):
        pass
    # cond(value == 0)
    def to_cond(val):
        if isinstance(val, I):
            return c_or(c_and(val.c, to_cond(val.a)), c_and(c_not(val.c), to_cond(val.b)))
        if isinstance(val, E):
            return bool(val.e == 0)
        return False
    return to_cond(v)


def r5(chk):
    init = chk.fn(REL, "Assorter.__init__")
    lams = aud.lambdas_in(init)
    ok = False
    if len(lams) == 1:
        v, _ = aud.lambda_term(lams[0], Tx(), arg_names=["cvr"])
        if isinstance(v, E):
            w, l = sp.Function("self.winner")(S("cvr")), sp.Function("self.loser")(S("cvr"))
            ok = is_zero(v.e - (w - l + 1) / 2)
    chk.ob("C14.R5", W("Assorter.__init__"), "default-combination", ok,
           "an assorter built from winner/loser predicates is (winner(cvr) - loser(cvr) + 1)/2", node=init)
    # the WINNER_ONLY site passes winner_func / loser_func in the right slots
    maj = chk.fn(REL, "Assertion.make_assertions_from_json")
    calls = [c for c in ast.walk(maj) if isinstance(c, ast.Call) and norm(c.func) == "Assorter"]
    ok = False
    ldefs = {norm(s.targets[0]): s.value for s in ast.walk(maj) if isinstance(s, ast.Assign) and isinstance(s.targets[0], ast.Name)
             and isinstance(s.value, ast.Lambda)}
    for c in calls:
        kw = {k.arg: k.value for k in c.keywords}
        if "winner" in kw or "loser" in kw:
            w_l = ldefs.get(norm(kw["winner"])) if "winner" in kw else None
            l_l = ldefs.get(norm(kw["loser"])) if "loser" in kw else None
            ok = w_l is not None and l_l is not None and "get_vote_for" in norm(w_l.body) and "rcv_lfunc_wo" in norm(l_l.body)
    lf = [l for l in aud.lambdas_in(maj) if "rcv_lfunc_wo" in norm(l.body)]
    ok2 = False
    wn, ln = outer_pair_names(maj)
    if lf:
        v, _ = aud.lambda_term(lf[0], Tx(env={wn: E(S("WINR")), ln: E(S("LOSR"))}), arg_names=["v"])
        ok2 = isinstance(v, E) and sp.sstr(v.e) == "v.rcv_lfunc_wo(contest.id, WINR, LOSR)"
    chk.ob("C14.R5", W("Assertion.make_assertions_from_json"), "neb-slots", ok and ok2,
           "the NEB assorter is built from winner_func (first preference for the winner) and loser_func = rcv_lfunc_wo(contest, winner, loser) "
           "in the winner / loser slots, for the assertion's own pair", node=maj)
    chk.borrow(c06.r5, {"C06.R5": "C14.R5"})
    # "the assorter mean exceeds 1/2 exactly when the tally comparison holds": the mean is over the cards that carry the contest
    # (C02.R5), numerator and denominator alike
    from . import c02 as _c02
    chk.borrow(_c02.r5_mean, {"C02.R5": "C14.R5"})
    chk.obs = [o for o in chk.obs if not (o.rule == "C14.R5" and not (o.key.startswith("late-binding") or o.key.startswith("nen-assorter")
                                                                      or o.key in ("default-combination", "neb-slots", "mean-population")))]
