"""C01 -- risk limit: the structural hypotheses of Ville's inequality."""
from __future__ import annotations

import ast

import sympy as sp

from ..core import AnalysisError, norm
from .. import nnm, symx, nnm_rules as R
from ..npflow import Arr, Sc, Tup, TOP, CONST, NINF
from ..astutil import walk_local
from ..symx import cond_atoms, eval_cond, rows
from .c05 import factor_leaves, predictable

META = dict(
    text="A probability over all orderings cannot be computed statically. Decided instead, for all inputs, is every "
         "hypothesis under which Ville's inequality yields the bound: (R1) the history is min(1,1/T) with T one running "
         "product; (R2) each factor is affine in the current draw with value 1 at the null conditional mean; (R3) every "
         "other operand of the factor (eta_j, lambda_j, mu_j) is predictable -- lag <= -1 -- for every shipped "
         "estimator/bet; (R4) the null conditional mean is (N t - S_j)/(N-j+1) with the exclusive running sum; (R5) "
         "in-place overrides are conservative (p=1) or confined to null-impossible events; (R6) the generalised SPRT "
         "refuses finite N without random order. Together with non-negative factors (C13) T is a non-negative "
         "supermartingale under every null population.",
    note="Trusted: Ville's inequality / the ALPHA supermartingale theorem (the final probabilistic step), sympy.cancel, "
         "the npflow operator table. Not decided: floating point, the probability statement itself, and the sign of the "
         "slope eta_j >= mu_j for fixed_alternative_mean/optimal_comparison (C13 known findings K2).",
    technique="dependency-lag dataflow + AST-to-algebra identities + override classification",
)
META["text"] += ' (R7 = C13.R3) the registered bets stay in [0, 1/mu_j], so the betting factors are non-negative as well.'
META["text"] += ' (R8, N) NonnegMean.py keeps no state between calls: outside __init__ nothing is stored into self or a module-level object (a cache whose guard compares every input of the cached value with the stored key excepted), no global, no mutable default. Every check also records (R0) that each function it reads is what a call of its name executes (no wrapping decorator, no re-binding).'
META["text"] += ' R1 also requires the composition: the history is min(1, 1/T) of that product with nothing applied on top. (R6 also) the constructor keeps its positional protocol (test, estim, bet, u, N, t, random_order).'
META["text"] += " R7 also: the super-majority test is constructed with the assorter's own bound (the default eta is fixed from the construction-time u) and no tuning array inherits an integer sample's dtype."
META["text"] += ' (R9, N, whole package) who-may-write on the attributes of a test object (constructor, and `u` at three confirmed sites).'
META["text"] += ' (R10, N, frame condition on arguments) the history reported for an assertion is the one its own evaluation produced: nothing is appended to a list the caller (or a default) shares (aud.ARG_EFFECTS over the Assertion methods).'

REL = nnm.REL


def run(chk):
    from .. import aud as _aud8
    _aud8.argument_effects(chk, 'C01.R10', 'shangrla/core/Audit.py', 'the history reported for an assertion is the one its own evaluation produced: nothing is appended to a list the caller (or a default) shares', only=lambda q: q.startswith('Assertion.'))
    idx = chk.idx
    R.rule_ctor_signature(chk, "C01.R6")
    R.rule_stateless(chk, "C01.R8")  # first: its refutations stand even if a later rule cannot read the code
    from .. import aud as _aud
    _aud.test_config_writers(chk, "C01.R9", "Ville's inequality needs the bets and alternatives to be fixed functions of the past observations")
    reg = nnm.registry(idx)
    fl = nnm.flow(idx, reg)
    chk.explain(
        "Hypotheses of Ville's inequality checked on the AST of NonnegMean.py: R1 single product (term form), R2 unit "
        "conditional mean (d2f/dx2 == 0 and f(x = mu) == 1 by sympy.cancel, finite and infinite N), R3 predictability "
        "(lag of every factor operand and of every registered estimator/bet <= -1), R4 null-mean formula identity at "
        "the 3 sites computing it, R5 override classification (constant in [0,1], or +inf under mu_j<0 / total > N t), "
        "R6 finite-N SPRT requires random order."
    )
    chk.trust("Ville's inequality for non-negative supermartingales (published theorem)", "sympy.cancel",
              "npflow operator table", "recipe table in sa/nnm.py")
    chk.assume("factors are non-negative (C13)", "data lie in [0,u] and the population mean is <= t (the null)")
    X = Arr(0, 0, True)
    tfs = R.facts(idx)
    chk.need("C01.R1", len(tfs), 6, "test methods")
    for name, tf in tfs.items():
        R.rule_factor_and_composition(chk, tf, {"single": "C01.R1", "composition": "C01.R1"})  # (the history is min(1, 1/T) of that product, nothing applied on top)
        R.rule_unit_mean(chk, tf, "C01.R2")
        R.classify_overrides(chk, tf, "C01.R5")
    # R3 predictability: registry + every operand of each factor
    n_inst = 0
    for role in ("estim", "bet"):
        for name in reg[role]:
            fr = fl.analyse(f"{nnm.CLS}.{name}", {"x": X})
            ok, txt = predictable(fr.ret)
            chk.ob("C01.R3", R.W(name), "predictable-return", ok,
                   f"{role} `{name}` is predictable: its j-th value depends on x[0..j-1] only", node=fr.fdef, abstract=txt)
            n_inst += 1
    chk.need("C01.R3", n_inst, 5, "registered estimators and bets")
    for name in reg["tests"]:
        fr = fl.analyse(f"{nnm.CLS}.{name}", {"x": X})
        cps = [c for c in walk_local(fr.fdef) if isinstance(c, ast.Call) and norm(c.func).endswith("cumprod")]
        if not cps:
            chk.ob("C01.R3", R.W(name), "factor-operands", False,
                   "the factor operands could not be located: no cumulative product in the method", node=fr.fdef)
            continue
        for cp in cps:
            if not cp.args:
                continue
            def expand(expr, seen=()):
                out = []
                for lf in factor_leaves(expr):
                    # a local temporary holding part of the factor: look through its (last) definition
                    if isinstance(lf, ast.Name) and lf.id in fr.defs and fr.defs[lf.id] is not None and lf.id not in seen:
                        v0 = fr.expr_abs.get(id(lf))
                        d = fr.defs[lf.id]
                        if isinstance(v0, Arr) and not v0.data and isinstance(d, (ast.BinOp, ast.UnaryOp)):
                            out.extend(expand(d, seen + (lf.id,)))
                            continue
                    out.append(lf)
                return out
            for leaf in expand(cp.args[0]):
                v = fr.expr_abs.get(id(leaf))
                if v is None or v is TOP:
                    raise AnalysisError(f"{name}: factor operand {norm(leaf)} could not be classified")
                if isinstance(v, Sc):
                    ok = v.dep == "const"
                elif isinstance(v, Arr):
                    ok = v.lag <= -1 or (v.lag == 0 and v.data)
                else:
                    ok = False
                chk.ob("C01.R3", R.W(name), f"operand:{norm(leaf)[:50]}", ok,
                       "every operand of the multiplicative factor other than the current draw is predictable",
                       node=leaf, abstract=str(v))
    R.rule_null_mean(chk, idx, "C01.R4", tfs)
    # R6 optional stopping: finite-N SPRT without random order must be refused
    tf = tfs["wald_sprt"]
    want_ok = False
    for gd in tf.an.tx.guards:
        atoms = cond_atoms(gd)
        if R.FIN in atoms and R.RAND in atoms:
            ok_rows = all(eval_cond(gd, row) == ((not row[R.FIN]) or row[R.RAND]) for row in rows(atoms))
            want_ok = want_ok or ok_rows
    chk.ob("C01.R6", R.W("wald_sprt"), "finite-N-needs-random-order", want_ok,
           "the generalised SPRT raises for finite N when the sample is not declared to be in random order",
           node=tf.an.fdef, guards=[symx.fmt_cond(g) for g in tf.an.tx.guards], strength="N")
    for name in ("kaplan_kolmogorov", "kaplan_markov", "kaplan_wald", "wald_sprt"):
        an = tfs[name].an
        uses = R.RAND in symx.val_atoms(an.overall)
        chk.ob("C01.R6", R.W(name), "extremum-guarded-by-random_order", uses,
               "the extremum over the history is taken only when random_order is set", node=an.ret, strength="N")
    # R7: a supermartingale has to be non-negative for Ville's inequality: the betting factors 1 + lam_j (x_j - mu_j) are, for
    # every x_j >= 0, exactly when 0 <= lam_j <= 1/mu_j -- the range rule of the registered bets (C13.R3)
    from . import c13
    chk.borrow(c13.run, {"C13.R3": "C01.R7"})
    # ... and the ALPHA factors when eta_j lies in [0, u]: the default eta is fixed from the u the test object is constructed
    # with (C02.R2 three sites agree), and no tuning array inherits an integer sample's dtype (C12.R6)
    from . import c02 as _c02, c12 as _c12
    _n0 = len(chk.obs)
    chk.borrow(_c02.r3_supermajority, {"C02.R2": "C01.R7"})
    chk.obs = chk.obs[:_n0] + [o for o in chk.obs[_n0:] if o.rule != "C01.R7" or o.key == "three-sites-agree"]
    chk.borrow(_c12.r6_dtype, {"C12.R6": "C01.R7"})
