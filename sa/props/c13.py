"""C13 -- shipped estimators and bets keep every martingale factor non-negative."""
from __future__ import annotations

import ast

import sympy as sp

from ..core import AnalysisError, norm
from .. import nnm, symx, sign
from ..symx import eval_val, val_atoms, rows, S
from ..nnm_rules import FIN, mu, W, SX, J, x, u, N, t
from .. import nnm_rules

META = dict(
    text="For each shipped estimator / bet the returned expression is extracted from the AST and its range is "
         "established by a structural Min/Max argument plus sign reasoning under the documented parameter ranges "
         "(slack substitutions + sympy assumptions): shrink_trunc in [0,u] and strictly above the null mean, aGRAPA in "
         "[0, c/mu_j] with c<1, fixed_bet the user's constant. Where no clamp bounds the value (fixed_alternative_mean, "
         "optimal_comparison) the range cannot be established and concrete counter-examples exist: these are reported "
         "as known findings, and any new unbounded estimator is a violation.",
    note="Assumes the documented parameter ranges (c,d,minsd>0, f>=0, eta in (0,u), 0<c_grapa_0,c_grapa_max<1, "
         "c_grapa_grow>=0, data in [0,u], lambda<=1/u for fixed_bet, mu_j in (0,u] for the bet bound). Rounding "
         "(whether u(1-eps) is representable below u) is not decided.",
    technique="expression extraction from the AST + interval/sign reasoning with computer algebra",
)
META["text"] += ' (R5, N) no estimator, bet or test obtains a parameter as `value or default`, which would replace a configured 0 (a legitimate assumed error rate, shrinkage weight or padding) by the default.'
META["text"] += " (R6, N) NonnegMean's constructor stores u, N, t, random_order from its parameters and installs every keyword argument as an attribute (where the estimators and bets read their tuning parameters)."
META["text"] += ' (R7, P) formula identities: fixed_alternative_mean == (N eta - S_{j-1})/(N - j + 1) (eta with replacement), optimal_comparison == its documented closed form; a clamp around the formula is accepted. They keep changes of these two estimators from hiding behind the open findings K2a/K2b.'
META["text"] += ' R6 also: the default initial bet is the documented constant. (R8 = factor identity) the ranges speak about eta_j and lambda_j as they enter the published factor, in the finite and the infinite regime alike.'
META["text"] += " (R9, N) no method keeps state between calls (see C01.R8). R6 also: the super-majority test is constructed with the assorter's own bound (the default eta is fixed from the construction-time u)."
META["text"] += ' R5 also borrows the dtype lint (C12.R6). R6 also: the constructor keeps its positional protocol.'
META["text"] += " (R10, N, whole package) who-may-write on the test object's attributes: only the constructor, and `u` at three confirmed sites; a second copy of the margin or of a rate stored from outside is not tied to u by any rule."

REL = nnm.REL


def slack(kind, fin):
    """Assumption table: canonical symbol name -> expression over signed slack symbols."""
    P, NN, U = sign.pos, sign.nonneg, sign.unit_open
    up = P("u")
    tab = {
        "self.u": up,
        "self.t": P("t"),
        "J": 1 + NN("j0"),
        "self.N": 1 + NN("j0") + NN("r0"),  # N - J + 1 = r0 + 1 >= 1 (sample no longer than the population)
        "self.eta": up * U("q_eta"),
        "self.d": P("d"), "self.c": P("c"), "self.minsd": P("minsd"), "self.f": NN("f"),
        "EPS": U("q_eps"),
        "x": NN("x"),
        "self.c_grapa_0": U("q_c0"), "self.c_grapa_max": U("q_cm"), "self.c_grapa_grow": NN("cgrow"),
        "self.lam": U("q_lam") / up,  # documented precondition lambda <= 1/u (and >= 0)
        "self.rate_error_2": U("q_p2"),
        "(welford_mean_var(x))[0]": NN("runmean"), "(welford_mean_var(x))[1]": NN("runvar"),
    }
    return tab


def fn_rules_est(name, args):
    if name == "SX":
        return sign.nonneg("S_" + str(abs(hash(sp.sstr(args[0]))) % 1000))
    if name == "SHIFT" and len(args) == 2:
        a, c = args
        if sign.is_pos(a) and sign.is_pos(c):
            return sign.pos("shift_" + str(abs(hash(sp.sstr(a))) % 1000))
        if sign.is_nonneg(a) and sign.is_nonneg(c):
            return sign.nonneg("shift_" + str(abs(hash(sp.sstr(a))) % 1000))
        return sp.Symbol("shift_" + str(abs(hash(sp.sstr(a))) % 1000), real=True)
    return None


def store_obligations(chk, name, tx, stores, fd, role, prove):
    """In-place stores are invisible to the extracted return term, so each needs its own argument:
    a store into the *returned* array after its last (clamping) assignment must itself satisfy the bounds;
    a store into an intermediate array must keep the sign the range argument assumes (a positive constant)."""
    rets = [r for r in ast.walk(fd) if isinstance(r, ast.Return)]
    rv = rets[-1].value.id if rets and isinstance(rets[-1].value, ast.Name) else None
    last_assign = max([s0.lineno for s0 in ast.walk(fd) if isinstance(s0, ast.Assign) and rv and norm(s0.targets[0]) == rv] or [0])
    for st, target, idx_node, val_node in stores:
        try:
            v = tx.child(dict(tx.env)).expr(val_node)
        except symx.Unsupported:
            v = None
        if target == rv and st.lineno > last_assign:
            ok = isinstance(v, symx.E) and prove(v.e)
            chk.ob("C13.R3" if role == "bet" else "C13.R1", W(name), f"store-after-clamp:{norm(idx_node)[:30]}", bool(ok),
                   f"a value stored into the returned {'bets' if role == 'bet' else 'alternative means'} after the truncation satisfies the "
                   "same bounds (it bypasses the clamp)", node=st, statement=norm(st)[:120])
        else:
            ok = isinstance(v, symx.E) and v.e.is_Number and v.e > 0
            chk.ob("C13.R1", W(name), f"store-into-intermediate:{target}[{norm(idx_node)[:20]}]", bool(ok),
                   "a value stored in place into an intermediate array of the range argument is a positive constant (keeps the assumed sign)",
                   node=st, statement=norm(st)[:120])


def run(chk):
    idx = chk.idx
    nnm_rules.rule_ctor_signature(chk, "C13.R6")
    nnm_rules.rule_stateless(chk, "C13.R9")  # first: its refutations stand even if a later rule cannot read the code
    from .. import aud as _aud
    _aud.test_config_writers(chk, "C13.R10", "the range proofs read u and the tuning attributes as one consistent configuration")
    reg = nnm.registry(idx)
    chk.explain(
        "R1: every estimator's return value r satisfies 0 <= r <= u; R2: shrink_trunc's return is strictly above the "
        "null conditional mean (inner maximum with mu_j + positive), with mu_j the method's own null mean; R3: every "
        "bet b satisfies 0 <= b and b*mu_j < 1 (b <= c/mu_j with c < 1) wherever mu_j > 0; R4: a return value whose "
        "range cannot be established is reported (known findings for fixed_alternative_mean and optimal_comparison)."
    )
    chk.trust("sympy assumption system on cancelled/factored forms", "Min/Max lattice rules in sa/sign.py",
              "documented parameter ranges encoded as slack substitutions (sa/props/c13.py::slack)")
    chk.assume("sample values are non-negative (property precondition x in [0,u])",
               "sample no longer than the population (sjm asserts it)",
               "fixed_bet: the user-supplied lambda satisfies the documented 0 <= lambda <= 1/u",
               "the bet bound is claimed wherever mu_j > 0, as in the property statement",
               "optimal_comparison is used with the comparison-audit bound u = 2/(2 - v/u_a) > 1 (its documented domain)")
    n = 0
    for name in reg["estim"]:
        tx, ret, stores, fd = nnm.method_term(idx, name)
        ret = symx.prune(ret)
        for row in rows(val_atoms(ret)):
            fin = row.get(FIN)
            tag = "any" if fin is None else ("finite" if fin else "infinite")
            leaf = eval_val(ret, row)
            tab = slack("estim", fin)
            up = sign.pos("u")
            if name == "optimal_comparison":
                # documented for comparison audits only: u = 2/(2 - v/u_a) > 1 for every positive margin
                up = 1 + sign.pos("du")
                tab["self.u"] = up
            e = sign.substitute(leaf, tab, fn_rules_est)
            rule = "C13.R1" if name == "shrink_trunc" else "C13.R4"
            ok_u = sign.prove_le(e, up)
            ok_l = sign.prove_ge(e, 0)
            chk.ob(rule, W(name), f"upper-bound[{tag}]", ok_u,
                   f"estimator `{name}` returns values <= u (so u - eta_j >= 0 in the ALPHA factor)", node=fd,
                   returned=sp.sstr(leaf)[:300])
            chk.ob(rule, W(name), f"lower-bound[{tag}]", ok_l,
                   f"estimator `{name}` returns values >= 0", node=fd, returned=sp.sstr(leaf)[:300])
            n += 2
            if name == "shrink_trunc":
                # R2: strictly above the null mean (when the truncation interval is non-empty)
                m = sign.substitute(mu(bool(fin)), slack("estim", fin), fn_rules_est)
                inner = [a for a in sp.preorder_traversal(e) if isinstance(a, sp.Max)]
                ok = False
                shown = ""
                # the returned value must be Min(A, Max(..., B)) with B - mu > 0
                if isinstance(e, sp.Min):
                    for arg in e.args:
                        if isinstance(arg, sp.Max) and sign.prove_ge(arg, m, strict=True):
                            ok = True
                            shown = sp.sstr(arg)[:200]
                elif sign.prove_ge(e, m, strict=True):
                    ok = True
                chk.ob("C13.R2", W(name), f"strictly-above-null-mean[{tag}]", ok,
                       "the value is max(., mu_j + positive) before the upper truncation, with mu_j the null "
                       "conditional mean for this method's own N, t, x", node=fd, returned=sp.sstr(leaf)[:300])
    for name in reg["estim"]:
        tx, ret, stores, fd = nnm.method_term(idx, name)
        def prove_est(e, name=name):
            tab = slack("estim", True)
            up = sign.pos("u")
            ee = sign.substitute(e, tab, fn_rules_est)
            return sign.prove_ge(ee, 0) and sign.prove_le(ee, up)
        store_obligations(chk, name, tx, stores, fd, "estim", prove_est)
    for name in reg["bet"]:
        tx, ret, stores, fd = nnm.method_term(idx, name)
        def prove_bet(e):
            MUJ = sign.pos("mu_j")
            tab = slack("bet", True)
            tab["self.u"] = MUJ + sign.nonneg("du")
            tab["self.lam"] = sign.pos("lam_user")  # an arbitrary user-supplied initial bet: no bound is known for it
            ee = sign.substitute(e, tab, fn_rules_est)
            return sign.prove_ge(ee, 0) and sign.prove_le(ee, 1 / MUJ, strict=True)
        store_obligations(chk, name, tx, stores, fd, "bet", prove_bet)
        ret = symx.prune(ret)
        for row in rows(val_atoms(ret)):
            fin = row.get(FIN)
            tag = "any" if fin is None else ("finite" if fin else "infinite")
            leaf = eval_val(ret, row)
            MUJ = sign.pos("mu_j")
            tab = slack("bet", fin)
            # express the running sum through the null mean: SX = N t - mu_j (N - J + 1); infinite N: t = mu_j
            if fin is None:
                rows_mu = [True, False]
            else:
                rows_mu = [bool(fin)]
            ok_l = ok_u = True
            for fm in rows_mu:
                def fr(nm, args, fm=fm, tab=tab):
                    if nm == "SX":
                        Ns, Js, ts = tab["self.N"], tab["J"], tab["self.t"]
                        return Ns * ts - MUJ * (Ns - Js + 1)
                    return fn_rules_est(nm, args)
                tab2 = dict(tab)
                if not fm:
                    tab2["self.t"] = MUJ
                    tab2["self.u"] = MUJ + sign.nonneg("du")  # mu_j <= u
                    tab2["self.lam"] = sign.unit_open("q_lam") / tab2["self.u"]
                e = sign.substitute(leaf, tab2, fr)
                if fm:
                    # finite N: mu_j <= u as well
                    pass
                ok_l = ok_l and sign.prove_ge(e, 0)
                if name == "fixed_bet" and fm:
                    # lambda <= 1/u <= 1/mu_j needs mu_j <= u: u = mu_j + du
                    e = sign.substitute(leaf, {**tab2, "self.u": MUJ + sign.nonneg("du"),
                                               "self.lam": sign.unit_open("q_lam") / (MUJ + sign.nonneg("du"))}, fr)
                ok_u = ok_u and sign.prove_le(e, 1 / MUJ, strict=True)
            chk.ob("C13.R3", W(name), f"lower-bound[{tag}]", ok_l, f"bet `{name}` returns fractions >= 0", node=fd,
                   returned=sp.sstr(leaf)[:300])
            chk.ob("C13.R3", W(name), f"upper-bound[{tag}]", ok_u,
                   f"bet `{name}` returns fractions < 1/mu_j wherever mu_j in (0,u] (so 1 + lam (x - mu_j) >= 0 for x >= 0)",
                   node=fd, returned=sp.sstr(leaf)[:300])
            n += 2
    chk.need("C13", n, 10, "range obligations")
    # R6 also: the default initial bet.  fixed_bet has no clamp, so its range rests on the value of lam alone: the documented
    # 0 <= lam <= 1/u holds for the default only if the default is a number no larger than 1/(default u); it is supplied at more
    # than one place and they must agree.
    import ast as _ast
    init = idx.func(nnm.REL, f"{nnm.CLS}.__init__")
    sites = {}
    for fq in [f"{nnm.CLS}.__init__"] + [f"{nnm.CLS}.{b}" for b in reg["bet"]]:
        fdx = idx.func_x(nnm.REL, fq)  # (helpers expanded: the default may be supplied in a private helper)
        for c_ in _ast.walk(fdx):
            if isinstance(c_, _ast.Call) and ((norm(c_.func) == "kwargs.get" and c_.args and norm(c_.args[0]) in ("'lam'", '"lam"')) or
                                              (norm(c_.func) == "getattr" and len(c_.args) == 3 and norm(c_.args[1]) in ("'lam'", '"lam"'))):
                sites[fq] = c_.args[-1]
    vals = {}
    for fq, d_ in sites.items():
        try:
            vals[fq] = symx.Tx().expr(d_)
        except symx.Unsupported:
            vals[fq] = None
    u_def = next((norm(d_) for a_, d_ in zip([a.arg for a in init.args.args][-len(init.args.defaults):], init.args.defaults) if a_ == "u"), None)
    nums = [v_.e for v_ in vals.values() if isinstance(v_, symx.E) and v_.e.is_Number]
    okd = len(nums) == len(sites) >= 2 and len(set(nums)) == 1 and u_def is not None \
        and 0 <= nums[0] and nums[0] * sp.Rational(str(u_def)) <= 1
    chk.ob("C13.R6", W("__init__"), "default-initial-bet", bool(okd),
           "the default initial bet lam is one and the same number at every place that supplies it, within [0, 1/u] for the default u "
           "(not an expression in t or u, which the null mean leaves behind as the sample is drawn)", node=init, strength="N",
           defaults={k: norm(v) for k, v in sites.items()}, default_u=u_def)
    # R6 also: the ranges are relative to u, and the default alternative eta = t + (u - t)/2 is fixed from the u the test object
    # is *constructed* with: the one place where that differs from 1, the super-majority assertion, constructs its test with the
    # assorter's own bound 1/(2 share) (C02.R2 / C06.R6, three sites agree)
    from . import c02 as _c02
    _n0 = len(chk.obs)
    chk.borrow(_c02.r3_supermajority, {"C02.R2": "C13.R6"})
    chk.obs = chk.obs[:_n0] + [o for o in chk.obs[_n0:] if o.rule != "C13.R6" or o.key == "three-sites-agree"]
    # R5 also: the ranges are ranges of real numbers; an array that inherits an integer sample's dtype truncates them (C12.R6)
    from . import c12 as _c12
    chk.borrow(_c12.r6_dtype, {"C12.R6": "C13.R5"})
    # R8: the ranges above speak about eta_j and lambda_j *as they enter the factor* 1 + lambda_j (x_j - mu_j) resp. the ALPHA factor:
    # the factor identity (C12.R1) ties the test statistic to them
    from .. import nnm_rules as _NR
    for _tf in _NR.facts(idx).values():
        _NR.rule_factor_and_composition(chk, _tf, {"identity": "C13.R8"})
    # R5: how parameters reach the formulas.  The ranges above are established for the parameter values the caller configured;
    # `value or default` replaces a configured 0 by the default (0 is a legitimate -- for f, g and c_grapa_grow even the default --
    # value: an assumed two-vote error rate of 0, no shrinkage weight, no padding), and the formulas are then evaluated at a
    # parameter the caller did not choose.
    import ast as _ast
    from ..astutil import parent as _parent
    n5 = 0
    for role in ("estim", "bet", "tests"):
        for name in reg[role]:
            fd = idx.func(nnm.REL if hasattr(nnm, "REL") else "shangrla/core/NonnegMean.py", f"{nnm.CLS}.{name}")
            bad = []
            for b in _ast.walk(fd):
                if not (isinstance(b, _ast.BoolOp) and isinstance(b.op, _ast.Or)):
                    continue
                reads = [v for v in b.values[:-1] if (isinstance(v, _ast.Call) and (norm(v.func) == "getattr" or norm(v.func).endswith(".get")))
                         or (isinstance(v, _ast.Attribute) and norm(v.value) == "self")]
                if not reads:
                    continue
                # in a condition the truth value is what is wanted; as a value it is a defaulting idiom
                p_ = _parent(b)
                in_cond = False
                while p_ is not None and not isinstance(p_, _ast.stmt):
                    if isinstance(p_, (_ast.Compare, _ast.UnaryOp)) or (isinstance(p_, _ast.IfExp) and p_.test is b):
                        in_cond = True
                    p_ = _parent(p_)
                if isinstance(p_, (_ast.If, _ast.While, _ast.Assert)) and not isinstance(p_, _ast.Assign):
                    in_cond = True
                if not in_cond:
                    bad.append(norm(b)[:100])
            chk.ob("C13.R5", W(name), "parameters-not-defaulted-through-or", not bad,
                   "parameters are read with an explicit default (getattr(self, name, default)); none is obtained as `value or "
                   "default`, which would replace a configured 0", node=fd, strength="N", or_defaults=bad)
            n5 += 1
    chk.need("C13.R5", n5, 11, "registered estimators, bets and tests")
    # R7: the fixed alternative is the *conditional* alternative mean.  The open findings K2a are statements about this very
    # formula (it is not clamped); a different formula is a different violation and must not hide behind them.
    tx_, ret_, st_, fd_ = nnm.method_term(idx, "fixed_alternative_mean")
    ret_ = symx.prune(ret_)
    okf = True
    seen_rows = 0
    Ns, eta_, J_, SX_ = sp.Symbol("self.N"), sp.Symbol("self.eta"), sp.Symbol("J"), sp.Function("SX")(sp.Symbol("x"))
    for row in rows(val_atoms(ret_)):
        fin = row.get(FIN)
        leaf = eval_val(ret_, row)
        seen_rows += 1
        want = (Ns * eta_ - SX_) / (Ns - J_ + 1) if fin else eta_
        # a clamp around the formula (the repair of K2a a maintainer might make) leaves the formula what it is
        core = leaf
        while isinstance(core, (sp.Min, sp.Max)):
            inner = [a for a in core.args if eta_ in a.free_symbols]
            if len(inner) != 1:
                break
            core = inner[0]
        try:
            okf = okf and fin is not None and sp.cancel(sp.together(core - want)) == 0
        except Exception:
            okf = False
    chk.ob("C13.R7", W("fixed_alternative_mean"), "conditional-alternative-mean", okf and seen_rows == 2,
           "fixed_alternative_mean returns (N eta - S_{j-1})/(N - j + 1) without replacement and eta with replacement: the mean of "
           "what is left if the alternative is true", node=fd_, returned=repr(ret_)[:200])
    tx_, ret_, st_, fd_ = nnm.method_term(idx, "optimal_comparison")
    ret_ = symx.prune(ret_)
    u_, p2_ = sp.Symbol("self.u"), sp.Symbol("self.rate_error_2")
    want = (1 - u_ * (1 - p2_)) / (2 - 2 * u_) + u_ * (1 - p2_) - sp.Rational(1, 2)
    okf = isinstance(ret_, symx.E) and sp.cancel(sp.together(ret_.e - want)) == 0
    chk.ob("C13.R7", W("optimal_comparison"), "documented-closed-form", okf,
           "optimal_comparison returns (1 - u(1 - p2))/(2 - 2u) + u(1 - p2) - 1/2 with p2 the configured two-vote error rate (the "
           "open finding K2b is a statement about this closed form)", node=fd_, returned=repr(ret_)[:200])
    # R6: u, N, t are what the caller passed, and tuning parameters given as keyword arguments become attributes
    from .. import aud as _aud
    _aud.ctor_fields(chk, "C13.R6", nnm.REL, nnm.CLS, ["u", "N", "t", "random_order"], "the ranges are stated in terms of the configured u, N, t")
    init = idx.func(nnm.REL, f"{nnm.CLS}.__init__")
    kw = init.args.kwarg.arg if init.args.kwarg else None
    upd = [c for c in _ast.walk(init) if isinstance(c, _ast.Call) and norm(c.func) == "self.__dict__.update" and len(c.args) == 1 and kw and norm(c.args[0]) == kw]
    top = [c for c in upd if _parent(_parent(c)) is init]
    chk.ob("C13.R6", W("__init__"), "keyword-parameters-become-attributes", len(top) == 1,
           "every keyword argument (eta, c, d, f, minsd, lam, c_grapa_*, rate_error_2, g, ...) is installed as an attribute, which is "
           "where the estimators and bets read it from", node=init, strength="N")


def thorough(chk):
    idx = chk.idx
    reg = nnm.registry(idx)
    for name in reg["unregistered"]:
        chk.ob("C13.R4", W(name), "unregistered-sample-callable", False,
               f"method `{name}` takes a sample but is in neither role table; its range has not been established")
