"""C18 -- merging records for one card loses nothing and keeps its flags meaningful."""
from __future__ import annotations

import ast

import sympy as sp

from ..core import AnalysisError, norm
from .. import symx, spec, aud
from ..aud import REL, W
from ..symx import Tx, E, I, S, is_zero, fmt_cond, c_or, c_and, c_not
from ..astutil import walk_local, stores, parent, attr_stores
from ..cfg import whole_collection

META = dict(
    text="By form, for every list of records: (R1) an insertion-ordered mapping keyed by the card id receives a record only "
         "when the id is absent and its values are returned in order -- one record per id, first-appearance order; (R2) the "
         "votes of a repeated id become a dict merge whose right operand is the later record (union of contests, later wins); "
         "(R3) phantom := later.phantom and earlier.phantom, and every store to .pool in the merge is a boolean `or` of .pool "
         "attributes only (so the flag stays a genuine true/false value); (R4) the tally-pool update equals the keep/adopt/"
         "raise table (exhaustive); (R5) the RAIRE reader gives rank k to the k-th listed candidate, skips the declared header "
         "lines and returns the merged list.",
    note="Assumes OrderedDict/dict preserve insertion order (language guarantee) and that .pool/.phantom of the inputs are "
         "booleans. Consumers of the pooled flag are enumerated in the evidence.",
    technique="ordered-merge form recogniser, boolean typing of flag stores, exhaustive decision table, affine index arithmetic",
)
META["text"] += ' R5 includes CVR.from_vote (the one-contest record the RAIRE reader builds: votes == {contest_id: vote}, id and phantom flag passed on).'
META["text"] += ' R2 requires the union to be a new dict (an in-place update would write into a dict other records may share).'
META["text"] += ' R3 also: the flag stores are executed for every repeated record (not inside a branch of the tally-pool reconciliation).'
META["text"] += ' R1 refutes grouping by itertools.groupby over the unsorted list (adjacent records only).'
META["text"] += ' R5 also: the row loop skips no row.'
META["text"] += ' R3 also: phantom, pool, tally_pool, votes and id are plain attributes of a CVR.'
META["text"] += " (R6, N, frame condition on arguments) merging builds new records' contents from the records given: every function in scope changes the objects it is handed only in the ways confirmed for it (aud.ARG_EFFECTS); references are followed through aliases, elements, attributes, loop variables, .get/.items/.values and np.asarray, resolved by the bindings that reach the use."

SPEC_TP = '''
def spec(old, new):
    if new is None or old == new:
        return old
    elif old is None:
        return new
    else:
        raise ValueError()
'''


def run(chk):
    from .. import aud as _aud8
    _aud8.argument_effects(chk, 'C18.R6', 'shangrla/core/Audit.py', "merging builds new records' contents from the records given", only=lambda q: q.startswith('CVR.'))
    idx = chk.idx
    chk.explain(
        "R1 ordered merge keyed by id; R2 dict merge with the later record on the right; R3 flag stores are boolean expressions "
        "over the .phantom/.pool attributes only; R4 tally-pool keep/adopt/raise table; R5 RAIRE reader rank arithmetic, header "
        "skipping and merge."
    )
    chk.trust("dict / OrderedDict preserve insertion order", "symx translation and exhaustive tables")
    chk.assume("the .pool and .phantom attributes of the input records are booleans")
    aud.ctor_fields(chk, "C18.R3", REL, "CVR", ["phantom", "pool", "tally_pool", "votes", "id"],
                    "the merge assigns the flags one after the other: what is read back is what was stored")
    from ..canon import inline_aliases
    fn = inline_aliases(chk.fn(REL, "CVR.merge_cvrs"))  # canonical form: `first = od[c.id]` style aliases substituted
    where = W("CVR.merge_cvrs")
    # R1
    inits = [s for s in fn.body if isinstance(s, ast.Assign) and isinstance(s.value, (ast.Call, ast.Dict))
             and norm(s.value) in ("OrderedDict()", "{}", "dict()", "collections.OrderedDict()")]
    loops = [l for l in fn.body if isinstance(l, ast.For)]
    adj = aud.adjacent_grouping(fn)
    if adj:
        # records of one card need not be adjacent (a RAIRE file lists contest after contest): itertools.groupby merges runs
        chk.ob("C18.R1", where, "one-record-per-id-in-first-appearance-order", False,
               "one record per identifier: records are collected in a mapping keyed by the id (groupby over the unsorted list "
               "groups adjacent records only)", node=adj[0], grouping=[norm(c_)[:80] for c_ in adj])
        return
    if len(inits) != 1 or len(loops) != 1:
        raise AnalysisError("merge_cvrs: expected one mapping initialisation and one loop")
    od = norm(inits[0].targets[0])
    l = loops[0]
    c = norm(l.target)
    ifs = [s for s in l.body if isinstance(s, ast.If)]
    ok = False
    detail = {}
    merge_body = None
    if ifs and l.body[0] is ifs[0] and norm(l.iter) == "cvr_list":
        i = ifs[0]
        t = norm(i.test)
        absent = t in (f"{c}.idnotin{od}", f"not{c}.idin{od}", f"{c}.idnotin{od}.keys()")
        present = t in (f"{c}.idin{od}", f"{c}.idin{od}.keys()")
        rest = l.body[1:]
        ins = None
        if absent and i.orelse and not rest:
            ins, merge_body = i.body, i.orelse                       # if absent: insert  else: merge
        elif present and i.orelse and not rest:
            ins, merge_body = i.orelse, i.body                       # if present: merge  else: insert
        elif absent and not i.orelse and i.body and isinstance(i.body[-1], ast.Continue):
            ins, merge_body = i.body[:-1], rest                       # if absent: insert; continue   <merge statements>
        if ins is not None:
            sts = [(tt, v, s) for tt, v, s in stores(ast.Module(body=list(ins), type_ignores=[]))]
            ok = len(sts) == 1 and norm(sts[0][0]) == f"{od}[{c}.id]" and norm(sts[0][1]) == c and len(ins) == 1
            # the merge branch never re-inserts the key
            reins = [s for tt, v, s in stores(ast.Module(body=list(merge_body), type_ignores=[])) if norm(tt) == f"{od}[{c}.id]"]
            dels = [n for n in ast.walk(ast.Module(body=list(merge_body), type_ignores=[])) if isinstance(n, ast.Delete)
                    or (isinstance(n, ast.Call) and isinstance(n.func, ast.Attribute) and n.func.attr in ("pop", "move_to_end", "popitem", "clear"))]
            ok = ok and not reins and not dels
            detail["test"] = norm(i.test)
    esc = [n for n in walk_local(l) if isinstance(n, (ast.Break, ast.Return))]
    esc += [n for n in walk_local(l) if isinstance(n, ast.Continue) and not (ifs and ifs[0].body and n is ifs[0].body[-1])]
    chk.ob("C18.R1", where, "insert-iff-absent", ok and not esc,
           "a record enters the mapping under its id only when the id is absent; the merge branch neither re-inserts nor removes; "
           "every input record is visited", node=l, **detail)
    rets = [r for r in walk_local(fn) if isinstance(r, ast.Return)]
    ok = len(rets) == 1 and norm(rets[0].value) in (f"[vforvin{od}.values()]", f"list({od}.values())", f"[*{od}.values()]")
    chk.ob("C18.R1", where, "values-in-order", ok, "the result is the mapping's values in insertion (first-appearance) order",
           node=rets[0] if rets else fn)
    if merge_body is None:
        return
    mb = ast.Module(body=list(merge_body), type_ignores=[])
    tgt = f"{od}[{c}.id]"
    # R2
    vs = [(t, v, s) for t, v, s in stores(mb) if isinstance(t, ast.Attribute) and t.attr == "votes" and norm(t.value) == tgt]
    ok = False
    if len(vs) == 1:
        v = vs[0][1]
        if isinstance(v, ast.Dict) and all(k is None for k in v.keys) and len(v.values) == 2:
            ok = norm(v.values[0]) == f"{tgt}.votes" and norm(v.values[1]) == f"{c}.votes"
        elif isinstance(v, ast.BinOp) and isinstance(v.op, ast.BitOr):
            ok = norm(v.left) == f"{tgt}.votes" and norm(v.right) == f"{c}.votes"
    # an in-place `.votes.update(..)` / `.votes[k] = ..` would write into the first record's dict object, which other records of
    # the input may share (a ballot-style template, the constructor's mutable default): the union must be a new dict
    inplace = [norm(x)[:70] for x in ast.walk(mb) if isinstance(x, ast.Call) and isinstance(x.func, ast.Attribute)
               and x.func.attr in ("update", "setdefault", "pop", "clear", "popitem") and norm(x.func.value).endswith(".votes")]
    inplace += [norm(s0)[:70] for t, v0, s0 in stores(mb) if isinstance(t, ast.Subscript) and norm(t.value).endswith(".votes")]
    chk.ob("C18.R2", where, "union-later-wins", ok and not inplace,
           "the merged votes are the new dict {**earlier.votes, **later.votes}: union of contests, the later record winning within a "
           "contest, no input dict written in place", node=vs[0][2] if vs else l, in_place_writes=inplace)
    # R3 flags
    for flag, op, opname in (("phantom", ast.And, "and"), ("pool", ast.Or, "or")):
        fs = [(t, v, s) for t, v, s in stores(mb) if isinstance(t, ast.Attribute) and t.attr == flag and norm(t.value) == tgt]
        if not fs:
            chk.ob("C18.R3", where, f"{flag}-store", False, f"the merged record's {flag} flag is updated", node=l)
            continue
        for k, (t, v, s) in enumerate(fs):
            typed = isinstance(v, ast.BoolOp) and isinstance(v.op, op) and all(
                isinstance(x, ast.Attribute) and x.attr == flag and norm(x.value) in (c, tgt) for x in v.values)
            sem = False
            if typed:
                got = Tx().cond(v)
                want = spec.cond_term(f"{c}.{flag} {opname} {tgt}.{flag}")
                sem = aud.cond_equiv(got, want)[0]
            uncond = any(s is m_ for m_ in merge_body)  # for every repeated record, whatever its tally pool says
            chk.ob("C18.R3", where, f"{flag}-store" if flag == "pool" else f"{flag}-store", typed and sem and uncond,
                   f"every store to .{flag} in the merge is `later.{flag} {opname} earlier.{flag}`: a boolean expression over the "
                   f".{flag} attributes only (so the flag remains a true/false value), executed for every repeated record",
                   node=s, statement=norm(s)[:120], store_index=k, unconditional=uncond)
    # R4 tally pool
    tp_if = [s for s in merge_body if "tally_pool" in norm(s)]
    ok = False
    detail = {}
    if tp_if:
        tx = Tx(env={f"@{tgt}.tally_pool": E(S(f"{tgt}.tally_pool"))})
        tx.block(list(tp_if))
        got = tx.env.get(f"@{tgt}.tally_pool")
        for g in tx.guards:
            got = I(g, got, symx.Raise("ValueError"))
        want, wtx = spec.spec_term(SPEC_TP, env={"old": E(S(f"{tgt}.tally_pool")), "new": E(S(f"{c}.tally_pool"))})
        old_none, new_none = f"isnone({tgt}.tally_pool)", f"isnone({c}.tally_pool)"
        eq = "eq(" + ",".join(sorted([f"{c}.tally_pool", f"{tgt}.tally_pool"])) + ")"
        cons = [lambda r: not (r.get(old_none) and r.get(new_none)) or r.get(eq, True),
                lambda r: not (r.get(old_none) != r.get(new_none)) or not r.get(eq, False)]
        ok, n, cex = symx.equivalent(symx.prune(got), want, constraints=cons)
        detail = dict(rows=n, counterexample=cex)
        chk.exhaustive = True
    chk.ob("C18.R4", where, "tally-pool-table", ok,
           "tally pool: keep when equal or the later one is unset; adopt the later one when the earlier is unset; otherwise raise",
           node=tp_if[0] if tp_if else l, **detail)
    # consumers of the pooled flag (evidence)
    consumers = []
    for rel, q, f in chk.idx.all_functions():
        for n in walk_local(f):
            if isinstance(n, ast.Attribute) and n.attr == "pool" and isinstance(n.ctx, ast.Load):
                consumers.append(f"{rel}:{q}")
                break
    chk.extra["pool_flag_consumers"] = sorted(set(consumers))
    r5(chk)


def raire_reader_facts(fn):
    """Facts about CVR.from_raire on its canonical form.  The canonical form turns filter/append and store loops into
    comprehensions, so a reader written with loops usually arrives here as nested comprehensions; a reader whose loops do more
    than build the list (logging, say) stays in loop form.  Both are read: the *row scope* is the loop or the comprehension that
    ranges over the rows of `raire`."""
    from ..canon import inline_aliases
    f = inline_aliases(fn)
    out = {"fn": f}
    env = {}
    for st in f.body:
        if isinstance(st, ast.Assign) and isinstance(st.targets[0], ast.Name):
            env[st.targets[0].id] = st.value
    out["env"] = env
    scopes = []
    for n in ast.walk(f):
        if isinstance(n, ast.For) and isinstance(n.iter, ast.Subscript) and norm(n.iter.value) == "raire":
            scopes.append((n, n.target, n.iter, list(n.body)))
        if isinstance(n, ast.ListComp) and len(n.generators) == 1 and isinstance(n.generators[0].iter, ast.Subscript) \
                and norm(n.generators[0].iter.value) == "raire" and not n.generators[0].ifs:
            scopes.append((n, n.generators[0].target, n.generators[0].iter, [n.elt]))
    if len(scopes) != 1:
        return out
    l, tgt, it, inner_nodes = scopes[0]
    out["loop"] = l
    if isinstance(it.slice, ast.Slice) and it.slice.upper is None and it.slice.step is None and it.slice.lower is not None:
        names = [n.id for n in ast.walk(it.slice.lower) if isinstance(n, ast.Name) and n.id not in ("raire", "int")]
        if names and names[0] in env:
            sk = names[0]
            lo = Tx(env={sk: E(S("skip"))}).expr(it.slice.lower)
            out["iter_ok"] = isinstance(lo, E) and is_zero(lo.e - (S("skip") + 1))
            out["skip_ok"] = norm(env[sk]) == "int(raire[0][0])"
        else:
            lo = Tx().expr(it.slice.lower)
            want = Tx().expr(ast.parse("int(raire[0][0]) + 1", mode="eval").body)
            out["iter_ok"] = out["skip_ok"] = symx.equivalent(lo, want)[0]
    row = norm(tgt)
    out["row"] = row
    inside = [n for x in inner_nodes for n in ast.walk(x)]
    rank = None
    inner = [x for x in inside if isinstance(x, ast.For)]
    if len(inner) == 1 and isinstance(inner[0].iter, ast.Call) and norm(inner[0].iter.func) == "range" and len(inner[0].iter.args) == 2:
        sts = [(t, v, s0) for t, v, s0 in stores(inner[0])]
        if len(sts) == 1 and isinstance(sts[0][0], ast.Subscript) and isinstance(sts[0][0].value, ast.Name):
            t, v, s0 = sts[0]
            rank = dict(j=norm(inner[0].target), start=inner[0].iter.args[0], stop=norm(inner[0].iter.args[1]), stop_node=inner[0].iter.args[1], key=norm(t.slice), key_node=t.slice, value=v,
                        votes=t.value.id, fresh=None)
            loc = {norm(a.targets[0]): norm(a.value) for a in inside if isinstance(a, ast.Assign) and isinstance(a.targets[0], ast.Name)}
            rank["fresh"] = loc.get(t.value.id) == "{}"
    for dc in [x for x in inside if isinstance(x, ast.DictComp)]:
        if len(dc.generators) == 1 and not dc.generators[0].ifs and isinstance(dc.generators[0].iter, ast.Call) \
                and norm(dc.generators[0].iter.func) == "range" and len(dc.generators[0].iter.args) == 2:
            g = dc.generators[0]
            holder = [a for a in inside if isinstance(a, ast.Assign) and a.value is dc and isinstance(a.targets[0], ast.Name)]
            rank = dict(j=norm(g.target), start=g.iter.args[0], stop=norm(g.iter.args[1]), stop_node=g.iter.args[1], key=norm(dc.key), key_node=dc.key, value=dc.value,
                        votes=holder[0].targets[0].id if holder else norm(dc), fresh=True)
    out["rank"] = rank
    calls = [c for c in inside if isinstance(c, ast.Call) and norm(c.func) in ("CVR.from_vote", "cls.from_vote")]
    out["from_vote"] = calls[0] if len(calls) == 1 else None
    # what is handed to merge_cvrs: the comprehension itself, or the list the loop appends the records to
    lst = None
    fv = out["from_vote"]
    if fv is not None:
        if isinstance(l, ast.ListComp):
            if l.elt is fv:
                lst = l
        else:
            holders = [norm(a.targets[0]) for a in inside if isinstance(a, ast.Assign) and a.value is fv]
            for c in inside:
                if isinstance(c, ast.Call) and isinstance(c.func, ast.Attribute) and c.func.attr == "append" and len(c.args) == 1:
                    if c.args[0] is fv or norm(c.args[0]) in holders:
                        lst = norm(c.func.value)
    out["list"] = lst
    return out


def column_and_rank(rk, row):
    """-> (column index, rank, range start, range stop) as sympy expressions in the loop variable j and len(row), or None"""
    kn = rk.get("key_node")
    if isinstance(kn, ast.Call) and norm(kn.func) == "str" and len(kn.args) == 1:
        kn = kn.args[0]
    if not (isinstance(kn, ast.Subscript) and norm(kn.value) == row):
        return None
    tx = Tx(env={rk["j"]: E(S("j"))})
    try:
        K, R = tx.expr(kn.slice), tx.expr(rk["value"])
        a, b = Tx().expr(rk["start"]), Tx().expr(rk["stop_node"])
    except symx.Unsupported:
        return None
    if not all(isinstance(x, E) for x in (K, R, a, b)):
        return None
    return K.e, R.e, a.e, b.e


def r5(chk):
    fn0 = chk.fn(REL, "CVR.from_raire")
    where = W("CVR.from_raire")
    F = raire_reader_facts(fn0)
    fn = F["fn"]
    env = F.get("env", {})
    l = F.get("loop")
    ok_rank = ok_ids = False
    detail = {}
    rk = F.get("rank")
    row = F.get("row")
    if rk is not None:
        start = Tx().expr(rk["start"])
        rank = Tx(env={rk["j"]: E(S("j"))}).expr(rk["value"])
        detail = dict(start=sp.sstr(start.e) if isinstance(start, E) else None, rank=norm(rk["value"]), key=rk["key"])
        # the loop variable may run over the columns (j = 2 .. len(row)-1, rank j - 1) or over the ranks (k = 1 .. len(row)-2, column
        # k + 1): what matters is column(j) and rank(j) as functions of the loop variable
        col = column_and_rank(rk, row)
        ok_rank = False
        if col is not None:
            K, R, a, b = col  # column(j), rank(j), start, stop as sympy expressions in j / len(row)
            j_ = S("j")
            L_ = Tx().expr(ast.parse(f"len({row})", mode="eval").body).e
            ok_rank = is_zero(sp.diff(K, j_) - 1) and is_zero(K.subs(j_, a) - 2) and is_zero(K.subs(j_, b) - L_) and is_zero(R - K + 1)
            detail.update(column=sp.sstr(K), rank_of_column=sp.sstr(sp.simplify(R - K)))
    fv = F.get("from_vote")
    if fv is not None and fv.args and rk is not None:
        kw = {k.arg: norm(k.value) for k in fv.keywords}
        ok_ids = kw.get("contest_id") == f"{row}[0]" and kw.get("id") == f"{row}[1]" and norm(fv.args[0]) == rk["votes"] \
            and bool(rk["fresh"]) and kw.get("phantom") == "phantom"
    # ... and every row after them yields a record: the row loop skips none (a row that *looks* like a header line -- a contest whose
    # id is "Contest" -- is a ballot row all the same)
    skips = [x for x in walk_local(l) if isinstance(x, (ast.Continue, ast.Break))] if l is not None else []
    chk.ob("C18.R5", where, "no-row-skipped", l is not None and not skips,
           "every row after the declared header lines becomes a record: the loop over the rows has no continue / break", node=skips[0] if skips else (l or fn),
           strength="N")
    chk.ob("C18.R5", where, "header-skipped", bool(F.get("skip_ok")) and bool(F.get("iter_ok")),
           "the declared number of contest lines plus the count line are skipped: rows raire[skip+1:] with skip = int(raire[0][0])",
           node=l or fn)
    chk.ob("C18.R5", where, "rank-k-for-kth-listed", ok_rank,
           "the candidate in column j >= 2 gets rank j - 1: the k-th listed candidate gets rank k", node=l or fn, **detail)
    chk.ob("C18.R5", where, "ids-from-columns", ok_ids,
           "contest id = column 0, card id = column 1, a fresh vote dict per row", node=l or fn, strength="N")
    rets = [r for r in walk_local(fn) if isinstance(r, ast.Return)]
    LST = F.get("list")
    ok = False
    if len(rets) == 1 and isinstance(rets[0].value, ast.Tuple) and LST is not None:
        first = rets[0].value.elts[0]
        if isinstance(first, ast.Name) and first.id in env:
            first = env[first.id]
        if isinstance(first, ast.Call) and norm(first.func) in ("CVR.merge_cvrs", "cls.merge_cvrs") and len(first.args) == 1 and not first.keywords:
            arg = first.args[0]
            if isinstance(arg, ast.Name) and arg.id in env and isinstance(env[arg.id], ast.ListComp):
                arg = env[arg.id]
            if isinstance(LST, str):
                ok = norm(arg) == LST and LST in env and norm(env[LST]) == "[]"
            else:
                ok = arg is LST
    chk.ob("C18.R5", where, "returns-merged", ok, "the reader returns the merged list (one record per card id)", node=rets[0] if rets else fn)
    # the constructor the reader goes through: one contest, keyed by the contest id it was given
    fv_ = chk.fn(REL, "CVR.from_vote", canonical=True)
    rets_ = [r for r in walk_local(fv_) if isinstance(r, ast.Return)]
    ok_fv = False
    if len(rets_) == 1 and isinstance(rets_[0].value, ast.Call) and norm(rets_[0].value.func) in ("CVR", "cls"):
        kw_ = {k.arg: k.value for k in rets_[0].value.keywords}
        params_ = [a.arg for a in fv_.args.args][1:]
        v_ = kw_.get("votes")
        ok_fv = len(params_) >= 4 and norm(kw_.get("id", ast.Constant(value=0))) == "id" and norm(kw_.get("phantom", ast.Constant(value=0))) == "phantom" \
            and isinstance(v_, ast.Dict) and len(v_.keys) == 1 and norm(v_.keys[0]) == "contest_id" and norm(v_.values[0]) == params_[0] \
            and not rets_[0].value.args
    chk.ob("C18.R5", W("CVR.from_vote"), "one-contest-record", ok_fv,
           "CVR.from_vote(vote, id, contest_id, phantom) is the record with that id and flag whose votes are {contest_id: vote}",
           node=fv_, strength="N")
    ff = chk.fn(REL, "CVR.from_raire_file")
    calls = [c for c in ast.walk(ff) if isinstance(c, ast.Call) and norm(c.func) in ("CVR.from_raire", "cls.from_raire")]
    ok = False
    if len(calls) == 1 and calls[0].args and isinstance(calls[0].args[0], ast.Name):
        rows_name = calls[0].args[0].id
        ap = [c for c in ast.walk(ff) if isinstance(c, ast.Call) and norm(c.func) == f"{rows_name}.append"]
        lc = [a for a in ast.walk(ff) if isinstance(a, ast.Assign) and norm(a.targets[0]) == rows_name and isinstance(a.value, (ast.ListComp, ast.Call))
              and ("csv.reader" in norm(ff))]
        ok = (len(ap) == 1 or bool(lc)) and "csv.reader" in norm(ff)
    chk.ob("C18.R5", W("CVR.from_raire_file"), "file-reader-delegates", ok,
           "the file reader hands every row, split by csv.reader, to from_raire", node=ff, strength="N")
