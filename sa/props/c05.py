"""C05 -- Non-anticipation, decided by the dependency-lag analysis (E3)."""
from __future__ import annotations

import ast

from ..core import AnalysisError, norm
from .. import nnm
from ..npflow import Arr, Sc, Tup, TOP, INF, NINF, CONST
from ..astutil import walk_local

REL = nnm.REL


def W(name):
    return f"{REL}:{name}"


def predictable(v):
    """(ok, text)"""
    if v is TOP:
        raise AnalysisError("lag analysis returned Top for a tuning sequence (construct outside the operator table)")
    if isinstance(v, Sc):
        return v.dep == "const", str(v) + (f" [{v.why}]" if v.why else "")
    if isinstance(v, Arr):
        ok = v.lag <= -1 and v.last is None and v.first is None
        return ok, str(v) + (f" [{v.why}]" if v.why and not ok else "") + (f" [{v.first.why}]" if v.first is not None and getattr(v.first, "why", "") else "")
    return False, str(v)


def factor_leaves(expr):
    """Leaves of an arithmetic expression tree (through BinOp/UnaryOp)."""
    if isinstance(expr, ast.BinOp):
        return factor_leaves(expr.left) + factor_leaves(expr.right)
    if isinstance(expr, ast.UnaryOp):
        return factor_leaves(expr.operand)
    return [expr]


META = dict(
    text="Sound dependency analysis (abstract interpretation over a lag domain) of every shipped estimator, bet and "
         "test: proves for all inputs that entry j of every tuning sequence depends on x[0..j-1] only and entry j of "
         "every history on x[0..j] only, with the single sanctioned whole-sample flow into the last entry. This is "
         "the property itself (a dependency statement), so a static proof is the right level.",
    note="Trusted: the ~35-entry NumPy operator table in sa/npflow.py and determinism of NumPy on equal prefixes. "
         "A construct outside the table yields ANALYSIS-ERROR, never a pass.",
    technique="dependency-lag abstract interpretation (dataflow) over the AST",
)
META["text"] += ' Control dependence counts: a value returned under a data-dependent branch, and everything computed after an early return under one, depends on the whole sample. (R6, N) no method keeps state between calls (see C01.R8).'
META["text"] += " (R7 = C12.R7) no test writes into the caller's sample."
META["text"] += " (R8, N, whole package) nothing outside the constructor writes an attribute of an assertion's test object, except `u` at the three confirmed sites: a configuration value derived from the observations (an error rate 'learned' from the sample, a mean left behind by sample-size planning) makes every entry depend on the whole sample."


from .. import nnm_rules  # noqa: E402


def run(chk):
    idx = chk.idx
    nnm_rules.rule_stateless(chk, "C05.R6")  # first: its refutations stand even if a later rule cannot read the code
    from .. import aud as _aud
    _aud.test_config_writers(chk, "C05.R8", "non-anticipation is a statement about a test whose configuration is fixed before the sample is seen")
    # R7 = C12.R7: no test writes into the caller's sample (a padded / shifted sample left behind makes the next evaluation of
    # a prefix of the same array run on other numbers than the first)
    from . import c12 as _c12
    chk.borrow(_c12.r7_no_input_mutation, {"C12.R7": "C05.R7"})
    reg = nnm.registry(idx)
    fl = nnm.flow(idx, reg)
    chk.explain(
        "C05 is a dependency statement; it is decided for all inputs by an abstract interpretation of "
        "NonnegMean.py over the domain Sc{const,len,whole} / Arr(lag,len) (entry j depends on x[0..j+lag]). "
        "R1: every shipped estimator/bet returns Const or Arr(lag<=-1). R2: every test returns a history "
        "Arr(lag<=0,len=n). R3: a whole-sample value reaches the history only through a store at index -1 of "
        "the form `inf if <cond> else <same entry>`. R4: no entry depends on len(x) as a value. R5: the running "
        "mean/variance helper is a causal append-builder (lag 0)."
    )
    chk.trust(
        "npflow operator table (cumsum/cumprod causal; insert(a,0,c) shifts by one; prefix slice keeps lag; "
        "suffix slice [k:] raises lag by k; reductions are whole-sample; element-wise ops take the max lag)",
        "NumPy evaluates equal prefixes to equal results (determinism)",
    )
    X = Arr(0, 0, True)
    # R5 first: the Welford helper
    fr = fl.analyse("welford_mean_var", {"x": X})
    ret = fr.ret
    ok = isinstance(ret, Tup) and len(ret.items) == 2 and all(
        isinstance(i, Arr) and i.lag <= 0 and i.dlen == 0 for i in ret.items)
    chk.ob("C05.R5", W("welford_mean_var"), "causal-running-moments", ok,
           "element k of the running mean and variance depends on x[0..k] only, one entry per observation",
           node=fr.fdef, abstract=str(ret), builder_lists=getattr(fr, "builder_lists", None))
    # sjm
    fr = fl.analyse(f"{nnm.CLS}.sjm", {"N": CONST, "t": CONST, "x": X})
    ret = fr.ret
    if not (isinstance(ret, Tup) and len(ret.items) == 4):
        raise AnalysisError("sjm no longer returns a 4-tuple")
    S_, Stot, j_, m_ = ret.items
    chk.ob("C05.R1", W("NonnegMean.sjm"), "S-excludes-current", isinstance(S_, Arr) and S_.lag <= -1 and S_.dlen == 0,
           "the running sum returned by sjm excludes the current draw (lag <= -1) and has one entry per draw",
           node=fr.fdef, abstract=str(S_))
    chk.ob("C05.R1", W("NonnegMean.sjm"), "m-predictable",
           (isinstance(m_, Arr) and m_.lag <= -1 and m_.dlen == 0) or (isinstance(m_, Sc) and m_.dep == "const"),
           "the null conditional mean mu_j depends on x[0..j-1] only", node=fr.fdef, abstract=str(m_))
    # R1: estimators and bets
    n_inst = 0
    for role in ("estim", "bet"):
        for name in reg[role]:
            fr = fl.analyse(f"{nnm.CLS}.{name}", {"x": X})
            ok, txt = predictable(fr.ret)
            chk.ob("C05.R1", W(f"NonnegMean.{name}"), "predictable-return", ok,
                   f"{role} `{name}` returns a sequence whose j-th entry is unaffected by x_j, x_j+1, ...",
                   node=fr.fdef, abstract=txt, role=role)
            n_inst += 1
            # C11.R2-style bounds obligations are reported by C11; here only Whole/len flows
    chk.need("C05.R1", n_inst, 5, "registered estimators and bets")
    # R2/R3/R4/R6: tests
    for name in reg["tests"]:
        fr = fl.analyse(f"{nnm.CLS}.{name}", {"x": X})
        ret = fr.ret
        if ret is TOP:
            raise AnalysisError(f"{name}: lag analysis returned Top")
        if not (isinstance(ret, Tup) and len(ret.items) == 2):
            raise AnalysisError(f"{name}: does not return (p, history)")
        hist = ret.items[1]
        if hist is TOP:
            raise AnalysisError(f"{name}: history is Top (operator outside the table)")
        ok = isinstance(hist, Arr) and hist.lag <= 0
        why = getattr(hist, "why", "")
        chk.ob("C05.R2", W(f"NonnegMean.{name}"), "adapted-history", ok,
               "entry j of the returned history depends on x[0..j] only (no look-ahead, no dependence on len(x))",
               node=fr.fdef, abstract=str(hist), reason=why if not ok else "")
        # R3: last-entry stores
        last_events = [e for e in fr.events if e.kind == "index_store"]
        for e in last_events:
            if not isinstance(e.before, Arr):
                continue
            val = e.value
            data_dep = (isinstance(val, Sc) and val.dep != "const") or (isinstance(val, Arr) and val.lag > NINF)
            if not data_dep:
                continue
            vn = e.value_node
            shape_ok = False
            detail = norm(vn) if vn is not None else ""
            if e.index == -1 and isinstance(vn, ast.Constant) or (e.index == -1 and vn is not None and norm(vn) in ("np.inf", "numpy.inf", "math.inf")):
                # the conditional statement form `if <whole-sample condition>: H[-1] = c`: lowering the last p-value means
                # c = 0 when H is the p-value history, c = +inf when H is the statistic
                try:
                    an = nnm.anatomy(idx, name)
                    kind = an.store_kind.get(id(e.node))
                except AnalysisError:
                    kind = None
                txt = norm(vn)
                shape_ok = (kind == "history" and txt == "0") or (kind == "stat" and txt in ("np.inf", "numpy.inf", "math.inf"))
            if e.index == -1 and isinstance(vn, ast.IfExp):
                same = f"{e.target}[-1]"
                a, b = norm(vn.body), norm(vn.orelse)
                inf_txt = ("np.inf", "numpy.inf", "math.inf", "float('inf')", 'float("inf")')
                if (b == same and a in inf_txt) or (a == same and b in inf_txt):
                    shape_ok = True
            chk.ob("C05.R3", W(f"NonnegMean.{name}"), f"index-store[{e.index}]", shape_ok,
                   "a whole-sample value flows into the history only through a store at index -1 of the form "
                   "`inf if <cond> else <same entry>` (truncation can only lower the last p-value)",
                   node=e.node, statement=norm(e.node)[:160], value=str(val))


def thorough(chk):
    """Widened scope: classify every sample-taking method of NonnegMean."""
    idx = chk.idx
    reg = nnm.registry(idx)
    fl = nnm.flow(idx, reg)
    X = Arr(0, 0, True)
    for name in reg["unregistered"]:
        try:
            fr = fl.analyse(f"{nnm.CLS}.{name}", {"x": X})
            ok, txt = predictable(fr.ret)
        except AnalysisError as e:
            ok, txt = False, f"cannot classify: {e}"
        chk.ob("C05.R1", W(f"NonnegMean.{name}"), "unregistered-sample-callable", ok,
               f"method `{name}` takes a sample but is not in the checker's estimator/bet registry; it must be "
               "predictable to be usable as one", abstract=txt)
    used = nnm.used_callables(idx)
    for role, allowed in (("estim", reg["estim"]), ("bet", reg["bet"]), ("test", reg["tests"])):
        for name, origins in sorted(used[role].items()):
            chk.ob("C05.R1", W(f"NonnegMean.{name}"), f"used-as-{role}", name in allowed,
                   f"every callable handed over as `{role}=` anywhere in the repository (library, tests, example notebooks) is one of the "
                   "registered ones whose non-anticipation is proved above", used_in=sorted(set(origins))[:6], count=len(origins))
