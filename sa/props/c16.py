"""C16 -- sample-size estimates are first-crossing times on the assumed data."""
from __future__ import annotations

import ast
import re
import builtins

import sympy as sp

from ..core import AnalysisError, norm
from .. import symx, spec, aud, nnm
from ..aud import REL, W
from ..symx import Tx, E, I, S, is_zero, fmt_cond
from ..astutil import walk_local, stores, parent, ancestors, names_stored
from ..cfg import paths, find_fold, init_before, whole_collection

NN = "shangrla/core/NonnegMean.py"
RE2 = "shangrla/raire/sample_estimator.py"

META = dict(
    text="Decided by form: (R1, P) the deterministic hypothetical population is the pilot *sequence* repeated (np.tile / np.resize, "
         "ceil(N/len(x)) times, cut to N), not each element repeated; (R2, P) in both branches the estimate is N when the history never "
         "crosses alpha and (index of the first entry <= alpha) + 1 otherwise, the history being the second component of the test run "
         "on that population; (R3, P with C05) with prefix=True every simulated population starts with the given data (then by "
         "non-anticipation the first len(x) history entries are those of x, so a crossing at k <= len(x) is returned by every "
         "replication and any quantile of a constant is that constant); (R4, N) the assumed data per audit type are built as "
         "documented and every callee on these paths resolves (no unbound names); (R5, P) contest and audit estimates are max-folds "
         "from 0 over all (resp. all unproved) assertions; (R6, P) RAIRE's helper uses the same constants.",
    note="'Interleaving returns exactly the requested number of each value' is claimed at level N: the loop is data dependent, but it "
         "reads the three ratios only through comparisons, so the selection is decided over the 27 weak orderings and the rest is "
         "bookkeeping by form (R7); the count statement itself is the short hand argument in r7's docstring / DESIGN 9.7. NOT "
         "decided: np.quantile numerics. D6 (unbound interleave_values), D8 (np.repeat for tile) and D17 (ZeroDivisionError for a "
         "requested count of 0) were repaired with fix: commits.",
    technique="resolved-callee rule, first-crossing idiom as a term identity, scope resolution (unbound-name) lint, fold recognisers",
)
META["text"] += (" (R7, N) interleave_values: a kind that was not requested starts at ratio 0, every placement updates its own kind's "
                 "counter and ratio, the kind placed has a maximal ratio (all 27 orderings), one placement per position, position 0 and the "
                 "empty request follow the same protocol -- from which exact counts follow by hand.")
META["text"] += " R6 also requires the helper's placement order: one-vote values first, two-vote values overwrite them, as in the core."
META["text"] += ' R5 also: the ONEAudit estimate places one-vote and two-vote errors under independent tests (both rates can be positive).'
META["text"] += ' R1 also: the pilot data are used as given (not clipped or rounded first). R4 also: no assumed rate is defaulted through `or`.'
META["text"] += ' R2 also: no estimate leaves sample_size before the hypothetical population is built (no shortcut on the data in hand).'
META["text"] += ' R6 also: the RAIRE helper keeps no memo between calls.'
META["text"] += ' (R8, N, frame condition on arguments) planning a sample size reads the assertions and the sample so far: every function in scope changes the objects it is handed only in the ways confirmed for it (aud.ARG_EFFECTS); references are followed through aliases, elements, attributes, loop variables, .get/.items/.values and np.asarray, resolved by the bindings that reach the use.'
META["text"] += ' R6 also: make_overstatement, overstatement_assorter and Assorter.overstatement keep no state between calls (the hypothetical population of an estimate is built from the margin of that moment).'


def run(chk):
    from .. import aud as _aud8
    _aud8.argument_effects(chk, 'C16.R8', 'shangrla/core/Audit.py', 'planning a sample size reads the assertions and the sample so far', only=lambda q: q.startswith('Assertion.'))
    _aud8.argument_effects(chk, 'C16.R8', 'shangrla/core/Audit.py', 'planning a sample size reads the assertions and the sample so far', only=lambda q: q.startswith('Contest.'))
    _aud8.argument_effects(chk, 'C16.R8', 'shangrla/core/Audit.py', 'planning a sample size reads the assertions and the sample so far', only=lambda q: q.startswith('Audit.'))
    chk.explain("R1 tile callee; R2 first-crossing idiom (term identity) in both branches; R3 prefix simulations start with the data; "
                "R4 assumed data per audit type + every callee resolves; R5 maxima; R6 sibling constants of the RAIRE helper.")
    chk.trust("np.tile / np.resize repeat the sequence; np.argmax of a boolean array is the first True", "symx term identity",
              "C05 (non-anticipation) for the prefix clause")
    r6_state(chk)
    r12(chk)
    r3(chk)
    r4(chk)
    r5(chk)
    r6(chk)
    r7(chk)


def branches(fn):
    top = [s for s in fn.body if isinstance(s, ast.If) and "reps" in norm(s.test)]
    if len(top) != 1:
        raise AnalysisError("sample_size: branch on `reps` not found")
    t = norm(top[0].test)
    if t == "repsisNone":
        return top[0], top[0].body, top[0].orelse
    if t == "repsisnotNone":
        return top[0], top[0].orelse, top[0].body
    raise AnalysisError(f"sample_size: unexpected branch test {t}")


def roles_sample_size(fn, det, sim):
    """names by role in NonnegMean.sample_size: the population handed to self.test in each branch, the local holding self.N,
    the returned estimate, the array of per-replication results"""
    r = {"pop_det": "pop", "pop_sim": "pop", "N": "N", "result": "sam_size", "sams": "sams"}
    def test_arg(stmts):
        for st in stmts:
            for c in ast.walk(st):
                if isinstance(c, ast.Call) and norm(c.func) == "self.test" and c.args and isinstance(c.args[0], ast.Name):
                    return c.args[0].id
        return None
    r["pop_det"] = test_arg(det) or r["pop_det"]
    r["pop_sim"] = test_arg(sim) or r["pop_sim"]
    for st in fn.body:
        if isinstance(st, ast.Assign) and isinstance(st.targets[0], ast.Name) and norm(st.value) == "self.N":
            r["N"] = st.targets[0].id
    rets = [x for x in walk_local(fn) if isinstance(x, ast.Return) and isinstance(x.value, ast.Name)]
    if rets:
        r["result"] = rets[0].value.id
    for st in ast.walk(fn):
        if isinstance(st, ast.Call) and norm(st.func) in ("np.quantile", "numpy.quantile") and st.args and isinstance(st.args[0], ast.Name):
            r["sams"] = st.args[0].id
    return r


def first_crossing_term(stmts, result_target, n_name="N"):
    """Translate p / crossed / result of a statement list; returns the term stored in result_target."""
    tx = Tx(env={n_name: E(S("self.N"))})
    tx.skip_calls = True
    tx.post = _canon
    for st in stmts:
        if isinstance(st, ast.Assign):
            tgt = st.targets[0]
            if isinstance(tgt, ast.Name):
                tx._assign(tgt, tx.expr(st.value))
                if tgt.id == result_target:
                    return tx.env[tgt.id], tx
            elif norm(tgt) == result_target:
                return tx.expr(st.value), tx
    return None, tx


def _canon(e):
    repl = {}
    for sub in sp.preorder_traversal(e):
        if isinstance(sub, sp.core.function.AppliedUndef) and sub.func.__name__ in ("int", "float") and len(sub.args) == 1:
            repl[sub] = sub.args[0]
    return e.xreplace(repl) if repl else e


def want_crossing(tx, pop):
    t2 = tx.child(dict(tx.env))
    t2.env["POP"] = tx.env.get(pop, E(S(pop)))
    t2.env["kwargs"] = E(S("kwargs"))
    return t2.expr(ast.parse("self.N if np.sum((self.test(POP, **kwargs)[1]) <= alpha) == 0 else (np.argmax((self.test(POP, **kwargs)[1]) <= alpha) + 1)", mode="eval").body)


def r6_state(chk):
    aud.keeps_no_state(chk, "C16.R6", RE2, ["sample_size", "bp_estimate", "cp_estimate"],
                       "the RAIRE helper's estimate is a function of the tallies and options of the call")
    aud.keeps_no_state(chk, "C16.R6", aud.REL, ["Assertion.make_overstatement", "Assertion.overstatement_assorter", "Assorter.overstatement"],
                       "the assumed data of an estimate are built from the margin and bounds as they are at that call (a memo of "
                       "overstatement values keyed without the margin serves the next estimate the old population)")


def r12(chk):
    where = f"{NN}:NonnegMean.sample_size"
    # first (stands even if the structure below is not recognised): the estimate leaves the function only from the
    # deterministic branch, from the simulation branch, or at the very end -- not from a shortcut taken on the data in hand
    # (the history of the data alone is not a prefix of the history of the population: the last-entry convention differs)
    raw = chk.fn(NN, "NonnegMean.sample_size")
    split = [s for s in raw.body if isinstance(s, ast.If) and norm(s.test) in ("repsisNone", "repsisnotNone")]
    inside = {id(r) for sp_ in split for r in ast.walk(sp_) if isinstance(r, ast.Return)}
    shortcuts = [r for r in walk_local(raw) if isinstance(r, ast.Return) and id(r) not in inside and r is not raw.body[-1]]
    chk.ob("C16.R2", where, "no-exit-before-the-population", not shortcuts,
           "every estimate is returned by the deterministic branch, by the simulation branch, or at the end of the function: there is "
           "no earlier exit computed from the data in hand", node=shortcuts[0] if shortcuts else raw, strength="N",
           shortcuts=[f"line {r.lineno}: {norm(r)[:60]}" for r in shortcuts])
    fn = chk.fn(NN, "NonnegMean.sample_size", single_exit=True)
    top, det, sim = branches(fn)
    R = roles_sample_size(fn, det, sim)
    POP, NN_, RES, SAMS = R["pop_det"], R["N"], R["result"], R["sams"]
    # R1
    pops = [s for s in det if isinstance(s, ast.Assign) and norm(s.targets[0]) == POP]
    ok = False
    detail = {}
    if len(pops) == 1:
        from ..canon import expand_locals as _xl
        v = _xl(pops[0].value, fn, stop=(NN_, "x"))  # the pilot array / the number of copies may be named first
        detail["population"] = norm(v)[:160]
        if isinstance(v, ast.Subscript) and isinstance(v.slice, ast.Slice) and isinstance(v.value, ast.Call):
            call = v.value
            cn = norm(call.func)
            lo, hi = v.slice.lower, v.slice.upper
            cut = (lo is None or norm(lo) == "0") and hi is not None and norm(hi) in (NN_, "self.N") and v.slice.step is None
            if cn in ("np.tile", "numpy.tile") and len(call.args) == 2:
                reps_ok = norm(call.args[1]) in (f"math.ceil({NN_}/len(x))", f"int(np.ceil({NN_}/len(x)))", "math.ceil(self.N/len(x))", f"-(-{NN_}//len(x))")
                ok = cut and reps_ok and norm(call.args[0]) in ("np.array(x)", "x", "np.asarray(x)")
            detail["callee"] = cn
        elif isinstance(v, ast.Call) and norm(v.func) in ("np.resize", "numpy.resize") and len(v.args) == 2:
            ok = norm(v.args[0]) in ("np.array(x)", "x") and norm(v.args[1]) in (NN_, "self.N")
            detail["callee"] = norm(v.func)
    chk.ob("C16.R1", where, "tile-callee", ok,
           "the hypothetical population repeats the pilot sequence (np.tile(x, ceil(N/len(x)))[0:N] or np.resize(x, N)), not each element",
           node=pops[0] if pops else top, **detail)
    # ... and `x` is the data handed in (both branches read it): re-bound at most to an array of the same values in the same order
    xpar = fn.args.args[1].arg if len(fn.args.args) > 1 else "x"
    same_values = lambda e: isinstance(e, ast.Call) and norm(e.func) in ("np.asarray", "np.array", "np.asanyarray", "list", "np.asfarray", "np.copy") \
        and e.args and norm(e.args[0]) == xpar and all(k.arg in ("dtype", "copy") for k in e.keywords)
    rebinds = [s_ for s_ in walk_local(fn) if (isinstance(s_, ast.Assign) and any(isinstance(t_, ast.Name) and t_.id == xpar for t_ in s_.targets)
                                                and not same_values(s_.value))
               or (isinstance(s_, ast.AugAssign) and norm(s_.target) == xpar)
               or (isinstance(s_, ast.Assign) and any(isinstance(t_, ast.Subscript) and norm(t_.value) == xpar for t_ in s_.targets))]
    chk.ob("C16.R1", where, "pilot-data-as-given", not rebinds,
           "the estimate is computed on the data handed in: the parameter is not clipped, rounded, filtered or written into first",
           node=rebinds[0] if rebinds else fn, strength="N", rebinds=[norm(r_)[:80] for r_ in rebinds])
    nd = [s for s in fn.body if isinstance(s, ast.Assign) and norm(s.targets[0]) == NN_]
    chk.ob("C16.R1", where, "N-is-population-size", len(nd) == 1 and norm(nd[0].value) == "self.N",
           "N is the test's own population size", node=nd[0] if nd else fn, strength="N")
    # R2 deterministic
    got, tx = first_crossing_term(det, RES, NN_)
    if got is None:
        chk.ob("C16.R2", where, "first-crossing[deterministic]", False, "the deterministic estimate is a first-crossing time", node=top)
    else:
        want = want_crossing(tx, POP)
        spec.compare(chk, "C16.R2", where, "first-crossing[deterministic]",
                     "estimate == N if no history entry is <= alpha, else (index of the first entry <= alpha) + 1, the history being "
                     "the second component of self.test(population)", _subN(got), _subN(want), node=top)
    # R2 simulation branch: inside the loop
    loops = [l for l in sim if isinstance(l, ast.For)]
    ok = False
    if len(loops) == 1:
        l = loops[0]
        pre = [s for s in sim if isinstance(s, ast.Assign) and s.lineno < l.lineno]
        got, tx = first_crossing_term(pre + list(l.body), f"{SAMS}[{norm(l.target)}]", NN_)
        if got is not None:
            want = want_crossing(tx, R["pop_sim"])
            spec.compare(chk, "C16.R2", where, "first-crossing[simulation]",
                         "each replication records N or the first-crossing position of its own population", _subN(got), _subN(want), node=l)
            ok = True
        it_ok = norm(l.iter) in ("range(reps)", "range(int(reps))")
        q = [s for s in sim if isinstance(s, ast.Assign) and norm(s.targets[0]) == RES]
        q_ok = len(q) == 1 and norm(q[0].value) in (f"int(np.quantile({SAMS},quantile))", f"int(np.quantile({SAMS},q=quantile))") and q[0].lineno > l.lineno
        chk.ob("C16.R2", where, "quantile-of-replications", it_ok and q_ok,
               "the simulated estimate is the requested quantile of the per-replication first-crossing positions", node=l, strength="N")
    if not ok:
        chk.ob("C16.R2", where, "first-crossing[simulation]", False, "each replication records a first-crossing position", node=top)
    rets = [r for r in walk_local(fn) if isinstance(r, ast.Return)]
    chk.ob("C16.R2", where, "returns-estimate", len(rets) == 1 and norm(rets[0].value) == RES, "the estimate is returned",
           node=rets[0] if rets else fn, strength="N")


def _subN(v):
    return v


def r3(chk):
    fn = chk.fn(NN, "NonnegMean.sample_size", single_exit=True)
    where = f"{NN}:NonnegMean.sample_size"
    top, det, sim = branches(fn)
    loops = [l for l in sim if isinstance(l, ast.For)]
    ok = False
    detail = {}
    if len(loops) == 1:
        l = loops[0]
        tx = Tx()
        tx.skip_calls = True
        for s in sim:
            if isinstance(s, ast.Assign) and isinstance(s.targets[0], ast.Name) and s.lineno < l.lineno:
                tx._assign(s.targets[0], tx.expr(s.value))
        R = roles_sample_size(fn, det, sim)
        POPS = R["pop_sim"]
        pops = [s0 for s0 in l.body if isinstance(s0, ast.Assign) and norm(s0.targets[0]) == POPS]
        PFX = RL = None
        if len(pops) == 1 and isinstance(pops[0].value, ast.Call) and norm(pops[0].value.func) == "np.append" and len(pops[0].value.args) == 2:
            a0, a1 = pops[0].value.args
            if isinstance(a0, ast.Name):
                PFX = a0.id
            if isinstance(a1, ast.Call):
                kwv = {k.arg: k.value for k in a1.keywords}
                if isinstance(kwv.get("size"), ast.Name):
                    RL = kwv["size"].id
        pfx, rl = tx.env.get(PFX), tx.env.get(RL)
        want_p = Tx().expr(ast.parse("np.array(x) if prefix else []", mode="eval").body)
        want_r = Tx(env={R["N"]: E(S("NPOP"))}).expr(ast.parse(f"({R['N']} - len(x)) if prefix else {R['N']}", mode="eval").body)
        if rl is not None:
            rl = symx.map_e(rl, lambda e: e.xreplace({S(R["N"]): S("NPOP")}))
        okp = pfx is not None and symx.equivalent(symx.prune(pfx), symx.prune(want_p))[0]
        okr = rl is not None and symx.equivalent(symx.prune(rl), symx.prune(want_r))[0]
        okpop = False
        if len(pops) == 1 and isinstance(pops[0].value, ast.Call) and norm(pops[0].value.func) in ("np.append", "np.concatenate"):
            a = pops[0].value.args
            if norm(pops[0].value.func) == "np.append" and len(a) == 2 and norm(a[0]) == PFX and isinstance(a[1], ast.Call):
                kw = {k.arg: norm(k.value) for k in a[1].keywords}
                okpop = norm(a[1].func).endswith(".choice") and norm(a[1].args[0]) == "x" and kw.get("size") == RL
        ok = okp and okr and okpop
        detail = dict(prefix=repr(pfx), random_length=repr(rl), population=norm(pops[0].value)[:120] if pops else None)
    chk.ob("C16.R3", where, "prefix-populations-start-with-the-data", ok,
           "with prefix=True every simulated population is the given data followed by N - len(x) draws from it (else N draws); by "
           "non-anticipation (C05) a crossing inside the prefix is returned by every replication", node=loops[0] if loops else top, **detail)


# ---------------------------------------------------------------------------
# scope resolution lint


def unbound_names(idx, rel, qual):
    """Names loaded in the function that are bound nowhere: not a parameter, local, comprehension/loop/with/except target,
    enclosing-function local, module-level definition/import, class-body name (only via self./cls.), or builtin."""
    mod = idx.module(rel)
    fn = idx.func(rel, qual)
    module_names = set()
    for st in mod.tree.body:
        if isinstance(st, (ast.FunctionDef, ast.ClassDef)):
            module_names.add(st.name)
        elif isinstance(st, (ast.Import, ast.ImportFrom)):
            for a in st.names:
                if a.name == "*":
                    # star import: resolve against the imported repo module when possible
                    src = getattr(st, "module", None)
                    if src and src.startswith("shangrla"):
                        r2 = src.replace(".", "/") + ".py"
                        if r2 in idx.modules:
                            module_names |= {n for n in idx.modules[r2].defs if "." not in n}
                            for s2 in idx.modules[r2].tree.body:
                                if isinstance(s2, (ast.Import, ast.ImportFrom)):
                                    module_names |= {(b.asname or b.name).split(".")[0] for b in s2.names}
                else:
                    module_names.add((a.asname or a.name).split(".")[0])
        else:
            module_names |= names_stored(st)
    local = set()
    a = fn.args
    for x in a.posonlyargs + a.args + a.kwonlyargs:
        local.add(x.arg)
    if a.vararg:
        local.add(a.vararg.arg)
    if a.kwarg:
        local.add(a.kwarg.arg)
    for n in ast.walk(fn):
        if isinstance(n, ast.Name) and isinstance(n.ctx, (ast.Store, ast.Del)):
            local.add(n.id)
        elif isinstance(n, ast.arg):
            local.add(n.arg)
        elif isinstance(n, ast.ExceptHandler) and n.name:
            local.add(n.name)
        elif isinstance(n, (ast.FunctionDef, ast.ClassDef)) and n is not fn:
            local.add(n.name)
        elif isinstance(n, (ast.Import, ast.ImportFrom)):
            for al in n.names:
                local.add((al.asname or al.name).split(".")[0])
    bi = set(dir(builtins))
    out = []
    for n in ast.walk(fn):
        if isinstance(n, ast.Name) and isinstance(n.ctx, ast.Load):
            if n.id in local or n.id in module_names or n.id in bi:
                continue
            out.append((n.id, n.lineno))
    return out


def r4(chk):
    idx = chk.idx
    sites = [(REL, "Assertion.find_sample_size"), (REL, "Contest.find_sample_size"), (REL, "Audit.find_sample_size"),
             (NN, "NonnegMean.sample_size"), (RE2, "sample_size"), (REL, "Assertion.interleave_values"), (REL, "Assertion.make_overstatement")]
    for rel, q in sites:
        ub = unbound_names(idx, rel, q)
        fn = chk.fn(rel, q)
        if not ub:
            chk.ob("C16.R4", f"{rel}:{q}", "callees-resolve", True, "every name used on the sample-size paths is bound (scope resolution)", node=fn)
        for name, line in sorted(set(ub)):
            chk.ob("C16.R4", f"{rel}:{q}", f"callee-resolves:{name}", False,
                   "every name used on the sample-size paths is bound (scope resolution): an unbound name raises NameError at run time",
                   line=line, name=name)
    # assumed data in Assertion.find_sample_size
    fn = chk.fn(REL, "Assertion.find_sample_size")
    where = W("Assertion.find_sample_size")
    tx = Tx()
    env = {}
    for s in ast.walk(fn):
        if isinstance(s, ast.Assign) and isinstance(s.targets[0], ast.Name):
            env.setdefault(s.targets[0].id, []).append(s)
    POLL = "Audit.AUDIT_TYPE.POLLING"

    def val(name):
        ss = env.get(name, [])
        return symx.prune(Tx().expr(ss[0].value)) if len(ss) >= 1 else None

    # roles: X = the array handed to self.test.sample_size in the data-is-None branch; BIG = the factor in its initialisation
    # `BIG * np.ones(self.test.N)`; SMALL = the value of the first store into X
    tcalls0 = [c for c in ast.walk(fn) if isinstance(c, ast.Call) and norm(c.func) == "self.test.sample_size" and c.args
               and isinstance(c.args[0], ast.Name) and c.args[0].id != "data"]
    XN = tcalls0[0].args[0].id if tcalls0 else "x"
    BIGN, SMALLN = "big", "small"
    for st0 in env.get(XN, []):
        v0 = st0.value
        if isinstance(v0, ast.BinOp) and isinstance(v0.op, ast.Mult):
            for side in (v0.left, v0.right):
                if isinstance(side, ast.Name):
                    BIGN = side.id
    xs = sorted([(t, v, s0) for t, v, s0 in stores(fn) if isinstance(t, ast.Subscript) and norm(t.value) == XN], key=lambda z: z[2].lineno)
    if xs and isinstance(xs[0][1], ast.Name):
        SMALLN = xs[0][1].id
    big, small = val(BIGN), val(SMALLN)
    want_big = symx.prune(Tx().expr(ast.parse(f"self.assorter.upper_bound if self.contest.audit_type == {POLL} else self.make_overstatement(overs=0)", mode="eval").body))
    want_small = symx.prune(Tx().expr(ast.parse(f"0 if self.contest.audit_type == {POLL} else self.make_overstatement(overs=1/2)", mode="eval").body))
    chk.ob("C16.R4", where, "big-and-small-values",
           big is not None and small is not None and symx.equivalent(big, want_big)[0] and symx.equivalent(small, want_small)[0],
           "error-free value = assorter bound (polling) / B(overstatement 0) (comparison); small value = 0 / B(overstatement u/2)",
           node=fn, strength="N", big=repr(big)[:160], small=repr(small)[:160])
    # polling: interleave(n_0, n_half, n_big) from the tally
    calls = [c for c in ast.walk(fn) if isinstance(c, ast.Call) and norm(c.func).endswith("interleave_values")]
    ok = False
    detail = {}
    if len(calls) == 1:
        c = calls[0]
        args = [norm(a) for a in c.args]
        kw = {k.arg: norm(k.value) for k in c.keywords}
        loc = {k: norm(v[0].value) for k, v in env.items() if len(v) >= 1}
        ok = len(args) == 3 and loc.get(args[0]) == "self.contest.tally[self.loser]" and loc.get(args[2]) == "self.contest.tally[self.winner]" \
            and loc.get(args[1]) in (f"self.test.N-{args[0]}-{args[2]}", f"self.test.N-{args[2]}-{args[0]}") and kw.get("big") == BIGN
        detail = dict(call=norm(c), counts={a: loc.get(a) for a in args})
    chk.ob("C16.R4", where, "polling-data-from-tally", ok,
           "polling: the assumed data interleave tally[loser] zeros, N - both tallies halves and tally[winner] values of the assorter bound",
           node=calls[0] if calls else fn, strength="N", **detail)
    # comparison: small at every int(1/rate_1)-th position, then 0 at every int(1/rate_2)-th
    sts = [(t, v, s) for t, v, s in stores(fn) if isinstance(t, ast.Subscript) and norm(t.value) == XN]
    loc = {k: norm(v[0].value) for k, v in env.items()}
    ok = False
    if len(sts) == 2:
        (t1, v1, s1), (t2, v2, s2) = sorted(sts, key=lambda z: z[2].lineno)
        i1, i2 = norm(t1.slice), norm(t2.slice)
        f1 = loc.get(i1, "")
        f2 = loc.get(i2, "")
        ok = norm(v1) == SMALLN and norm(v2) == "0" and "int(1/rate_1)" in f1 and "int(1/rate_2)" in f2 and f1.startswith("np.arange(0,self.test.N") \
            and f2.startswith("np.arange(0,self.test.N") and f1.endswith("ifrate_1else[]") and f2.endswith("ifrate_2else[]")
        xinits = [norm(d.value) for d in env.get(XN, [])]
        ok = ok and any(xi in (f"{BIGN}*np.ones(self.test.N)", f"np.ones(self.test.N)*{BIGN}") for xi in xinits)
    chk.ob("C16.R4", where, "comparison-data-at-assumed-rates", ok,
           "comparison: all values error-free, then the one-vote value at every int(1/rate_1)-th position, then 0 at every int(1/rate_2)-th "
           "(two-vote errors overwrite one-vote errors)", node=fn, strength="N")
    # the assumed rates are the ones configured: a rate of exactly 0 ("no errors of that kind") is a legitimate assumption, and
    # `rate or default` would replace it by the default
    params_ = {a.arg for a in fn.args.args + fn.args.kwonlyargs} - {"self"}
    bad_or = aud.or_defaults(fn, lambda v: (isinstance(v, ast.Name) and v.id in params_) or
                             (isinstance(v, ast.Attribute) and "rate" in v.attr))
    chk.ob("C16.R4", where, "rates-not-defaulted-through-or", not bad_or,
           "an assumed rate (or any other numeric argument) that was passed in is used as passed: defaults are supplied on `is None`, "
           "not on truthiness, which would replace a configured 0", node=fn, strength="N", or_defaults=bad_or)
    # the estimate itself: the assertion's own test, its contest's risk limit
    tcalls = [c for c in ast.walk(fn) if isinstance(c, ast.Call) and norm(c.func) == "self.test.sample_size"]
    alpha_ok = bool(tcalls) and all({k.arg: norm(k.value) for k in c.keywords}.get("alpha") == "self.contest.risk_limit" for c in tcalls)
    arg0 = sorted(norm(c.args[0]) for c in tcalls if c.args)
    if len(tcalls) == 2:
        data_ok = arg0 == sorted(["data", XN])
    else:
        # one call after the branch: the population handed over is `data` on the branch where data were given (x = data) and
        # the assumed population otherwise
        # (or, mirrored, `data` itself with `data = x` on the branch where none were given)
        xdefs = env.get(XN, [])
        given = [d for d in xdefs if norm(d.value) == "data"]
        data_ok = len(tcalls) == 1 and arg0 == [XN] and len(given) == 1 and any(
            in_body and aud.cond_equiv(Tx().cond(a_.test), spec.cond_term("data is not None"))[0] for a_, in_body in _guards(given[0], fn))
        if not data_ok and len(tcalls) == 1 and arg0 == ["data"]:
            ddefs = [d for d in env.get("data", []) if isinstance(d, ast.Assign)]
            data_ok = len(ddefs) == 1 and norm(ddefs[0].value) == XN and any(
                in_body and aud.cond_equiv(Tx().cond(a_.test), spec.cond_term("data is None"))[0] for a_, in_body in _guards(ddefs[0], fn))
    ok = alpha_ok and data_ok
    chk.ob("C16.R4", where, "own-test-own-limit", ok,
           "the estimate is the assertion's own test's sample_size on the data (given or assumed) at the contest's own risk limit", node=fn, strength="N")


def r5(chk):
    # Contest.find_sample_size
    fn = chk.fn(REL, "Contest.find_sample_size", canonical=True)
    where = W("Contest.find_sample_size")
    loops = [l for l in fn.body if isinstance(l, ast.For)]
    ok = False
    detail = {}
    if len(loops) == 1:
        l = loops[0]
        f = find_fold(l, "self.sample_size")
        if f:
            init = init_before(l, "self.sample_size", fn)
            a = norm(l.target)
            ok = f.op == "max" and f.full and init is not None and norm(init.value) == "0" and isinstance(f.operand, ast.Call) \
                and norm(f.operand.func) == f"{a}.find_sample_size" and norm(l.iter) in ("self.assertions.values()",)
            detail = dict(op=f.op, full=f.full, reasons=f.reasons, operand=norm(f.operand)[:80])
    rets = [r for r in walk_local(fn) if isinstance(r, ast.Return)]
    chk.ob("C16.R5", where, "contest-estimate-is-max", ok and len(rets) == 1 and norm(rets[0].value) == "self.sample_size",
           "a contest's estimate is the maximum, starting from 0, over all its assertions of the assertion's estimate", node=fn, **detail)
    # Audit.find_sample_size
    fn = chk.fn(REL, "Audit.find_sample_size")
    where = W("Audit.find_sample_size")
    outer = [l for l in fn.body if isinstance(l, ast.For) and "contests.items()" in norm(l.iter)]
    ok = False
    detail = {}
    if outer:
        o = outer[0]
        con = norm(o.target.elts[1])
        inner = [l for l in o.body if isinstance(l, ast.For) and "assertions" in norm(l.iter)]
        fin = [s for s in o.body if isinstance(s, ast.Assign) and norm(s.targets[0]) == f"{con}.sample_size"]
        ACC = norm(fin[0].value) if len(fin) == 1 and isinstance(fin[0].value, ast.Name) else "new_size"
        init = [s for s in o.body if isinstance(s, ast.Assign) and norm(s.targets[0]) == ACC]
        if len(inner) == 1 and len(init) == 1 and len(fin) == 1:
            l = inner[0]
            a = norm(l.target.elts[1]) if isinstance(l.target, ast.Tuple) else norm(l.target)
            bad = []
            n_upd_paths = 0
            from ..canon import structure_continues
            sbody = structure_continues(l.body)  # `if asn.proved: continue` is the guard-clause spelling of `if not asn.proved:`
            for p in paths(sbody if sbody is not None else l.body):
                pol = None
                for e in p.events:
                    if e[0] == "test" and norm(e[1]) in (f"not{a}.proved", f"{a}.proved"):
                        pol = e[2] if norm(e[1]).startswith("not") else not e[2]
                ups = [s for s in (e[1] for e in p.events if e[0] == "stmt") if isinstance(s, ast.Assign) and norm(s.targets[0]) == ACC]
                good = [u for u in ups if isinstance(u.value, ast.Call) and norm(u.value.func) in ("max", "np.max") and
                        any(norm(x) == ACC for x in u.value.args) and
                        any(isinstance(x, ast.Call) and norm(x.func) == f"{a}.find_sample_size" for x in u.value.args)]
                if p.exit == "raise":
                    continue
                if pol is True:
                    n_upd_paths += 1
                    if len(ups) != 1 or len(good) != 1:
                        bad.append("unproved assertion path without exactly one max-update")
                elif ups:
                    bad.append("update on a path for a proved assertion")
            ok = not bad and n_upd_paths >= 1 and norm(init[0].value) == "0" and init[0].lineno < l.lineno and fin[0].lineno > l.lineno \
                and norm(fin[0].value) == ACC and whole_collection(l.iter) and norm(l.iter) == f"{con}.assertions.items()" \
                and sbody is not None and not [x for x in walk_local(l) if isinstance(x, ast.Break)]
            detail = dict(problems=bad, updating_paths=n_upd_paths)
    # ONEAudit without MVRs: the assumed errors are written into the data at *both* rates, independently of each other, the
    # one-vote values first and the two-vote values over them (the same protocol as Assertion.find_sample_size, C16.R4)
    place = [(t, v, s0) for t, v, s0 in stores(fn) if isinstance(t, ast.Subscript) and isinstance(v, ast.Call)
             and norm(v.func).endswith(".make_overstatement")]
    okp = False
    detp = {}
    if len(place) == 2:
        def ctl(s0):
            out = []
            n_, p_ = s0, parent(s0)
            while p_ is not None and p_ is not fn:
                if isinstance(p_, ast.If):
                    out.append((id(p_), n_ in p_.body, norm(p_.test)))
                n_, p_ = p_, parent(p_)
            return out
        info = []
        for t, v, s0 in sorted(place, key=lambda z: z[2].lineno):
            kw = {k.arg: norm(k.value) for k in v.keywords}
            overs = kw.get("overs", norm(v.args[0]) if v.args else None)
            c_ = ctl(s0)
            idx_def = [x for x in walk_local(fn) if isinstance(x, ast.Assign) and norm(x.targets[0]) == norm(t.slice) and parent(x) is parent(s0)]
            info.append(dict(overs=overs, own=c_[0][2] if c_ else None, own_in_body=c_[0][1] if c_ else None, outer=[(a, b) for a, b, _ in c_[1:]],
                             idx=norm(idx_def[-1].value) if idx_def else None, data=norm(t.value)))
        a_, b_ = info
        okp = a_["overs"] == "1/2" and b_["overs"] == "1" and a_["own"] == "self.error_rate_1" and b_["own"] == "self.error_rate_2" \
            and a_["own_in_body"] and b_["own_in_body"] and a_["outer"] == b_["outer"] and a_["data"] == b_["data"] \
            and a_["idx"] == f"np.arange(0,len({a_['data']}),math.floor(1/self.error_rate_1))" \
            and b_["idx"] == f"np.arange(0,len({b_['data']}),math.floor(1/self.error_rate_2))"
        detp = dict(one_vote=a_, two_vote=b_)
    chk.ob("C16.R5", where, "oneaudit-errors-at-both-rates", okp,
           "when the ONEAudit estimate is made before any MVRs, one-vote overstatements are written at every floor(1/rate_1)-th "
           "position if rate_1 is set and, independently, two-vote overstatements at every floor(1/rate_2)-th if rate_2 is set "
           "(the second under the same outer conditions as the first, not in its else)", node=place[0][2] if place else fn,
           strength="N", **{k: str(v)[:200] for k, v in detp.items()})
    chk.ob("C16.R5", where, "audit-estimate-is-max-over-unproved", ok,
           "each contest's new sample size is the maximum, from 0, over all its not-yet-confirmed assertions of the assertion's estimate "
           "(one max-update on every non-raising path for an unproved assertion, none for a proved one)", node=fn, **detail)


def r6(chk):
    fn = chk.fn(RE2, "sample_size")
    where = f"{RE2}:sample_size"
    tx = Tx()
    tx.skip_calls = True
    for s in fn.body:
        if isinstance(s, ast.Assign) and isinstance(s.targets[0], ast.Name):
            try:
                tx._assign(s.targets[0], tx.expr(s.value))
            except symx.Unsupported:
                pass
        elif isinstance(s, ast.If) and not any(isinstance(n, (ast.Return, ast.Raise, ast.For, ast.While)) for n in ast.walk(s)):
            # the same values chosen by an if/else statement instead of conditional expressions
            saved = dict(tx.env)
            try:
                tx.block([s])
            except symx.Unsupported:
                tx.env = saved
    # roles: X = first argument of test.sample_size; BIG = factor of its initialisation; SMALL = first value stored into it
    tc = [c for c in ast.walk(fn) if isinstance(c, ast.Call) and norm(c.func).endswith(".sample_size") and c.args and isinstance(c.args[0], ast.Name)]
    XN = tc[0].args[0].id if tc else "x"
    BIGN, SMALLN = "big", "small"
    for s in fn.body:
        if isinstance(s, ast.Assign) and norm(s.targets[0]) == XN and isinstance(s.value, ast.BinOp) and isinstance(s.value.op, ast.Mult):
            for side in (s.value.left, s.value.right):
                if isinstance(side, ast.Name):
                    BIGN = side.id
    xs = sorted([(t, v, s0) for t, v, s0 in stores(fn) if isinstance(t, ast.Subscript) and norm(t.value) == XN], key=lambda z: z[2].lineno)
    if xs and isinstance(xs[0][1], ast.Name):
        SMALLN = xs[0][1].id
    mo = chk.fn(REL, "Assertion.make_overstatement")
    B, _ = spec.term(mo)
    if not isinstance(B, E):
        raise AnalysisError("make_overstatement not algebraic")
    ua, v = S("upper_bound"), 2 * S("mean") - 1
    def Bof(o):
        return B.e.subs({S("overs"): o, S("self.assorter.upper_bound"): ua, S("self.margin"): v})
    big, small = tx.env.get(BIGN), tx.env.get(SMALLN)
    if big is None or small is None:
        raise AnalysisError("raire sample_size: the error-free / one-vote values could not be located")
    big, small = symx.prune(big), symx.prune(small)
    okb = oks = False
    for row in symx.rows(symx.val_atoms(big) | symx.val_atoms(small)):
        if row.get("truthy(polling)"):
            continue
        b, s_ = symx.eval_val(big, row), symx.eval_val(small, row)
        okb = is_zero(b - Bof(0))
        # the helper hard-codes the numerator 0.5 = 1 - (1/2)/upper_bound for its default upper_bound = 1
        oks = is_zero((s_ - Bof(sp.Rational(1, 2))).subs(ua, 1))
    chk.ob("C16.R6", where, "sibling-constants", okb and oks,
           "RAIRE's helper uses big == make_overstatement(0) and small == make_overstatement(1/2) (for its fixed upper_bound = 1)",
           node=fn, big=repr(big)[:120], small=repr(small)[:120])
    # the same placement as the core's find_sample_size: one-vote values first, two-vote values (0) afterwards, so that a position
    # hit by both carries the two-vote overstatement
    from ..canon import expand_locals
    sts = [(t, v, s0) for t, v, s0 in stores(fn) if isinstance(t, ast.Subscript) and norm(t.value) == XN]
    okp = False
    detail = {}
    if len(sts) == 2 and parent(sts[0][2]) is parent(sts[1][2]):
        blk = parent(sts[0][2])
        lst = blk.body if sts[0][2] in blk.body else blk.orelse
        (t1, v1, s1), (t2, v2, s2) = sorted(sts, key=lambda z: lst.index(z[2]))
        X = lambda e: norm(expand_locals(e, fn, stop=(XN,)))
        npar = [a.arg for a in fn.args.args]
        Nn = "N" if "N" in npar else None
        i1, i2 = X(t1.slice), X(t2.slice)
        want = lambda r: f"np.arange(0,{Nn},int(1/args.{r}),dtype=int)ifargs.{r}else[]"  # (keywords of np.arange are normalised to positions)
        detail = dict(first=f"{i1} := {norm(v1)}", second=f"{i2} := {norm(v2)}")
        okp = norm(v1) == SMALLN and norm(v2) == "0" and i1 == want("erate1") and i2 == want("erate2")
    chk.ob("C16.R6", where, "sibling-placement", okp,
           "RAIRE's helper places the one-vote value at every int(1/erate1)-th position and then 0 at every int(1/erate2)-th, in that "
           "order (two-vote errors overwrite one-vote errors), as the core's find_sample_size does", node=fn, strength="N", **detail)
    d = [a for a in fn.args.args if a.arg == "upper_bound"]
    defaults = dict(zip([a.arg for a in fn.args.args][-len(fn.args.defaults):], fn.args.defaults))
    chk.ob("C16.R6", where, "upper_bound-default-1", "upper_bound" in defaults and norm(defaults["upper_bound"]) == "1",
           "the helper's upper_bound defaults to 1, the bound of the IRV assorters it is used for", node=fn, strength="N")



def r7(chk):
    """Interleaving returns exactly the requested number of each value.  The loop is data dependent, but it touches the three
    ratios r_K = (items of kind K still to place) / n_K only through comparisons, so the selection is decided over the 27 weak
    orderings of three values; the rest is bookkeeping by form.  Hand argument from the facts below: every step places one item of
    a kind whose ratio is maximal; a kind that was not requested (F1: ratio starts at 0) or is used up has ratio 0 and can be
    maximal only when all ratios are 0, i.e. when all N = n_small + n_med + n_big items are placed -- which is not the case inside
    `for i in range(1, N)`; so every step places an item of a kind that still has items left (in particular n_K > 0 where the code
    divides by n_K), N steps place N items, none over its count: the counts are exact."""
    import itertools
    fn = chk.fn(REL, "Assertion.interleave_values")
    where = W("Assertion.interleave_values")
    params = [a.arg for a in fn.args.args]
    if len(params) < 7:
        raise AnalysisError("interleave_values: unexpected signature")
    counts, values = params[1:4], params[4:7]
    # ratio / index variables by role: r_K = (n_K - i_K) / n_K
    ratio, index = {}, {}
    for st in walk_local(fn):
        if isinstance(st, ast.Assign) and isinstance(st.targets[0], ast.Name) and isinstance(st.value, ast.BinOp) and isinstance(st.value.op, ast.Div):
            den = norm(st.value.right)
            num = st.value.left
            if den in counts and isinstance(num, ast.BinOp) and isinstance(num.op, ast.Sub) and norm(num.left) == den and isinstance(num.right, ast.Name):
                ratio.setdefault(den, set()).add(st.targets[0].id)
                index.setdefault(den, set()).add(num.right.id)
    ok_roles = all(len(ratio.get(c, ())) == 1 and len(index.get(c, ())) == 1 for c in counts)
    if not ok_roles:
        chk.ob("C16.R7", where, "ratio-bookkeeping", False, "each kind has one ratio variable r_K = (n_K - i_K)/n_K", node=fn,
               found={c: [sorted(ratio.get(c, ())), sorted(index.get(c, ()))] for c in counts})
        return
    R = {c: next(iter(ratio[c])) for c in counts}
    IX = {c: next(iter(index[c])) for c in counts}
    kind_of_value = dict(zip(values, counts))
    # F1: a kind that was not requested starts with ratio 0
    inits = {}
    for st in fn.body:
        if isinstance(st, ast.Assign) and isinstance(st.targets[0], ast.Name):
            inits.setdefault(st.targets[0].id, st.value)
    for c in counts:
        v = inits.get(R[c])
        ok = False
        if v is not None:
            got = Tx().expr(v)
            want = Tx().expr(ast.parse(f"1 if {c} else 0", mode="eval").body)
            ok = symx.equivalent(got, want)[0]
        chk.ob("C16.R7", where, f"unrequested-kind-starts-at-ratio-0[{c}]", ok,
               f"the ratio of kind `{c}` starts at 1 if any item of it was requested and at 0 otherwise, so a kind with count 0 is "
               "never selected (and its count never divided by)", node=fn, init=norm(v) if v is not None else None)
    # F2: each placement of a value of kind K is followed, in the same block, by the update of i_K and r_K
    places = [(t, v, s0) for t, v, s0 in stores(fn) if isinstance(t, ast.Subscript) and isinstance(v, ast.Name) and v.id in values]
    bad = []
    for t, v, s0 in places:
        c = kind_of_value[v.id]
        blk = parent(s0)
        lst = blk.body if s0 in blk.body else blk.orelse
        rest = lst[lst.index(s0) + 1:]
        upd_i = [x for x in rest if (isinstance(x, ast.AugAssign) and norm(x.target) == IX[c] and isinstance(x.op, ast.Add) and norm(x.value) == "1")
                 or (isinstance(x, ast.Assign) and norm(x.targets[0]) == IX[c] and norm(x.value) in ("1", f"{IX[c]}+1"))]
        upd_r = [x for x in rest if isinstance(x, ast.Assign) and norm(x.targets[0]) == R[c] and norm(x.value) == f"({c}-{IX[c]})/{c}"]
        others = [x for x in rest if isinstance(x, (ast.Assign, ast.AugAssign)) and
                  norm(x.targets[0] if isinstance(x, ast.Assign) else x.target) in (set(R.values()) | set(IX.values())) - {R[c], IX[c]}]
        if len(upd_i) != 1 or len(upd_r) != 1 or others or lst.index(upd_i[0]) > lst.index(upd_r[0]):
            bad.append(norm(s0))
    chk.ob("C16.R7", where, "placement-updates-its-own-kind", len(places) >= 6 and not bad,
           "every store of a value of kind K is followed by i_K += 1 and r_K = (n_K - i_K)/n_K, and touches no other kind's counters",
           node=fn, placements=len(places), problems=bad)
    # F3: the selection inside the loop picks a kind of maximal ratio -- over all weak orderings of the three ratios
    loops = [l for l in fn.body if isinstance(l, ast.For)]
    ok_sel = ok_loop = False
    detail = {}
    if len(loops) == 1:
        l = loops[0]
        Nn = next((k for k, v in inits.items() if sorted(x.id for x in ast.walk(v) if isinstance(x, ast.Name)) == sorted(counts)
                   and all(isinstance(o, (ast.BinOp, ast.Name, ast.Add, ast.Load)) for o in ast.walk(v))), None)
        ok_loop = Nn is not None and norm(l.iter) == f"range(1,{Nn})" and not [x for x in walk_local(l) if isinstance(x, (ast.Break, ast.Continue, ast.Return))]
        xs = {norm(t.value) for t, v, s0 in places}
        ok_loop = ok_loop and len(xs) == 1 and norm(inits.get(next(iter(xs)), ast.Constant(value=0))) in (f"np.zeros({Nn})", f"np.empty({Nn})")
        tx = Tx()
        tx.skip_calls = True
        slot = f"@{next(iter(xs))}[{norm(l.target)}]" if xs else None
        try:
            tx.env[slot] = E(S("UNSET"))
            tx.block(list(l.body))
            term = tx.env.get(slot)
        except symx.Unsupported as e:
            term = None
            detail["untranslated"] = str(e)
        if term is not None:
            wrong = []
            names = [R[c] for c in counts]
            for ranks in itertools.product(range(3), repeat=3):
                rk = dict(zip(names, ranks))
                row = {}
                for a in symx.val_atoms(term):
                    m = re.match(r"^(lt|eq)\(([^,]+),([^,]+)\)$", a)
                    if not m or m.group(2) not in rk or m.group(3) not in rk:
                        row = None
                        break
                    x_, y_ = rk[m.group(2)], rk[m.group(3)]
                    row[a] = (x_ < y_) if m.group(1) == "lt" else (x_ == y_)
                if row is None:
                    wrong.append("the selection reads something other than comparisons of the three ratios")
                    break
                leaf = symx.eval_val(term, row)
                chosen = sp.sstr(leaf) if not isinstance(leaf, str) else leaf
                if chosen not in kind_of_value:
                    wrong.append(f"ordering {rk}: stores {chosen}")
                    continue
                if rk[R[kind_of_value[chosen]]] != max(ranks):
                    wrong.append(f"ordering {rk}: places `{chosen}` although another ratio is larger")
            ok_sel = not wrong
            detail["orderings_checked"] = 27
            detail["problems"] = wrong[:4]
            chk.exhaustive = True
    chk.ob("C16.R7", where, "selection-takes-a-maximal-ratio", ok_sel,
           "at every position the value placed is of a kind whose ratio (fraction still to place) is the largest of the three -- decided "
           "over all 27 weak orderings of the ratios, which the loop body reads only through comparisons", node=loops[0] if loops else fn, **detail)
    chk.ob("C16.R7", where, "one-placement-per-position", ok_loop,
           "the array has n_small + n_med + n_big positions and the loop fills positions 1..N-1, one value each, without leaving early",
           node=loops[0] if loops else fn)
    # F4: position 0 follows the same protocol (first requested kind in the order small, med, big), and an empty request returns at once
    first = [s0 for s0 in fn.body if isinstance(s0, ast.If) and any(isinstance(t, ast.Subscript) and norm(t.slice) == "0" for t, v, x in stores(s0))]
    ok_first = False
    if len(first) == 1 and loops:
        tx = Tx()
        for k_, v_ in inits.items():
            if k_ in R.values():
                tx.env[k_] = tx.expr(v_)
        xs_name = next(iter(xs)) if xs else "x"
        tx.env[f"@{xs_name}[0]"] = E(S("UNSET"))
        try:
            tx.block([first[0]])
            got = symx.prune(tx.env[f"@{xs_name}[0]"])
            want = symx.prune(Tx().expr(ast.parse(f"{values[0]} if {counts[0]} else ({values[1]} if {counts[1]} else {values[2]})", mode="eval").body))
            ok_first = symx.equivalent(got, want)[0]
        except symx.Unsupported:
            ok_first = False
        guards = [g for g in fn.body if isinstance(g, ast.If) and fn.body.index(g) < fn.body.index(first[0])
                  and any(isinstance(r_, ast.Return) for r_ in g.body)]
        empty_ok = False
        for g in guards:
            c_ = Tx(env={Nn: Tx().expr(inits[Nn])} if Nn else {}).cond(g.test)
            w_ = Tx().cond(ast.parse(f"{'+'.join(counts)} == 0", mode="eval").body)
            w2 = Tx().cond(ast.parse(f"not ({'+'.join(counts)})", mode="eval").body)
            if c_ not in (True, False) and (aud.cond_equiv(c_, w_)[0] or aud.cond_equiv(c_, w2)[0]):
                empty_ok = True
        ok_first = ok_first and empty_ok
    chk.ob("C16.R7", where, "first-position-and-empty-request", ok_first,
           "position 0 takes the first requested kind (small, then med, then big) and a request for nothing returns the empty array before "
           "position 0 is written", node=first[0] if first else fn)


def _guards(stmt, fn):
    """(If node, in_body) for every `if` that controls the statement"""
    out = []
    n = stmt
    p = parent(n)
    while p is not None and p is not fn:
        if isinstance(p, ast.If):
            out.append((p, n in p.body))
        n, p = p, parent(p)
    return out
