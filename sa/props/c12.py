"""C12 -- statistics equal their published definitions; ALPHA == betting (E4)."""
from __future__ import annotations

import ast

import sympy as sp

from ..core import AnalysisError, norm
from .. import nnm, symx, nnm_rules as R
from ..symx import E, S, Tx, is_zero

REL = nnm.REL


META = dict(
    text="Each test's per-draw factor, the null conditional mean and the two conversion functions are extracted from "
         "the AST as rational functions and compared with the published formulas by exact polynomial identity "
         "(sympy.cancel), for finite and infinite N; composition min(1, 1/cumprod(f)) and the two boundary stores are "
         "matched structurally. Holds for all samples and parameters (P); floating-point last-bit agreement is not decided.",
    note="Trusted: sympy.cancel, the recipe table (exclusive prefix sum, 1..n index, total), NumPy semantics of "
         "cumprod/cumsum/insert/minimum, and the published formulas quoted from the property text.",
    technique="AST-to-algebra translation + computer-algebra identity (no solver, no execution)",
)
META["text"] += ' (R6, N) no np.full_like / np.empty_like of a data-shaped array without dtype: the published formulas are over the reals, an integer-vote sample must not truncate 0.5 to 0.'
META["text"] += " R4 also classifies every in-place override by its controlling condition (strict versus non-strict comparison with 0 / N t). (R7, N) no statistic stores into, or augments in place, an array that can be the caller's sample."
META["text"] += ' (R8, N) no method keeps state between calls (see C01.R8); the factor identity is decided per regime and per value of every other condition the history branches on.'
META["text"] += ' R2 also: the u in the factors is installed from the same mvrs_to_data call as the data (= C06.R3). R5 also: alpha_mart and betting_mart derive the overall p-value from the history in the same way.'
META["text"] += " (R9, N, frame condition on arguments) the test an assertion is given is configured from that contest's own parameters (g, bounds): a factory does not write into the option dicts it is handed (aud.ARG_EFFECTS over the Assertion methods)."


def run(chk):
    from .. import aud as _aud8
    _aud8.argument_effects(chk, 'C12.R9', 'shangrla/core/Audit.py', "the test an assertion is given is configured from that contest's own parameters (g, bounds): a factory does not write into the option dicts it is handed", only=lambda q: q.startswith('Assertion.'))
    idx = chk.idx
    R.rule_stateless(chk, "C12.R8")  # first: its refutations stand even if a later rule cannot read the code
    r6_dtype(chk)  # (the lints as well)
    # the u in the factors is the bound of the data handed over: installed from the same mvrs_to_data call (C06.R3)
    from . import c06 as _c06
    chk.borrow(_c06.r3, {"C06.R3": "C12.R2"})
    r7_no_input_mutation(chk)
    chk.explain(
        "Each test method is translated (AST -> sympy term, if-conversion, NumPy recipes recognised: exclusive "
        "prefix sum, 1..n index, sample total) and compared with the published formula from the property text by "
        "sympy.cancel(extracted - oracle) == 0, separately for finite and infinite N. R1 factor identity; R2 null "
        "conditional mean; R3 history == minimum(1, 1/cumprod(factor)); R4 boundary conventions p=1 where mu>u and "
        "p=0 once the total exceeds N t; R5 lam_to_eta/eta_to_lam make the ALPHA factor equal the betting factor "
        "and are mutual inverses."
    )
    chk.trust("sympy.cancel decides identity of rational functions", "recipe table in sa/nnm.py::_recipes",
              "published formulas as quoted in properties.jsonl (C12 statement)",
              "np.cumprod / np.cumsum / np.insert / np.minimum have their documented NumPy semantics")
    chk.assume("floating-point agreement to the last bit is not decided")
    tfs = R.facts(idx)
    chk.need("C12.R1", len(tfs), 6, "test methods")
    for name, tf in tfs.items():
        R.rule_factor_and_composition(chk, tf, {"identity": "C12.R1", "composition": "C12.R3"})
    R.rule_null_mean(chk, idx, "C12.R2", tfs)
    # "the ALPHA and betting forms give identical p-values": identical histories (R1, R5) and the same functional of the history as
    # overall value -- both the extremum whatever random_order says (today), or both honouring it; one of each is a disagreement
    if "alpha_mart" in tfs and "betting_mart" in tfs:
        from ..symx import val_atoms as _va
        ra, rb = (R.RAND in _va(tfs[n_].an.overall) for n_ in ("alpha_mart", "betting_mart"))
        chk.ob("C12.R5", R.W("alpha_mart"), "alpha-and-betting-report-the-same-overall-value", ra == rb,
               "alpha_mart and betting_mart derive the overall p-value from the history in the same way (both read random_order or "
               "neither does)", node=tfs["alpha_mart"].an.ret, strength="N", alpha_reads_random_order=ra, betting_reads_random_order=rb)
    for name in ("alpha_mart", "betting_mart"):
        R.rule_boundary_conventions(chk, tfs[name], "C12.R4")
    # R5 parametrisations
    l2e = idx.func(REL, "NonnegMean.lam_to_eta")
    e2l = idx.func(REL, "NonnegMean.eta_to_lam")
    lam, mu, eta, u = S("lam"), S("mu"), S("eta"), S("self.u")

    def body(fd, env):
        tx = Tx(env=env)
        r = tx.block(fd.body)
        if not isinstance(r, E):
            raise AnalysisError(f"{fd.name}: not a single algebraic return")
        return r.e

    f_l2e = body(l2e, {"lam": E(lam), "mu": E(mu)})
    f_e2l = body(e2l, {"eta": E(eta), "mu": E(mu)})
    x = S("x")
    alpha = (x * f_l2e / mu + (u - x) * (u - f_l2e) / (u - mu)) / u
    bet = 1 + lam * (x - mu)
    chk.ob("C12.R5", f"{REL}:NonnegMean.lam_to_eta", "alpha(lam_to_eta)==betting", is_zero(alpha - bet),
           "substituting eta = lam_to_eta(lam, mu) into the ALPHA factor gives the betting factor 1 + lam (x - mu)",
           node=l2e, body=sp.sstr(f_l2e), residue=sp.sstr(sp.cancel(sp.together(alpha - bet)))[:200])
    chk.ob("C12.R5", f"{REL}:NonnegMean.lam_to_eta", "published-form", is_zero(f_l2e - mu * (1 + lam * (u - mu))),
           "lam_to_eta(lam, mu) == mu (1 + lam (u - mu))", node=l2e, body=sp.sstr(f_l2e))
    comp1 = f_e2l.subs(eta, f_l2e)
    comp2 = f_l2e.subs(lam, f_e2l)
    chk.ob("C12.R5", f"{REL}:NonnegMean.eta_to_lam", "eta_to_lam.lam_to_eta==id", is_zero(comp1 - lam),
           "eta_to_lam(lam_to_eta(lam, mu), mu) == lam", node=e2l, value=sp.sstr(sp.cancel(comp1))[:120])
    chk.ob("C12.R5", f"{REL}:NonnegMean.eta_to_lam", "lam_to_eta.eta_to_lam==id", is_zero(comp2 - eta),
           "lam_to_eta(eta_to_lam(eta, mu), mu) == eta", node=e2l, value=sp.sstr(sp.cancel(comp2))[:120])

    # R4 also: the in-place conventions are keyed as published (+inf only where the null mean is negative / the total exceeds N t)
    from .. import nnm_rules as _NR
    for _tf in _NR.facts(chk.idx).values():
        _NR.classify_overrides(chk, _tf, "C12.R4")



def r6_dtype(chk):
    """The formulas are over the reals; the code computes them in floating point only if no intermediate array silently takes the
    integer dtype of the sample (0/1 votes are a natural input).  `np.full_like(a, v)` / `np.empty_like(a)` without `dtype=` build
    an array of a's dtype: a fill value of 0.5 becomes 0 for an integer sample.  (`v * np.ones_like(a)` is fine: the product is
    promoted.)"""
    import ast as _ast
    from .. import nnm as _nnm
    from ..astutil import parent as _parent
    mod = chk.idx.module(_nnm.REL)
    n_fn = 0
    for q, fd in mod.defs.items():
        if not isinstance(fd, _ast.FunctionDef):
            continue
        n_fn += 1
        bad = []
        for c in _ast.walk(fd):
            if isinstance(c, _ast.Call) and norm(c.func) in ("np.full_like", "numpy.full_like", "np.empty_like", "numpy.empty_like") \
                    and not any(k.arg == "dtype" for k in c.keywords):
                fill = c.args[1] if len(c.args) > 1 else next((k.value for k in c.keywords if k.arg == "fill_value"), None)
                if norm(c.func).endswith("full_like") and isinstance(fill, _ast.Constant) and isinstance(fill.value, int):
                    continue  # an integer fill survives any numeric dtype (np.full_like(x, 1) is np.ones_like(x))
                bad.append(norm(c)[:80])
        if bad or q.split(".")[-1] in set(_nnm.registry(chk.idx)["estim"]) | set(_nnm.registry(chk.idx)["bet"]) | set(_nnm.registry(chk.idx)["tests"]) | {"sjm", "welford_mean_var"}:
            chk.ob("C12.R6", f"{_nnm.REL}:{q}", "no-array-inherits-the-sample's-dtype", not bad,
                   "no array is created with np.full_like / np.empty_like of a data-shaped array without an explicit dtype (its "
                   "contents would be cast to the sample's dtype, truncating 0.5 to 0 for integer votes)", node=fd, strength="N",
                   calls=bad)
    chk.need("C12.R6", n_fn, 10, "functions of NonnegMean.py")



def r7_no_input_mutation(chk):
    """A statistic is a function of the sample: evaluating it must not change the sample.  `x = np.asarray(x, ...)` returns the
    caller's own array when it already has that dtype, so a later `x += g`, `x[k] = ..` or `x.sort()` writes into the caller's
    data: the second evaluation of the same sample then differs from the first (and from the published formula)."""
    import ast as _ast
    from .. import nnm as _nnm
    reg = _nnm.registry(chk.idx)
    names = list(reg["tests"]) + list(reg["estim"]) + list(reg["bet"]) + ["sjm"]
    mod = chk.idx.module(_nnm.REL)
    todo = [(f"{_nnm.CLS}.{n}", mod.defs.get(f"{_nnm.CLS}.{n}")) for n in names] + [("welford_mean_var", mod.defs.get("welford_mean_var"))]
    n_fn = 0
    for q, fd in todo:
        if not isinstance(fd, _ast.FunctionDef):
            continue
        n_fn += 1
        params = {a.arg for a in fd.args.args} - {"self", "cls"}
        # names that may denote a caller's array: the parameters, and anything bound to a non-copying view of one
        may_alias = set(params)
        changed = True
        while changed:
            changed = False
            for st in _ast.walk(fd):
                if isinstance(st, _ast.Assign) and len(st.targets) == 1 and isinstance(st.targets[0], _ast.Name):
                    v = st.value
                    src = None
                    if isinstance(v, _ast.Name):
                        src = v.id
                    elif isinstance(v, _ast.Call) and norm(v.func) in ("np.asarray", "np.asanyarray", "numpy.asarray", "np.ravel", "np.atleast_1d") and v.args \
                            and isinstance(v.args[0], _ast.Name):
                        src = v.args[0].id
                    elif isinstance(v, _ast.Call) and norm(v.func) in ("np.array", "numpy.array") and v.args and isinstance(v.args[0], _ast.Name) \
                            and any(k.arg == "copy" and isinstance(k.value, _ast.Constant) and k.value.value is False for k in v.keywords):
                        src = v.args[0].id
                    if src in may_alias and st.targets[0].id not in may_alias:
                        # a copying rebind of the same name (x = np.array(x)) removes the alias; a view keeps it
                        may_alias.add(st.targets[0].id)
                        changed = True
        # a name rebound to a fresh copy *before* any write is no longer the caller's: handled by statement order below
        writes = []
        fresh = set()
        for st in [x for x in _ast.walk(fd) if isinstance(x, _ast.stmt)]:
            pass
        order = sorted([x for x in _ast.walk(fd) if isinstance(x, (_ast.Assign, _ast.AugAssign, _ast.Expr))], key=lambda x: (x.lineno, x.col_offset))
        for st in order:
            if isinstance(st, _ast.Assign) and len(st.targets) == 1 and isinstance(st.targets[0], _ast.Name):
                v = st.value
                copying = isinstance(v, _ast.Call) and norm(v.func) in ("np.array", "numpy.array", "np.copy", "list", "np.float64") \
                    and not any(k.arg == "copy" for k in v.keywords)
                arith = isinstance(v, (_ast.BinOp, _ast.UnaryOp))
                if copying or arith:
                    fresh.add(st.targets[0].id)
                elif isinstance(v, _ast.Call) and norm(v.func) in ("np.asarray", "np.asanyarray") and v.args and isinstance(v.args[0], _ast.Name) \
                        and v.args[0].id in fresh:
                    fresh.add(st.targets[0].id)
                elif st.targets[0].id in fresh and not (isinstance(v, _ast.Name) and v.id in fresh):
                    if isinstance(v, (_ast.Name,)) or (isinstance(v, _ast.Call) and norm(v.func) in ("np.asarray", "np.asanyarray")):
                        fresh.discard(st.targets[0].id)
            tgt = None
            if isinstance(st, _ast.AugAssign):
                tgt = st.target
            elif isinstance(st, _ast.Assign) and isinstance(st.targets[0], _ast.Subscript):
                tgt = st.targets[0]
            elif isinstance(st, _ast.Expr) and isinstance(st.value, _ast.Call) and isinstance(st.value.func, _ast.Attribute) \
                    and st.value.func.attr in ("sort", "fill", "put", "resize", "itemset", "partition"):
                tgt = st.value.func.value
            if tgt is not None:
                root = tgt
                while isinstance(root, (_ast.Subscript, _ast.Attribute)):
                    root = root.value
                if isinstance(root, _ast.Name) and root.id in may_alias and root.id not in fresh:
                    writes.append(norm(st)[:70])
        chk.ob("C12.R7", f"{_nnm.REL}:{q}", "sample-not-written", not writes,
               "the function never writes into an array that may be the caller's sample (no in-place operator, item store or "
               "mutating method on a parameter or on a non-copying view of one)", node=fd, strength="N", writes=writes)
    chk.need("C12.R7", n_fn, 10, "tests, estimators, bets and helpers")
