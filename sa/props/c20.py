"""C20 -- elimination tree shows an unpruned leaf iff the assertions are insufficient."""
from __future__ import annotations

import ast

from ..core import AnalysisError, norm
from .. import symx, spec, aud
from ..symx import Tx, E, S, fmt_cond
from ..canon import inline_aliases
from ..astutil import walk_local, stores, parent, ancestors
from ..cfg import paths

VIS = "shangrla/core/IRVVisualisationUtils.py"

META = dict(
    text="The 'iff' follows by a hand argument (an elimination order is a root-to-leaf path; an assertion contradicts the order iff "
         "it prunes a node on that path) from facts of the construction decided on the AST: (R1) NEB prune test at (c,S): some "
         "(l,w) with c == l and w in S; (R2) NEN prune test: some (a,E) with c == a and E == S (set equality); (R3) when nothing "
         "prunes and S is non-empty there is one child per element of S, built on a copy of S without that element, S itself never "
         "mutated; when nothing prunes and S is empty the result is a leaf with two empty tag lists, which is rendered with the "
         "'Unpruned leaf' marker iff both lists are empty; pruning takes precedence; (R4) the tag recorded for a matching assertion "
         "is its own position in the list; (R5) assertion JSON is translated to (loser, winner, proved) / (winner, set(eliminated), proved).",
    note="N for the iff as such (hand argument), P for the prune tables and tags. Rendering by svgling is not decided. D11 (tags "
         "by list.index of an equal tuple) was repaired with a fix: commit.",
    technique="decision tables of the prune tests, complete non-aliasing recursion rule, own-index tag rule",
)


def run(chk):
    chk.explain("R1/R2 prune tests as decision tables; R3 complete, non-aliasing recursion and leaf rendering; R4 own-index tags; R5 "
                "translation of assertion JSON into pruning tuples.")
    chk.trust("symx decision tables", "set equality / membership semantics of Python sets")
    fn = chk.fn(VIS, "buildRemainingTreeAsLists")
    where = f"{VIS}:buildRemainingTreeAsLists"
    params = [a.arg for a in fn.args.args]
    if len(params) != 4:
        raise AnalysisError("buildRemainingTreeAsLists: unexpected signature")
    c, S_, WO, IRV = params
    loops = [l for l in fn.body if isinstance(l, ast.For)]
    # the two tag lists: what the pruned leaf is built from
    NT, IT = "NEBTags", "IRVTags"
    for lc in [x for x in ast.walk(fn) if isinstance(x, ast.Call) and norm(x.func) == "LeafNode"]:
        kwl = {k.arg: k.value for k in lc.keywords}
        if isinstance(kwl.get("NEBTagList"), ast.Name) and isinstance(kwl.get("IRVTagList"), ast.Name):
            NT, IT = kwl["NEBTagList"].id, kwl["IRVTagList"].id
    rn = [r.value.id for r in walk_local(fn) if isinstance(r, ast.Return) and isinstance(r.value, ast.Name)]
    TREE = rn[0] if rn else "tree"
    specs = {
        WO: ("C20.R1", "neb-prune-test", "{c} == {v}[0] and {v}[1] in {S}", NT,
             "prune at (c, S) by a not-eliminated-before assertion iff c is its loser and its winner is still in S"),
        IRV: ("C20.R2", "nen-prune-test", "{c} == {v}[0] and {v}[1] == {S}", IT,
              "prune at (c, S) by a not-eliminated-next assertion iff c is its candidate and its eliminated set equals S"),
    }
    flag = None
    for lst, (rule, key, cond_src, tags, what) in specs.items():
        ls = [l for l in loops if lst in norm(l.iter)]
        ok = ok_tag = False
        detail = {}
        if len(ls) == 1:
            l = ls[0]
            it = l.iter
            idxv = None
            if isinstance(it, ast.Call) and norm(it.func) == "enumerate" and norm(it.args[0]) == lst and isinstance(l.target, ast.Tuple):
                idxv, v = [norm(e) for e in l.target.elts]
            elif norm(it) == lst:
                v = norm(l.target)
            else:
                v = None
            ifs = [s for s in l.body if isinstance(s, ast.If)]
            if v is not None and len(l.body) == 1 and len(ifs) == 1 and not ifs[0].orelse:
                got = Tx().cond(ifs[0].test)
                want = spec.cond_term(cond_src.format(c=c, v=v, S=S_))
                okc, n, cex = aud.cond_equiv(got, want)
                sets = [(t, val, s) for t, val, s in stores(ifs[0]) if isinstance(t, ast.Name)]
                flags = [norm(t) for t, val, s in sets if norm(val) == "True"]
                apps = [x for x in walk_local(ifs[0]) if isinstance(x, ast.Call) and norm(x.func) == f"{tags}.append"]
                esc = [x for x in walk_local(l) if isinstance(x, (ast.Break, ast.Continue, ast.Return))]
                ok = okc and len(flags) == 1 and len(apps) == 1 and not esc
                if flags:
                    flag = flags[0] if flag in (None, flags[0]) else "?"
                detail = dict(test=fmt_cond(got), rows=n)
                # R4 own index
                if apps and isinstance(apps[0].args[0], ast.Tuple) and len(apps[0].args[0].elts) == 2:
                    first, second = [norm(e) for e in apps[0].args[0].elts]
                    ok_tag = idxv is not None and first == idxv and second == f"{v}[2]"
                    detail["tag"] = norm(apps[0].args[0])
        chk.ob(rule, where, key, ok, what + "; every assertion of the list is examined", node=ls[0] if ls else fn, **detail)
        chk.ob("C20.R4", where, f"own-index-tag:{'NEBTags' if lst == WO else 'IRVTags'}", ok_tag,
               "the tag recorded for a matching assertion is (its own position in the list, its proved flag)", node=ls[0] if ls else fn,
               tag=detail.get("tag"))
        chk.exhaustive = True
    # tag lists start empty, flag starts False
    inits = {norm(s.targets[0]): norm(s.value) for s in fn.body if isinstance(s, ast.Assign) and isinstance(s.targets[0], ast.Name)}
    chk.ob("C20.R4", where, "tags-start-empty", inits.get(NT) == "[]" and inits.get(IT) == "[]" and flag is not None
           and inits.get(flag) == "False", "tag lists start empty and the prune flag starts False at every node", node=fn)
    # ---- R3 decision structure after the loops
    dec = [s for s in fn.body if isinstance(s, ast.If) and flag and norm(s.test) == flag]
    ok_prec = ok_leaf = ok_rec = False
    detail = {}
    if len(dec) == 1:
        d = dec[0]
        # pruned leaf
        pl = [x for x in ast.walk(ast.Module(body=d.body, type_ignores=[])) if isinstance(x, ast.Call) and norm(x.func) == "LeafNode"]
        if len(pl) == 1:
            kw = {k.arg: norm(k.value) for k in pl[0].keywords}
            ok_prec = kw.get("cand") == c and kw.get("NEBTagList") == NT and kw.get("IRVTagList") == IT
        # elif not S: unpruned leaf; else recurse
        if len(d.orelse) == 1 and isinstance(d.orelse[0], ast.If):
            e = d.orelse[0]
            t = norm(e.test)
            empty = t in (f"not{S_}", f"len({S_})==0")
            if empty:
                ul = [x for x in ast.walk(ast.Module(body=e.body, type_ignores=[])) if isinstance(x, ast.Call) and norm(x.func) == "LeafNode"]
                if len(ul) == 1:
                    kw = {k.arg: norm(k.value) for k in ul[0].keywords}
                    ok_leaf = kw.get("cand") == c and kw.get("NEBTagList") == "[]" and kw.get("IRVTagList") == "[]"
                rec_body = e.orelse
                rl = [l for l in rec_body if isinstance(l, ast.For)]
                if len(rl) == 1 and norm(rl[0].iter) == S_:
                    l = rl[0]
                    c2 = norm(l.target)
                    calls = [x for x in walk_local(l) if isinstance(x, ast.Call) and norm(x.func) == fn.name]
                    copies = [s for s in l.body if isinstance(s, ast.Assign) and norm(s.value) in (f"{S_}.copy()", f"set({S_})", f"{S_}-{{{c2}}}", f"{S_}.difference({{{c2}}})")]
                    if len(calls) == 1 and len(copies) == 1:
                        sm = norm(copies[0].targets[0])
                        removed = any(isinstance(x, ast.Call) and norm(x.func) in (f"{sm}.remove", f"{sm}.discard") and norm(x.args[0]) == c2
                                      for x in walk_local(l)) or norm(copies[0].value) in (f"{S_}-{{{c2}}}", f"{S_}.difference({{{c2}}})")
                        args = [norm(a) for a in calls[0].args]
                        appended = isinstance(parent(calls[0]), ast.Call) and norm(parent(calls[0]).func) == f"{TREE}[1].append"
                        esc = [x for x in walk_local(l) if isinstance(x, (ast.Break, ast.Continue, ast.Return))]
                        ok_rec = removed and args == [c2, sm, WO, IRV] and appended and not esc
                        detail["recursive_call"] = norm(calls[0])
    rets_all = [r for r in walk_local(fn) if isinstance(r, ast.Return)]
    leafs_all = [x for x in ast.walk(fn) if isinstance(x, ast.Call) and norm(x.func) == "LeafNode"]
    inside = [r for r in rets_all if dec and any(a is dec[0] for a in ancestors(r))]
    toplevel = [r for r in rets_all if parent(r) is fn]
    only = len(rets_all) == len(inside) + len(toplevel) and len(toplevel) <= 1 and len(leafs_all) == 2 and \
        all(r.lineno > dec[0].lineno for r in toplevel) if dec else False
    chk.ob("C20.R3", where, "single-decision", bool(only),
           "the node's fate is decided only by the prune / empty / recurse decision after both assertion lists were examined: no other "
           "return and no other leaf constructor", node=fn, returns=[r.lineno for r in rets_all], leaf_ctors=len(leafs_all))
    chk.ob("C20.R3", where, "prune-takes-precedence", ok_prec,
           "when some assertion prunes, the node becomes a leaf carrying both tag lists (whether or not S is empty)", node=dec[0] if dec else fn)
    chk.ob("C20.R3", where, "unpruned-leaf", ok_leaf,
           "when nothing prunes and S is empty the result is a leaf with two empty tag lists", node=dec[0] if dec else fn)
    chk.ob("C20.R3", where, "complete-recursion", ok_rec,
           "when nothing prunes and S is non-empty there is exactly one child per element c2 of S, built with S minus c2 on a copy and "
           "the same assertion lists", node=dec[0] if dec else fn, **detail)
    # S is never mutated / rebound
    muts = [norm(x)[:60] for x in walk_local(fn) if isinstance(x, ast.Call) and isinstance(x.func, ast.Attribute) and norm(x.func.value) == S_
            and x.func.attr in ("remove", "discard", "add", "pop", "clear", "update", "difference_update", "intersection_update")]
    muts += [norm(s)[:60] for t, v, s in stores(fn) if norm(t) == S_]
    chk.ob("C20.R3", where, "S-not-mutated", not muts, "the set S of a node is never mutated or rebound (siblings see the same S)", node=fn,
           mutations=muts)
    # rendering
    tl = chk.fn(VIS, "treeListToTuple")
    ok = False
    for s in walk_local(tl):
        if isinstance(s, ast.If):
            got = Tx().cond(s.test)
            nd = next((norm(a0.targets[0]) for a0 in ast.walk(tl) if isinstance(a0, ast.Assign) and norm(a0.value) == f"{tl.args.args[0].arg}[0]"), "node")
            want = spec.cond_term(f"not ({nd}.NEBTagList or {nd}.IRVTagList)")
            if aud.cond_equiv(got, want)[0]:
                txt = [x.value for x in ast.walk(ast.Module(body=s.body, type_ignores=[])) if isinstance(x, ast.Constant) and isinstance(x.value, str)]
                ok = any("Unpruned leaf" in t for t in txt) and not s.orelse
    others = [x for x in ast.walk(tl) if isinstance(x, ast.Constant) and isinstance(x.value, str) and "Unpruned leaf" in x.value]
    chk.ob("C20.R3", f"{VIS}:treeListToTuple", "marker-iff-both-empty", ok and len(others) == 1,
           "the 'Unpruned leaf' marker is produced exactly when both tag lists of a leaf are empty", node=tl)
    # ---- R5 parseAssertions
    pa = chk.fn(VIS, "parseAssertions")
    rt = [r for r in walk_local(pa) if isinstance(r, ast.Return) and isinstance(r.value, ast.Tuple) and len(r.value.elts) == 4]
    WOL, IRVL = (norm(rt[0].value.elts[2]), norm(rt[0].value.elts[3])) if rt else ("WOLosers", "IRVElims")
    DET = "a_detail"
    for x in ast.walk(pa):
        if isinstance(x, ast.Compare) and isinstance(x.left, ast.Subscript) and isinstance(x.left.slice, ast.Constant) \
                and x.left.slice.value == "assertion_type" and isinstance(x.left.value, ast.Name):
            DET = x.left.value.id
    apps = [x for x in ast.walk(pa) if isinstance(x, ast.Call) and norm(x.func) in (f"{WOL}.append", f"{IRVL}.append")]
    env = {}
    ok_wo = ok_irv = False
    for x in apps:
        st = x
        while not isinstance(st, ast.stmt):
            st = parent(st)
        blk = parent(st)
        body = blk.body if st in getattr(blk, "body", []) else blk.orelse
        loc = {norm(s.targets[0]): norm(s.value) for s in body if isinstance(s, ast.Assign) and s.lineno < st.lineno}
        tup = x.args[0]
        if not isinstance(tup, ast.Tuple) or len(tup.elts) != 3:
            continue
        e = [loc.get(norm(t), norm(t)) for t in tup.elts]
        cond_txt = ""
        for a in ancestors(x):
            if isinstance(a, ast.If) and "assertion_type" in norm(a.test) and "==" in norm(a.test):
                cond_txt = norm(a.test)
                break
        third_ok = isinstance(tup.elts[2], ast.Name)
        if norm(x.func) == f"{WOL}.append" and "WINNER_ONLY" in cond_txt:
            ok_wo = e[0] == f"{DET}['loser']" and e[1] == f"{DET}['winner']" and third_ok
        if norm(x.func) == f"{IRVL}.append" and "IRV_ELIMINATION" in cond_txt:
            ok_irv = e[0] == f"{DET}['winner']" and e[1] == f"set({DET}['already_eliminated'])" and third_ok
    chk.ob("C20.R5", f"{VIS}:parseAssertions", "winner-only->(loser,winner,proved)", ok_wo,
           "a WINNER_ONLY assertion becomes the tuple (loser, winner, proved)", node=pa, strength="N")
    chk.ob("C20.R5", f"{VIS}:parseAssertions", "irv-elimination->(winner,set(eliminated),proved)", ok_irv,
           "an IRV_ELIMINATION assertion becomes (winner, set(already_eliminated), proved)", node=pa, strength="N")
    # the driver builds S = all candidates except the alternative winner
    bp = inline_aliases(chk.fn(VIS, "buildPrintedResults"))
    calls = [x for x in ast.walk(bp) if isinstance(x, ast.Call) and norm(x.func) == fn.name]
    ok = len(calls) == 1 and [norm(a) for a in calls[0].args][2:] == [a.arg for a in bp.args.args][2:4]
    # the set handed over for an alternative winner is built afresh for it: all candidates minus that winner
    ok_set = False
    detail = {}
    if len(calls) == 1:
        loop = next((a for a in ancestors(calls[0]) if isinstance(a, ast.For)), None)
        a1 = calls[0].args[1] if len(calls[0].args) > 1 else None
        a0 = norm(calls[0].args[0]) if calls[0].args else None
        if loop is not None and isinstance(a1, ast.Name):
            sname = a1.id
            inside = [st for st in loop.body if isinstance(st, ast.Assign) and norm(st.targets[0]) == sname]
            outside = [st for st in bp.body if isinstance(st, ast.Assign) and norm(st.targets[0]) == sname]
            adds = [c for c in walk_local(loop) if isinstance(c, ast.Call) and norm(c.func) == f"{sname}.add"]
            rems = [c for c in walk_local(loop) if isinstance(c, ast.Call) and norm(c.func) in (f"{sname}.remove", f"{sname}.discard")]
            detail = dict(built_in_loop=[norm(x)[:80] for x in inside], built_outside=[norm(x)[:80] for x in outside])
            fresh = len(inside) == 1 and not outside and norm(inside[0].value).startswith("set(") and inside[0].lineno < calls[0].lineno
            ok_set = fresh and len(adds) == 1 and norm(adds[0].args[0]) == bp.args.args[0].arg and len(rems) == 1 and norm(rems[0].args[0]) == a0 \
                and all(x.lineno < calls[0].lineno for x in adds + rems)
    chk.ob("C20.R5", f"{VIS}:buildPrintedResults", "fresh-candidate-set-per-alternative-winner", ok_set,
           "for every alternative winner the tree is built over a set created afresh inside the loop: all non-winners plus the apparent "
           "winner, minus exactly that alternative winner (a set shared across iterations would lose the earlier alternative winners)",
           node=bp, strength="N", **detail)
    chk.ob("C20.R5", f"{VIS}:buildPrintedResults", "driver-passes-assertions", ok,
           "the tree for each alternative winner is built with the full assertion lists", node=bp, strength="N")
