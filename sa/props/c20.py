"""C20 -- elimination tree shows an unpruned leaf iff the assertions are insufficient."""
from __future__ import annotations

import ast

from ..core import AnalysisError, norm
from .. import symx, spec, aud
from ..symx import Tx, E, S, fmt_cond
from ..canon import inline_aliases
from ..astutil import walk_local, stores, parent, ancestors
from ..cfg import paths

VIS = "shangrla/core/IRVVisualisationUtils.py"

META = dict(
    text="The 'iff' follows by a hand argument (an elimination order is a root-to-leaf path; an assertion contradicts the order iff "
         "it prunes a node on that path) from facts of the construction decided on the AST: (R1) NEB prune test at (c,S): some "
         "(l,w) with c == l and w in S; (R2) NEN prune test: some (a,E) with c == a and E == S (set equality); (R3) when nothing "
         "prunes and S is non-empty there is one child per element of S, built on a copy of S without that element, S itself never "
         "mutated; when nothing prunes and S is empty the result is a leaf with two empty tag lists, which is rendered with the "
         "'Unpruned leaf' marker iff both lists are empty; pruning takes precedence; (R4) the tag recorded for a matching assertion "
         "is its own position in the list; (R5) assertion JSON is translated to (loser, winner, proved) / (winner, set(eliminated), proved).",
    note="N for the iff as such (hand argument), P for the prune tables and tags. Rendering by svgling is not decided. D11 (tags "
         "by list.index of an equal tuple) was repaired with a fix: commit.",
    technique="decision tables of the prune tests, complete non-aliasing recursion rule, own-index tag rule",
)
META["text"] += ' R3 also: the node function has exactly its four parameters, no mutable default and no global state.'
META["text"] += ' R3 decides by short-circuit paths with three-valued decisions (a merged `if prune or not S` is read as its two cases). R5 also: every assertion of a type is appended (nothing before the append can leave the iteration) and the candidate list is a map over the ids handed in.'
META["text"] += ' R5 also: the trees are built over the candidate ids as given (no conversion, no re-binding), read per element of the list handed in.'
META["text"] += ' R5 also: the assertion_json entry of an assertion is found by its position in the log.'
META["text"] += ' (R6, N, frame condition on arguments) the tree is a function of the log it is given, and the log is the same after it was drawn: every function in scope changes the objects it is handed only in the ways confirmed for it (aud.ARG_EFFECTS); references are followed through aliases, elements, attributes, loop variables, .get/.items/.values and np.asarray, resolved by the bindings that reach the use.'


from ..canon import expand_locals  # noqa: E402


def run(chk):
    from .. import aud as _aud8
    _aud8.argument_effects(chk, 'C20.R6', 'shangrla/core/IRVVisualisationUtils.py', 'the tree is a function of the log it is given, and the log is the same after it was drawn', only=None)
    chk.explain("R1/R2 prune tests as decision tables; R3 complete, non-aliasing recursion and leaf rendering; R4 own-index tags; R5 "
                "translation of assertion JSON into pruning tuples.")
    chk.trust("symx decision tables", "set equality / membership semantics of Python sets")
    fn = chk.fn(VIS, "buildRemainingTreeAsLists", canonical=True)
    where = f"{VIS}:buildRemainingTreeAsLists"
    params = [a.arg for a in fn.args.args]
    # the subtree at (c, S) is a function of c, S and the two assertion lists it is given: no further parameter (a cache with a
    # mutable default would persist across calls and across assertion sets), no module-level state
    mutable_defaults = [norm(d) for d in fn.args.defaults + [d for d in fn.args.kw_defaults if d is not None]
                        if isinstance(d, (ast.Dict, ast.List, ast.Set, ast.Call))]
    glob = [norm(x) for x in walk_local(fn) if isinstance(x, (ast.Global, ast.Nonlocal))]
    pure_sig = len(params) == 4 and not fn.args.kwonlyargs and not fn.args.vararg and not fn.args.kwarg and not mutable_defaults and not glob
    chk.ob("C20.R3", where, "node-is-a-function-of-its-four-arguments", pure_sig,
           "buildRemainingTreeAsLists(c, S, WOLosers, IRVElims) has exactly these four parameters, no mutable default and no "
           "global state: the tree built for one assertion set cannot leak into the tree built for another",
           node=fn, strength="N", parameters=params, mutable_defaults=mutable_defaults)
    if len(params) < 4:
        raise AnalysisError("buildRemainingTreeAsLists: fewer than four parameters")
    c, S_, WO, IRV = params[:4]
    # The canonical form (canon.inline_aliases) has turned "flag + filter-append loop" into
    #     TAGS = [tag for i, a in enumerate(LIST) if test]        and the flag into        TAGS1 or TAGS2
    # so the function is read as: two tag lists, one decision, three outcomes -- however the maintainers spell it.
    comps = {}
    for st in fn.body:
        if isinstance(st, ast.Assign) and len(st.targets) == 1 and isinstance(st.targets[0], ast.Name) and isinstance(st.value, ast.ListComp) \
                and len(st.value.generators) == 1:
            g = st.value.generators[0]
            src = g.iter.args[0] if isinstance(g.iter, ast.Call) and norm(g.iter.func) == "enumerate" and len(g.iter.args) == 1 else g.iter
            if norm(src) in (WO, IRV) and norm(src) not in comps:
                comps[norm(src)] = (st.targets[0].id, st.value, st)
    NT = comps[WO][0] if WO in comps else None
    IT = comps[IRV][0] if IRV in comps else None
    specs = {
        WO: ("C20.R1", "neb-prune-test", "{c} == {v}[0] and {v}[1] in {S}", "NEBTags",
             "prune at (c, S) by a not-eliminated-before assertion iff c is its loser and its winner is still in S"),
        IRV: ("C20.R2", "nen-prune-test", "{c} == {v}[0] and {v}[1] == {S}", "IRVTags",
              "prune at (c, S) by a not-eliminated-next assertion iff c is its candidate and its eliminated set equals S"),
    }
    for lst, (rule, key, cond_src, label, what) in specs.items():
        ok = ok_tag = False
        detail = {}
        node = fn
        if lst in comps:
            name, lc, node = comps[lst]
            g = lc.generators[0]
            idxv = v = None
            if isinstance(g.iter, ast.Call) and norm(g.iter.func) == "enumerate" and isinstance(g.target, ast.Tuple) and len(g.target.elts) == 2:
                idxv, v = [norm(e) for e in g.target.elts]
            elif norm(g.iter) == lst:
                v = norm(g.target)
            if v is not None and g.ifs:
                got = symx.c_and(*[Tx().cond(i) for i in g.ifs])
                want = spec.cond_term(cond_src.format(c=c, v=v, S=S_))
                okc, n, cex = aud.cond_equiv(got, want)
                # the list is bound once and only read afterwards
                binds = [x for x in ast.walk(fn) if isinstance(x, ast.Name) and x.id == name and isinstance(x.ctx, (ast.Store, ast.Del))]
                muts = [x for x in ast.walk(fn) if isinstance(x, ast.Call) and isinstance(x.func, ast.Attribute) and norm(x.func.value) == name]
                ok = okc and len(binds) == 1 and not muts
                detail = dict(test=fmt_cond(got), rows=n)
                if isinstance(lc.elt, ast.Tuple) and len(lc.elt.elts) == 2:
                    first, second = [norm(e) for e in lc.elt.elts]
                    ok_tag = idxv is not None and first == idxv and second == f"{v}[2]"
                    detail["tag"] = norm(lc.elt)
        chk.ob(rule, where, key, ok, what + "; every assertion of the list is examined", node=node, **detail)
        chk.ob("C20.R4", where, f"own-index-tag:{label}", ok_tag,
               "the tag recorded for a matching assertion is (its own position in the list, its proved flag)", node=node,
               tag=detail.get("tag"))
        chk.exhaustive = True
    chk.ob("C20.R4", where, "tags-start-empty", NT is not None and IT is not None,
           "both tag lists are built afresh at every node from the matching assertions only (a filter over the whole list: empty "
           "when nothing matches)", node=fn)
    # ---- R3 the decision, by paths
    ok_prec = ok_leaf = ok_rec = False
    detail = {}
    problems = []
    n_prune = n_leaf = n_rec = 0
    seen_leaf_ctors = set()
    if NT and IT:
        prune_c = symx.c_or(("atom", f"truthy({NT})"), ("atom", f"truthy({IT})"))
        empty_c = symx.c_not(("atom", f"truthy({S_})"))
        body = [x for x in fn.body if not (isinstance(x, ast.Expr) and isinstance(x.value, ast.Constant))]
        for p_ in paths(body, split=True):
            pol_prune = pol_empty = None
            known = {}
            for e in p_.events:
                if e[0] != "test":
                    continue
                try:
                    cnd = Tx().cond(e[1])
                except symx.Unsupported:
                    continue
                if cnd in (True, False):
                    continue
                if cnd[0] == "atom":
                    known[cnd[1]] = e[2]
                elif cnd[0] == "not" and cnd[1][0] == "atom":
                    known[cnd[1][1]] = not e[2]
                for target, nm in ((prune_c, "prune"), (empty_c, "empty")):
                    if aud.cond_equiv(cnd, target)[0]:
                        val = e[2]
                    elif aud.cond_equiv(cnd, symx.c_not(target))[0]:
                        val = not e[2]
                    else:
                        continue
                    if nm == "prune":
                        pol_prune = val
                    else:
                        pol_empty = val
            # (a decision spelled over several tests: what the atoms decided on this path make of it)
            if pol_prune is None:
                pol_prune = symx.eval_cond3(prune_c, known)
            if pol_empty is None:
                pol_empty = symx.eval_cond3(empty_c, known)
            stm = [e[1] for e in p_.events if e[0] in ("stmt", "loop")]
            ret = stm[-1] if stm and isinstance(stm[-1], ast.Return) else None
            if p_.exit != "return" or ret is None:
                problems.append("a path does not end in a return")
                continue
            val = ret.value
            if isinstance(val, ast.Name):  # the value last bound to that name on this path
                defs = [x for x in stm if isinstance(x, ast.Assign) and len(x.targets) == 1 and norm(x.targets[0]) == val.id]
                tree_name = val.id
                val = defs[-1].value if defs else None
            else:
                tree_name = None
            loops_on = [x for x in stm if isinstance(x, (ast.For, ast.While))]
            leaf = val.elts[0] if isinstance(val, ast.List) and len(val.elts) == 1 and isinstance(val.elts[0], ast.Call) \
                and norm(val.elts[0].func) == "LeafNode" else None
            kw = {k.arg: norm(k.value) for k in leaf.keywords} if leaf is not None else {}
            if leaf is not None:
                seen_leaf_ctors.add(id(leaf))
            if pol_prune is None:
                problems.append("a path returns without consulting the prune decision")
            elif pol_prune:
                n_prune += 1
                if not (kw.get("cand") == c and kw.get("NEBTagList") == NT and kw.get("IRVTagList") == IT and not loops_on):
                    problems.append("prune path: not a leaf carrying both tag lists")
            elif pol_empty is None:
                problems.append("an unpruned path returns without testing whether S is empty")
            elif pol_empty:
                n_leaf += 1
                # (on a path where nothing prunes both tag lists are falsy lists, i.e. empty: naming them is writing [])
                if not (kw.get("cand") == c and kw.get("NEBTagList") in ("[]", NT) and kw.get("IRVTagList") in ("[]", IT) and not loops_on):
                    problems.append("unpruned empty-S path: not a leaf with two empty tag lists")
            else:
                n_rec += 1
                good = False
                if isinstance(val, ast.List) and len(val.elts) == 2 and norm(val.elts[0]) == c and len(loops_on) == 1 \
                        and isinstance(loops_on[0], ast.For) and norm(loops_on[0].iter) == S_:
                    kids = val.elts[1]
                    receivers = []
                    if isinstance(kids, ast.List) and not kids.elts and tree_name:
                        receivers.append(f"{tree_name}[1]")
                    if isinstance(kids, ast.Name):
                        kd = [x for x in stm if isinstance(x, ast.Assign) and norm(x.targets[0]) == kids.id]
                        if len(kd) == 1 and norm(kd[0].value) == "[]":
                            receivers.append(kids.id)
                            if tree_name:
                                receivers.append(f"{tree_name}[1]")
                    l = loops_on[0]
                    c2 = norm(l.target)
                    calls = [x for x in walk_local(l) if isinstance(x, ast.Call) and norm(x.func) == fn.name]
                    copies = [s0 for s0 in l.body if isinstance(s0, ast.Assign) and norm(s0.value) in (f"{S_}.copy()", f"set({S_})", f"{S_}-{{{c2}}}", f"{S_}.difference({{{c2}}})")]
                    if len(calls) == 1:
                        args = calls[0].args
                        sm_ok = False
                        if len(copies) == 1 and len(args) == 4:
                            sm = norm(copies[0].targets[0])
                            removed = any(isinstance(x, ast.Call) and norm(x.func) in (f"{sm}.remove", f"{sm}.discard") and norm(x.args[0]) == c2
                                          for x in walk_local(l)) or norm(copies[0].value) in (f"{S_}-{{{c2}}}", f"{S_}.difference({{{c2}}})")
                            sm_ok = removed and norm(args[1]) == sm
                        elif len(args) == 4 and norm(args[1]) in (f"{S_}-{{{c2}}}", f"{S_}.difference({{{c2}}})"):
                            sm_ok = True
                        appended = isinstance(parent(calls[0]), ast.Call) and isinstance(parent(calls[0]).func, ast.Attribute) \
                            and parent(calls[0]).func.attr == "append" and norm(parent(calls[0]).func.value) in receivers \
                            and isinstance(parent(parent(calls[0])), ast.Expr) and parent(parent(parent(calls[0]))) is l
                        esc = [x for x in walk_local(l) if isinstance(x, (ast.Break, ast.Continue, ast.Return))]
                        good = sm_ok and len(args) == 4 and norm(args[0]) == c2 and [norm(a_) for a_ in args[2:]] == [WO, IRV] and appended and not esc
                        detail["recursive_call"] = norm(calls[0])
                if not good:
                    problems.append("recursion path: not one child per element of S built on S minus that element")
        ok_prec = n_prune >= 1 and not [x for x in problems if x.startswith("prune path")]
        ok_leaf = n_leaf >= 1 and not [x for x in problems if x.startswith("unpruned empty")]
        ok_rec = n_rec >= 1 and not [x for x in problems if x.startswith("recursion path")]
    rets_all = [r for r in walk_local(fn) if isinstance(r, ast.Return)]
    leafs_all = [x for x in ast.walk(fn) if isinstance(x, ast.Call) and norm(x.func) == "LeafNode"]
    in_loops = [r for r in rets_all if any(isinstance(a_, (ast.For, ast.While)) for a_ in ancestors(r))]
    structural = [x for x in problems if not (x.startswith("prune path") or x.startswith("unpruned empty") or x.startswith("recursion path"))]
    only = bool(NT and IT) and not structural and not in_loops and all(id(x) in seen_leaf_ctors for x in leafs_all)
    chk.ob("C20.R3", where, "single-decision", bool(only),
           "the node's fate is decided only by the prune / empty / recurse decision after both assertion lists were examined: no other "
           "return and no other leaf constructor", node=fn, problems=structural, returns=len(rets_all), leaf_ctors=len(leafs_all))
    chk.ob("C20.R3", where, "prune-takes-precedence", ok_prec,
           "when some assertion prunes, the node becomes a leaf carrying both tag lists (whether or not S is empty)", node=fn, paths=n_prune)
    chk.ob("C20.R3", where, "unpruned-leaf", ok_leaf,
           "when nothing prunes and S is empty the result is a leaf with two empty tag lists", node=fn, paths=n_leaf)
    chk.ob("C20.R3", where, "complete-recursion", ok_rec,
           "when nothing prunes and S is non-empty there is exactly one child per element c2 of S, built with S minus c2 on a copy and "
           "the same assertion lists", node=fn, paths=n_rec, **detail)
    # S is never mutated / rebound
    muts = [norm(x)[:60] for x in walk_local(fn) if isinstance(x, ast.Call) and isinstance(x.func, ast.Attribute) and norm(x.func.value) == S_
            and x.func.attr in ("remove", "discard", "add", "pop", "clear", "update", "difference_update", "intersection_update")]
    muts += [norm(s)[:60] for t, v, s in stores(fn) if norm(t) == S_]
    chk.ob("C20.R3", where, "S-not-mutated", not muts, "the set S of a node is never mutated or rebound (siblings see the same S)", node=fn,
           mutations=muts)
    # rendering
    tl = chk.fn(VIS, "treeListToTuple", canonical=True)
    # by paths: on every feasible path through the leaf branch the marker text is written iff both tag lists were found empty.
    # Atoms: truthy(<leaf>.NEBTagList), truthy(<leaf>.IRVTagList); a local list that starts as [] is truthy on a path iff the
    # path appends to it (so `if blocks:` after conditional appends is decided by the appends made).
    t_ = tl.args.args[0].arg
    nd = next((norm(a0.targets[0]) for a0 in ast.walk(tl) if isinstance(a0, ast.Assign) and norm(a0.value) == f"{t_}[0]"), f"{t_}[0]")  # the leaf object, named or not
    a_neb, a_irv = f"truthy({nd}.NEBTagList)", f"truthy({nd}.IRVTagList)"
    body_tl = [x for x in tl.body if not (isinstance(x, ast.Expr) and isinstance(x.value, ast.Constant))]
    n_marker = n_plain = 0
    bad = []
    for p_ in paths(body_tl, split=True):
        stm = [e[1] for e in p_.events if e[0] in ("stmt", "loop")]
        if p_.exit != "return" or not stm or not isinstance(stm[-1], ast.Return):
            continue
        known, feasible = {}, True
        empties = {}  # local list -> number of appends so far on this path
        for e in p_.events:
            if e[0] in ("stmt", "loop"):
                x = e[1]
                if isinstance(x, ast.Assign) and len(x.targets) == 1 and isinstance(x.targets[0], ast.Name):
                    if isinstance(x.value, ast.List) and not x.value.elts:
                        empties[x.targets[0].id] = 0
                    else:
                        empties.pop(x.targets[0].id, None)
                for c_ in ([x.value] if isinstance(x, ast.Expr) else []):
                    if isinstance(c_, ast.Call) and isinstance(c_.func, ast.Attribute) and c_.func.attr in ("append", "extend", "insert") \
                            and isinstance(c_.func.value, ast.Name) and c_.func.value.id in empties:
                        empties[c_.func.value.id] += 1 if c_.func.attr != "extend" else 0
                        if c_.func.attr == "extend":
                            empties.pop(c_.func.value.id, None)
                continue
            if e[0] != "test":
                continue
            try:
                cnd = Tx().cond(e[1])
            except symx.Unsupported:
                continue
            atom, pol = (cnd[1], e[2]) if cnd not in (True, False) and cnd[0] == "atom" else \
                ((cnd[1][1], not e[2]) if cnd not in (True, False) and cnd[0] == "not" and cnd[1][0] == "atom" else (None, None))
            if atom is None:
                continue
            if atom.startswith("truthy(") and atom[7:-1] in empties:
                if pol != (empties[atom[7:-1]] > 0):
                    feasible = False
                continue
            if atom in known and known[atom] != pol:
                feasible = False
            known[atom] = pol
        if not feasible:
            continue
        leaf_branch = any(isinstance(x, ast.Assign) and norm(x.value) == f"{t_}[0]" for x in stm) or nd == f"{t_}[0]"
        if not leaf_branch or known.get(f"eq(1,len({t_}))") is False:
            continue
        marker = any(isinstance(k, ast.Constant) and isinstance(k.value, str) and "Unpruned leaf" in k.value for x in stm
                     if isinstance(x, (ast.Assign, ast.AugAssign, ast.Return)) for k in ast.walk(x))
        if a_neb not in known or a_irv not in known:
            if not any(isinstance(x, ast.Return) and norm(x.value).startswith(f"({nd}[0],") or isinstance(x, ast.Return) for x in stm[-1:]):
                continue
            bad.append("a leaf path returns without looking at both tag lists")
            continue
        both_empty = known[a_neb] is False and known[a_irv] is False
        if marker != both_empty:
            bad.append(f"NEB tags {'present' if known[a_neb] else 'absent'}, IRV tags {'present' if known[a_irv] else 'absent'}: marker "
                       f"{'written' if marker else 'not written'}")
        n_marker += marker
        n_plain += not marker
    ok = n_marker >= 1 and n_plain >= 1 and not bad
    others = [x for x in ast.walk(tl) if isinstance(x, ast.Constant) and isinstance(x.value, str) and "Unpruned leaf" in x.value]
    chk.ob("C20.R3", f"{VIS}:treeListToTuple", "marker-iff-both-empty", ok and len(others) == 1,
           "the 'Unpruned leaf' marker is produced exactly when both tag lists of a leaf are empty", node=tl, problems=bad,
           marker_paths=n_marker, other_leaf_paths=n_plain)
    # ---- R5 parseAssertions
    pa = chk.fn(VIS, "parseAssertions", canonical=True)
    rt = [r for r in walk_local(pa) if isinstance(r, ast.Return) and isinstance(r.value, ast.Tuple) and len(r.value.elts) == 4]
    WOL, IRVL = (norm(rt[0].value.elts[2]), norm(rt[0].value.elts[3])) if rt else ("WOLosers", "IRVElims")
    DET = "a_detail"
    for x in ast.walk(pa):
        if isinstance(x, ast.Compare) and isinstance(x.left, ast.Subscript) and isinstance(x.left.slice, ast.Constant) \
                and x.left.slice.value == "assertion_type" and isinstance(x.left.value, ast.Name):
            DET = x.left.value.id
    # the description of the i-th assertion is the i-th entry of assertion_json (the log lists them in the same order; the keys of
    # the assertions dict are free-form identifiers): the detail is looked up by the position of the assertion in the loop
    dets = [s_ for s_ in walk_local(pa) if isinstance(s_, ast.Assign) and any(isinstance(t_, ast.Name) and t_.id == DET for t_ in s_.targets)]
    by_pos = False
    for s_ in dets:
        v_ = s_.value
        loop_ = next((a_ for a_ in ancestors(s_) if isinstance(a_, ast.For)), None)
        if isinstance(v_, ast.Subscript) and isinstance(v_.slice, ast.Name) and loop_ is not None and isinstance(loop_.iter, ast.Call) \
                and norm(loop_.iter.func) == "enumerate" and isinstance(loop_.target, ast.Tuple) and norm(loop_.target.elts[0]) == v_.slice.id \
                and "assertions" in norm(loop_.iter.args[0]):
            by_pos = True
    chk.ob("C20.R5", f"{VIS}:parseAssertions", "detail-of-the-ith-assertion-is-the-ith-entry", by_pos,
           "the assertion_json entry describing an assertion is found by the assertion's position in the log, not by a key rebuilt "
           "from its content (whoever wrote the log chose the keys)", node=dets[0] if dets else pa, strength="N",
           lookups=[norm(s_.value)[:60] for s_ in dets])
    apps = [x for x in ast.walk(pa) if isinstance(x, ast.Call) and norm(x.func) in (f"{WOL}.append", f"{IRVL}.append")]
    env = {}
    ok_wo = ok_irv = False
    for x in apps:
        st = x
        while not isinstance(st, ast.stmt):
            st = parent(st)
        blk = parent(st)
        body = blk.body if st in getattr(blk, "body", []) else blk.orelse
        loc = {norm(s.targets[0]): norm(s.value) for s in body if isinstance(s, ast.Assign) and s.lineno < st.lineno}
        tup = x.args[0]
        if not isinstance(tup, ast.Tuple) or len(tup.elts) != 3:
            continue
        e = [loc.get(norm(t), norm(t)) for t in tup.elts]
        cond_txt = ""
        for a in ancestors(x):
            if isinstance(a, ast.If) and "assertion_type" in norm(a.test) and "==" in norm(a.test):
                cond_txt = norm(a.test)
                break
        third_ok = isinstance(tup.elts[2], ast.Name)
        # ... for *every* assertion of that type: the append sits directly in the branch of the type test and nothing before it in
        # that branch can leave the iteration (an assertion that is skipped prunes nothing, and shifts the numbers of the others)
        type_if = next((a for a in ancestors(x) if isinstance(a, ast.If) and "assertion_type" in norm(a.test)), None)
        skips = [n_ for s_ in body if s_.lineno < st.lineno for n_ in ast.walk(s_) if isinstance(n_, (ast.Continue, ast.Break, ast.Return, ast.Raise))]
        third_ok = third_ok and blk is type_if and not skips
        if norm(x.func) == f"{WOL}.append" and "WINNER_ONLY" in cond_txt:
            ok_wo = e[0] == f"{DET}['loser']" and e[1] == f"{DET}['winner']" and third_ok
        if norm(x.func) == f"{IRVL}.append" and "IRV_ELIMINATION" in cond_txt:
            ok_irv = e[0] == f"{DET}['winner']" and e[1] == f"set({DET}['already_eliminated'])" and third_ok
    chk.ob("C20.R5", f"{VIS}:parseAssertions", "winner-only->(loser,winner,proved)", ok_wo,
           "a WINNER_ONLY assertion becomes the tuple (loser, winner, proved)", node=pa, strength="N")
    chk.ob("C20.R5", f"{VIS}:parseAssertions", "irv-elimination->(winner,set(eliminated),proved)", ok_irv,
           "an IRV_ELIMINATION assertion becomes (winner, set(already_eliminated), proved)", node=pa, strength="N")
    # the candidates the trees range over are the contest's non-winners, every one of them: the (id, name) list handed on is a map
    # over the ids given -- one pair per id, in order, named or not (an id missing from the manifest still is a candidate)
    if chk.idx.has_func(VIS, "findListCandidateNames"):
        fl = chk.fn(VIS, "findListCandidateNames", canonical=True)
        ids = fl.args.args[0].arg if fl.args.args else "IDList"
        rets_ = [r for r in walk_local(fl) if isinstance(r, ast.Return) and r.value is not None]
        ok_map = False
        shape = None
        if len(rets_) == 1:
            v = expand_locals(rets_[0].value, fl, stop=(ids,))
            if isinstance(v, ast.Call) and norm(v.func) == "list" and len(v.args) == 1:
                v = v.args[0]
            shape = norm(v)[:120]
            if isinstance(v, ast.Call) and norm(v.func) == "map" and len(v.args) == 2 and isinstance(v.args[0], ast.Lambda) and norm(v.args[1]) == ids:
                lam = v.args[0]
                p0 = lam.args.args[0].arg if lam.args.args else None
                ok_map = isinstance(lam.body, ast.Tuple) and len(lam.body.elts) == 2 and norm(lam.body.elts[0]) == p0
            elif isinstance(v, (ast.ListComp, ast.GeneratorExp)) and len(v.generators) == 1:
                g_ = v.generators[0]
                ok_map = not g_.ifs and norm(g_.iter) == ids and isinstance(v.elt, ast.Tuple) and len(v.elt.elts) == 2 \
                    and norm(v.elt.elts[0]) == norm(g_.target)
        chk.ob("C20.R5", f"{VIS}:findListCandidateNames", "one-pair-per-candidate-id", ok_map,
               "the list of (id, name) pairs has exactly one pair for every id handed in, in order, whether or not the manifest knows "
               "the id: no candidate drops out of the trees", node=fl, strength="N", returned=shape)
    # the driver builds S = all candidates except the alternative winner
    bp = inline_aliases(chk.fn(VIS, "buildPrintedResults"))
    calls = [x for x in ast.walk(bp) if isinstance(x, ast.Call) and norm(x.func) == fn.name]
    ok = len(calls) == 1 and [norm(a) for a in calls[0].args][2:] == [a.arg for a in bp.args.args][2:4]
    # the set handed over for an alternative winner is built afresh for it: all candidates minus that winner
    ok_set = False
    detail = {}
    loop = a1 = None
    inside, adds, rems = [], [], []
    if len(calls) == 1:
        loop = next((a for a in ancestors(calls[0]) if isinstance(a, ast.For)), None)
        a1 = calls[0].args[1] if len(calls[0].args) > 1 else None
        a0 = norm(calls[0].args[0]) if calls[0].args else None
        if loop is not None and isinstance(a1, ast.Name):
            sname = a1.id
            inside = [st for st in loop.body if isinstance(st, ast.Assign) and norm(st.targets[0]) == sname]
            outside = [st for st in bp.body if isinstance(st, ast.Assign) and norm(st.targets[0]) == sname]
            adds = [c for c in walk_local(loop) if isinstance(c, ast.Call) and norm(c.func) == f"{sname}.add"]
            rems = [c for c in walk_local(loop) if isinstance(c, ast.Call) and norm(c.func) in (f"{sname}.remove", f"{sname}.discard")]
            detail = dict(built_in_loop=[norm(x)[:80] for x in inside], built_outside=[norm(x)[:80] for x in outside])
            # (a copy, made inside the loop, of a set built once outside and never touched is as fresh as `set(...)` made inside)
            made = norm(expand_locals(inside[0].value, bp, stop=(norm(loop.target), bp.args.args[1].arg))) if len(inside) == 1 else ""
            src_names = {n_.id for n_ in ast.walk(inside[0].value) if isinstance(n_, ast.Name)} if len(inside) == 1 else set()
            touched = [c_ for c_ in walk_local(bp) if isinstance(c_, ast.Call) and isinstance(c_.func, ast.Attribute) and isinstance(c_.func.value, ast.Name)
                       and c_.func.value.id in src_names - {sname} and c_.func.attr in ("add", "remove", "discard", "pop", "clear", "update",
                                                                                           "difference_update", "intersection_update", "symmetric_difference_update")]
            fresh = len(inside) == 1 and not outside and made.startswith("set(") and inside[0].lineno < calls[0].lineno and not touched \
                and (norm(inside[0].value).startswith("set(") or norm(inside[0].value).endswith(".copy()"))
            ok_set = fresh and len(adds) == 1 and norm(adds[0].args[0]) == bp.args.args[0].arg and len(rems) == 1 and norm(rems[0].args[0]) == a0 \
                and all(x.lineno < calls[0].lineno for x in adds + rems)
    # ... of the ids *as given*: the alternative winner handed to the tree builder is the element's own id, the other members of
    # the set are the ids of the list handed in and the apparent-winner argument, none of them converted (str(), int(), ...) --
    # the assertion tuples carry the ids as parseAssertions read them, and a converted id equals none of them
    ok_ids = False
    if len(calls) == 1 and loop is not None and isinstance(a1, ast.Name):
        lv = norm(loop.target)
        p0, p1 = bp.args.args[0].arg, bp.args.args[1].arg
        root = expand_locals(calls[0].args[0], bp, stop=(lv,))
        members = expand_locals(inside[0].value, bp, stop=(lv, p1)) if len(inside) == 1 else None
        src_ok = False
        if isinstance(members, ast.Call) and isinstance(members.func, ast.Attribute) and members.func.attr == "copy" and not members.args:
            members = members.func.value  # a copy of a set has the same members
        if isinstance(members, ast.Call) and norm(members.func) == "set" and len(members.args) == 1:
            m0 = members.args[0]
            if isinstance(m0, ast.Call) and norm(m0.func) in ("list", "set", "tuple") and len(m0.args) == 1:
                m0 = m0.args[0]
            if isinstance(m0, (ast.ListComp, ast.GeneratorExp, ast.SetComp)) and len(m0.generators) == 1 and not m0.generators[0].ifs:
                g_ = m0.generators[0]
                src_ok = norm(g_.iter) == p1 and norm(m0.elt) == f"{norm(g_.target)}[0]"
        elif isinstance(members, ast.SetComp) and len(members.generators) == 1 and not members.generators[0].ifs:
            g_ = members.generators[0]
            src_ok = norm(g_.iter) == p1 and norm(members.elt) == f"{norm(g_.target)}[0]"
        rebound = [x for x in walk_local(bp) if isinstance(x, ast.Name) and x.id in (p0, p1) and isinstance(x.ctx, (ast.Store, ast.Del))]
        def as_element(e):
            """the expression in terms of ELEM, the element of the list handed in that this iteration is about (the loop may run
            over the list itself, or over zip(<ids derived from it>, <it>))"""
            e = expand_locals(e, bp, stop=tuple(x.id for x in ast.walk(loop.target) if isinstance(x, ast.Name)))
            if isinstance(loop.target, ast.Name) and norm(loop.iter) == p1:
                return norm(e).replace(loop.target.id, "ELEM") if isinstance(e, (ast.Subscript, ast.Name)) else None
            if isinstance(loop.target, ast.Tuple) and isinstance(loop.iter, ast.Call) and norm(loop.iter.func) == "zip" \
                    and len(loop.iter.args) == len(loop.target.elts) and any(norm(a_) == p1 for a_ in loop.iter.args):
                for t_, a_ in zip(loop.target.elts, loop.iter.args):
                    if isinstance(e, ast.Name) and isinstance(t_, ast.Name) and e.id == t_.id:
                        a_ = expand_locals(a_, bp, stop=(p1,))
                        if norm(a_) == p1:
                            return "ELEM"
                        if isinstance(a_, ast.ListComp) and len(a_.generators) == 1 and not a_.generators[0].ifs \
                                and norm(a_.generators[0].iter) == p1 and isinstance(a_.generators[0].target, ast.Name):
                            return norm(a_.elt).replace(a_.generators[0].target.id, "ELEM")
                    if isinstance(e, ast.Subscript) and isinstance(e.value, ast.Name) and isinstance(t_, ast.Name) and e.value.id == t_.id \
                            and norm(a_) == p1:
                        return norm(e).replace(t_.id, "ELEM")
            return None
        root_txt = as_element(calls[0].args[0])
        rem_txt = as_element(rems[0].args[0]) if len(rems) == 1 else None
        ok_ids = root_txt == "ELEM[0]" and rem_txt == "ELEM[0]" and src_ok and not rebound and len(adds) == 1 and norm(adds[0].args[0]) == p0
        detail["root"] = root_txt
    chk.ob("C20.R5", f"{VIS}:buildPrintedResults", "candidate-ids-as-given", ok_ids,
           "the trees are built over the candidate ids exactly as handed in (the element's own id as alternative winner, the ids of the "
           "list and the apparent-winner argument as members): no conversion, no re-binding of the arguments", node=bp, strength="N")
    chk.ob("C20.R5", f"{VIS}:buildPrintedResults", "fresh-candidate-set-per-alternative-winner", ok_set,
           "for every alternative winner the tree is built over a set created afresh inside the loop: all non-winners plus the apparent "
           "winner, minus exactly that alternative winner (a set shared across iterations would lose the earlier alternative winners)",
           node=bp, strength="N", **detail)
    chk.ob("C20.R5", f"{VIS}:buildPrintedResults", "driver-passes-assertions", ok,
           "the tree for each alternative winner is built with the full assertion lists", node=bp, strength="N")
