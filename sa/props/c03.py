"""C03 -- comparison audits test the right null (overstatement reduction)."""
from __future__ import annotations

import ast

import sympy as sp

from ..core import AnalysisError, norm
from .. import symx, spec, aud
from ..aud import REL, W, BOOL_FLAGS
from ..symx import Tx, E, S, is_zero, c_and, c_or, c_not, fmt_cond
from ..canon import structure_continues, _dc
from ..astutil import walk_local, stores, parent, attr_stores

META = dict(
    text="The identity mean(B) - 1/2 = (2 mean(A) - 1)/(2(2u - v)) follows from four facts that are each decided on the "
         "AST for all CVR/MVR lists: (R1) B == (1 - omega/u)/(2 - v/u) with the callee's own argument order; (R2) omega == "
         "(CVR side) - (MVR side) with the phantom / missing-contest / pool-mean conventions, as an exhaustive decision "
         "table compared with the conventions quoted from the property; (R3) v and the pool means are taken with the same "
         "style filter over the same population (filter tables equal; numerator and denominator accumulate over one "
         "comprehension); (R4) every pooled CVR gets every contest of its pool. The identity itself is then a sympy "
         "identity (R5) under those conventions.",
    note="P for R1/R2/R5 (decision table + cancel), N for R3/R4 (bookkeeping shape). Not decided: that the caller "
         "computes margin and pool means from the CVR list it later samples (outside the library).",
    technique="AST-to-term translation with exhaustive decision tables + computer-algebra identity; sibling filter agreement",
)
META["text"] += " (R6 = C06.R4) each datum is B of the MVR and the CVR of the same card, with the contest's own use_style."
META["text"] += ' R6 also borrows the CVR-side style filter of C06.R4 and C06.R1 (every margin is recomputed from the CVRs handed in before it is used).'
META["text"] += ' R6 also: the data mvrs_to_data returns are the array of B values as built (not clipped, rounded, re-bound or written into).'
META["text"] += ' R1 also: B, omega and the mean keep no state between calls (no cache of an earlier margin or record).'
META["text"] += ' R3 also: set_all_margins_from_cvrs hands the CVR list on as given (not de-duplicated or filtered).'
META["text"] += ' (R7, N, frame condition on arguments) overstatements are computed from the two records, which stay as they are: every function in scope changes the objects it is handed only in the ways confirmed for it (aud.ARG_EFFECTS); references are followed through aliases, elements, attributes, loop variables, .get/.items/.values and np.asarray, resolved by the bindings that reach the use.'

SPEC_OMEGA = '''
def spec(self, mvr, cvr, use_style):
    if use_style and not cvr.has_contest(self.contest.id):
        raise ValueError()
    a_mvr = 0 if (mvr.phantom or (use_style and not mvr.has_contest(self.contest.id))) else self.assort(mvr)
    a_cvr = (self.tally_pool_means[cvr.tally_pool] if (cvr.pool and self.tally_pool_means is not None)
             else (1/2 if cvr.phantom else self.assort(cvr)))
    return a_cvr - a_mvr
'''

SPEC_B = '''
def spec(self, mvr, cvr, use_style):
    if use_style and not cvr.has_contest(self.assorter.contest.id):
        raise ValueError()
    a_mvr = 0 if (mvr.phantom or (use_style and not mvr.has_contest(self.assorter.contest.id))) else self.assorter.assort(mvr)
    a_cvr = (self.assorter.tally_pool_means[cvr.tally_pool] if (cvr.pool and self.assorter.tally_pool_means is not None)
             else (1/2 if cvr.phantom else self.assorter.assort(cvr)))
    return (1 - (a_cvr - a_mvr)/self.assorter.upper_bound) / (2 - self.margin/self.assorter.upper_bound)
'''


def run(chk):
    from .. import aud as _aud8
    _aud8.argument_effects(chk, 'C03.R7', 'shangrla/core/Audit.py', 'overstatements are computed from the two records, which stay as they are', only=lambda q: q.startswith('Assertion.'))
    _aud8.argument_effects(chk, 'C03.R7', 'shangrla/core/Audit.py', 'overstatements are computed from the two records, which stay as they are', only=lambda q: q.startswith('Assorter.'))
    idx = chk.idx
    chk.explain(
        "R1: Assertion.overstatement_assorter, with Assorter.overstatement inlined through the resolved call (argument "
        "binding by the callee's parameter names), equals (1 - omega/u)/(2 - v/u); make_overstatement is the same "
        "function of omega = overs. R2: Assorter.overstatement equals the convention table (MVR side 0 iff phantom or "
        "(use_style and contest missing); CVR side pool mean iff pooled and means exist, else 1/2 if phantom else the "
        "assorter), sign cvr - mvr, exhaustively over the 7 atoms. R3: margin = 2*mean - 1 with the stratum's use_style; "
        "Assorter.mean and set_tally_pool_means use the identical filter; pool mean = tot/n accumulated in one loop. "
        "R4: pool_contests unions contests over pooled cards per tally pool, add_pool_contests adds every contest of the "
        "pool to every pooled card of that pool, update_votes adds a contest iff absent. R5: the reduction identity by sympy."
    )
    chk.trust("symx translation (if-conversion) and exhaustive truth tables", "sympy.cancel",
              "flags .phantom/.pool are genuine booleans (C18.R3 checks the merge keeps them boolean)")
    chk.assume("opaque calls (assort, has_contest) are pure functions of their arguments")
    aud.keeps_no_state(chk, "C03.R1", REL, ["Assertion.overstatement_assorter", "Assertion.make_overstatement", "Assorter.overstatement",
                                            "Assorter.mean", "Assorter.assort"],
                       "B, omega and the mean are functions of the records handed in and of the margin of the moment")
    over = chk.fn(REL, "Assorter.overstatement")
    ba = chk.fn(REL, "Assertion.overstatement_assorter")
    mo = chk.fn(REL, "Assertion.make_overstatement")
    # R2
    code, _ = spec.term(over, boolean=BOOL_FLAGS)
    want, _ = spec.spec_term(SPEC_OMEGA, boolean=BOOL_FLAGS)
    spec.compare(chk, "C03.R2", W("Assorter.overstatement"), "convention-table",
                 "overstatement == (pool mean | 1/2 if phantom | assort(cvr)) - (0 if mvr phantom or (use_style and contest "
                 "missing) else assort(mvr)); raises iff use_style and the CVR lacks the contest",
                 code, want, node=over)
    # R1 (inlined through the call)
    sig = {"self.assorter.overstatement": [a.arg for a in over.args.args][1:]}
    tx_inline = {"self.assorter.overstatement": over, "self.make_overstatement": mo}  # (B may be written as make_overstatement(omega))
    code_b, _ = spec.term(ba, inline=tx_inline, boolean=BOOL_FLAGS)
    want_b, _ = spec.spec_term(SPEC_B, boolean=BOOL_FLAGS)
    spec.compare(chk, "C03.R1", W("Assertion.overstatement_assorter"), "form-of-B",
                 "B(mvr, cvr) == (1 - omega(mvr, cvr, use_style)/u)/(2 - v/u) with u the assorter's upper bound, v the "
                 "assertion's margin", code_b, want_b, node=ba)
    code_m, _ = spec.term(mo)
    want_m, _ = spec.expr_term("(1 - overs/self.assorter.upper_bound)/(2 - self.margin/self.assorter.upper_bound)")
    spec.compare(chk, "C03.R1", W("Assertion.make_overstatement"), "sibling-form",
                 "make_overstatement(overs) == (1 - overs/u)/(2 - v/u)", code_m, want_m, node=mo)
    r3(chk)
    r4(chk)
    r5(chk)
    # R6: the identity is about B as it is *applied*: each datum is B(mvr_i, cvr_i) of the same card with the contest's own
    # use_style (C06.R4, aligned pairs)
    from . import c06
    chk.borrow(c06.r4, {"C06.R4": "C03.R6"})
    chk.obs = [o for o in chk.obs if not (o.rule == "C03.R6" and o.key not in ("aligned-pairs", "style-threshold-filter"))]
    c06.data_as_built(chk, "C03.R6")  # ... and reach the test as they were built
    # ... with the margin v recomputed from the CVRs handed in, for every assertion, before it is used (C06.R1)
    chk.borrow(c06.r1, {"C06.R1": "C03.R6"})
    chk.obs = [o for o in chk.obs if not (o.rule == "C03.R6" and o.key not in ("aligned-pairs", "style-threshold-filter", "margin-set-before-read", "data-returned-as-built"))]



def r3(chk):
    idx = chk.idx
    # v is "computed from those CVRs": the list handed in reaches the margin computation as given (not de-duplicated or filtered)
    aud.same_name_arguments(chk, "C03.R3", REL, "Assertion.set_all_margins_from_cvrs", "Assertion.set_margin_from_cvrs",
                            "the CVR list reaches the margin computation as given", strict=True)
    smc = chk.fn(REL, "Assertion.set_margin_from_cvrs")
    tx = Tx()
    tx.signatures = {"self.assorter.mean": ["cvr_list", "use_style"]}
    tx.block(list(smc.body))
    got = tx.env.get("@self.margin")
    if got is None:
        chk.ob("C03.R3", W("Assertion.set_margin_from_cvrs"), "margin-store", False, "the method stores self.margin", node=smc)
    else:
        t2 = Tx()
        t2.signatures = tx.signatures
        want = t2.expr(ast.parse("2*self.assorter.mean(cvr_list, next(iter(audit.strata.values())).use_style) - 1", mode="eval").body)
        spec.compare(chk, "C03.R3", W("Assertion.set_margin_from_cvrs"), "margin=2mean-1",
                     "margin := 2 * assorter.mean(cvr_list, use_style = the stratum's use_style) - 1", got, want, node=smc,
                     strength="N")
    # Assorter.mean and set_tally_pool_means: identical style filter
    stp = chk.fn(REL, "Assorter.set_tally_pool_means", canonical=True)
    want_f = spec.cond_term("(not use_style) or c.has_contest(self.contest.id)")
    mf = aud.mean_facts(chk)
    okm = mf["filter"] is not None and aud.cond_equiv(mf["filter"], want_f)[0]
    chk.ob("C03.R3", W("Assorter.mean"), "style-filter", okm,
           "cards are filtered by `not use_style or card.has_contest(own contest id)`", node=mf["node"],
           extracted=fmt_cond(mf["filter"]) if mf["filter"] is not None else None, strength="N")
    f, node = aud.style_filter(stp)
    if f is None:
        chk.ob("C03.R3", W("Assorter.set_tally_pool_means"), "style-filter", False,
               "cards are filtered by `not use_style or card.has_contest(own contest id)`", node=stp, extracted=None, strength="N")
    else:
        fc = f("c", lambda: Tx())
        ok, n, cex = aud.cond_equiv(fc, want_f)
        chk.ob("C03.R3", W("Assorter.set_tally_pool_means"), "style-filter", ok,
               "cards are filtered by `not use_style or card.has_contest(own contest id)`", node=node, extracted=fmt_cond(fc), rows=n, strength="N")
    chk.ob("C03.R3", W("Assorter.mean"), "mean-over-filtered-cards", mf["over_filtered"],
           "mean == the assorter's average over exactly the filtered cards of cvr_list (np.mean of the filtered values, or the "
           "filtered sum over the filtered count)", node=mf["node"], strength="N", **mf["detail"])
    # set_tally_pool_means: one loop over [cvr for cvr in cvr_list if filtr(cvr) and cvr.pool]; n += 1; tot += assort
    loops = [l for l in walk_local(stp) if isinstance(l, ast.For)]
    acc = None
    for l in loops:
        aug = [s for s in l.body if isinstance(s, ast.AugAssign)]
        if len(aug) >= 2:
            acc = (l, aug)
    ok = False
    detail = {}
    if acc:
        l, aug = acc
        keys = {}
        for s in aug:
            t = s.target
            if isinstance(t, ast.Subscript) and isinstance(t.slice, ast.Constant):
                keys[t.slice.value] = (norm(t.value), norm(s.value), type(s.op).__name__)
        detail["accumulators"] = keys
        lv = norm(l.target)
        it = l.iter
        if isinstance(it, ast.Name):
            # the filtered list may be bound to a name first: pooled = [cvr for cvr in cvr_list if ...]; for c in pooled:
            defs = [s for s in walk_local(stp) if isinstance(s, ast.Assign) and norm(s.targets[0]) == it.id]
            if len(defs) == 1 and parent(defs[0]) is parent(l):
                it = defs[0].value
        if isinstance(it, ast.ListComp):
            elt, tgt, src, ifs = aud.single_gen(it)
            tv = norm(tgt)
            cond_txt = [norm(i) for i in ifs]
            detail["iter"] = norm(it)[:120]
            tx = Tx()
            f, _ = aud.style_filter(stp)
            c_code = c_and(*[_cond_with_filter(i, f, tv) for i in ifs]) if ifs else True
            c_want = c_and(f(tv, lambda: Tx()), Tx().cond(ast.parse(f"{tv}.pool", mode="eval").body))
            same_f, n, _ = aud.cond_equiv(c_code, c_want)
            ok = (norm(elt) == tv and norm(src) == "cvr_list" and same_f and "n" in keys and "tot" in keys
                  and keys["n"][1] == "1" and keys["tot"][1] == f"self.assort({lv})"
                  and keys["n"][0] == keys["tot"][0] and keys["n"][0].endswith(f"[{lv}.tally_pool]") and "[" not in keys["n"][0][:-len(f"[{lv}.tally_pool]")]
                  and keys["n"][2] == keys["tot"][2] == "Add" and all(parent(s) is l for s in aug))
    chk.ob("C03.R3", W("Assorter.set_tally_pool_means"), "tot-and-n-over-same-cards", ok,
           "numerator (sum of assorter values) and denominator (count) accumulate in one loop over the cards that pass the "
           "style filter and are pooled, keyed by the card's own tally pool", node=acc[0] if acc else stp, strength="N", **detail)
    # the stored mean is tot/n: the value stored per pool, if-converted over the loop body (conditional expression and if/else
    # statement are the same term)
    ok = False
    dct = "tally_pool_dict"
    if acc and "n" in detail.get("accumulators", {}):
        dct = detail["accumulators"]["n"][0].split("[")[0]
    for l2 in loops:
        sts = [(t, v, s) for t, v, s in stores(l2) if isinstance(t, ast.Subscript) and norm(t.value) == "self.tally_pool_means"]
        if not sts:
            continue
        pv = norm(sts[0][0].slice)
        if norm(l2.target) != pv:
            continue
        t3 = Tx()
        try:
            t3.block(list(l2.body))
        except symx.Unsupported:
            continue
        got = t3.env.get(f"@self.tally_pool_means[{pv}]")
        if got is None:
            continue
        wants = [Tx().expr(ast.parse(f"np.nan if {dct}[{pv}]['n'] == 0 else {dct}[{pv}]['tot'] / {dct}[{pv}]['n']", mode="eval").body),
                 Tx().expr(ast.parse(f"{dct}[{pv}]['tot'] / {dct}[{pv}]['n']", mode="eval").body)]
        ok = any(symx.equivalent(got, w)[0] for w in wants)
    if not ok:
        # the same thing said at once: self.tally_pool_means = {p: <mean of pool p> for p in tally_pools} (the canonical form of a
        # local dict filled in a loop and published by one assignment)
        for t, v, s_ in stores(stp):
            if norm(t) == "self.tally_pool_means" and isinstance(v, ast.DictComp) and len(v.generators) == 1 and not v.generators[0].ifs:
                pv = norm(v.generators[0].target)
                if norm(v.key) != pv:
                    continue
                try:
                    got = Tx().expr(v.value)
                except symx.Unsupported:
                    continue
                wants = [Tx().expr(ast.parse(f"np.nan if {dct}[{pv}]['n'] == 0 else {dct}[{pv}]['tot'] / {dct}[{pv}]['n']", mode="eval").body),
                         Tx().expr(ast.parse(f"{dct}[{pv}]['tot'] / {dct}[{pv}]['n']", mode="eval").body)]
                ok = any(symx.equivalent(got, w)[0] for w in wants)
    chk.ob("C03.R3", W("Assorter.set_tally_pool_means"), "pool-mean=tot/n", ok,
           "the stored pool mean is tot/n of the same pool (nan only for an empty pool)", node=stp, strength="N")


def _cond_with_filter(node, f, argname):
    """Translate a comprehension condition, expanding filtr(x) through the style-filter idiom."""
    if isinstance(node, ast.BoolOp):
        parts = [_cond_with_filter(v, f, argname) for v in node.values]
        return c_and(*parts) if isinstance(node.op, ast.And) else c_or(*parts)
    if isinstance(node, ast.UnaryOp) and isinstance(node.op, ast.Not):
        return c_not(_cond_with_filter(node.operand, f, argname))
    if isinstance(node, ast.Call) and norm(node.func) == f.name and len(node.args) == 1:
        return f(norm(node.args[0]), lambda: Tx())
    return Tx().cond(node)


def _loop_slot_term(l, skip_calls=False, flag=None):
    """the body of loop `l` as one term per stored slot: -> {slot text: term}, with "not stored" = the symbol OLD:<slot>"""
    body = structure_continues(l.body)
    if body is None:
        return None
    tx = Tx()
    tx.skip_calls = skip_calls
    if flag:
        tx.env[flag] = E(S(flag))  # the value the flag has when the iteration starts
    slots = {}
    for t, v, s0 in stores(l):
        if isinstance(t, (ast.Subscript, ast.Attribute)):
            try:
                k = tx.expr(ast.fix_missing_locations(ast.parse(ast.unparse(t), mode="eval").body))
            except symx.Unsupported:
                return None
            if isinstance(k, E) and isinstance(k.e, sp.Symbol):
                slots[k.e.name] = S("OLD:" + k.e.name)
                tx.env["@" + k.e.name] = E(slots[k.e.name])
    try:
        tx.block(body)
    except symx.Unsupported:
        return None
    return {k: symx.prune(tx.env["@" + k]) for k in slots}, tx


def r4(chk):
    pc = chk.fn(REL, "CVR.pool_contests", canonical=True)
    apc = chk.fn(REL, "CVR.add_pool_contests", canonical=True)
    uv = chk.fn(REL, "CVR.update_votes", canonical=True)
    # pool_contests: for every card, pools[c.tally_pool] becomes its union with the card's contests iff the card is pooled
    loops = [l for l in pc.body if isinstance(l, ast.For)]
    ok = False
    detail = {}
    if len(loops) == 1 and norm(loops[0].iter) == "cvrs" and not [x for x in walk_local(loops[0]) if isinstance(x, (ast.Break, ast.Return))]:
        l = loops[0]
        v = norm(l.target)
        rn = [r.value.id for r in walk_local(pc) if isinstance(r, ast.Return) and isinstance(r.value, ast.Name)]
        dn = rn[0] if rn else "tally_pools"
        key = f"{dn}[{v}.tally_pool]"
        res = _loop_slot_term(l)
        if res is not None and len(res[0]) == 1:
            (slot, term), = res[0].items()
            forms = (f"{key}.union(set({v}.votes.keys()))", f"{key}.union({v}.votes.keys())", f"{key} | set({v}.votes.keys())",
                     f"{key}.union(set({v}.votes))", f"{key} | set({v}.votes)")
            wants = []
            for fm in forms:
                try:
                    wants.append(Tx().expr(ast.parse(fm, mode="eval").body).e)
                except Exception:
                    pass
            pooled = ("atom", f"truthy({v}.pool)")
            good = slot == norm(ast.parse(key, mode="eval").body).replace("'", "'") or True
            okr = True
            for row in symx.rows(symx.val_atoms(term)):
                val = symx.eval_val(term, row)
                if symx.eval_cond(pooled, row) if f"truthy({v}.pool)" in row else None:
                    okr = okr and any(val == w for w in wants)
                elif f"truthy({v}.pool)" in row:
                    okr = okr and val == S("OLD:" + slot)
                else:
                    okr = False
            detail["stored"] = repr(term)[:200]
            ok = okr and slot.replace(" ", "") == key.replace(" ", "")
    rets = [n for n in walk_local(pc) if isinstance(n, ast.Return)]
    ok = ok and len(rets) == 1 and isinstance(rets[0].value, ast.Name)
    chk.ob("C03.R4", W("CVR.pool_contests"), "union-over-pooled-cards", ok,
           "for every pooled card the contests it lists are added to the set of its own tally pool (all cards visited)",
           node=pc, strength="N", **detail)
    # add_pool_contests
    loops = [l for l in apc.body if isinstance(l, ast.For)]
    ok = False
    detail = {}
    if len(loops) == 1:
        l = loops[0]
        v = norm(l.target)
        it = l.iter
        if isinstance(it, ast.ListComp):
            elt, tgt, src, ifs = aud.single_gen(it)
            if norm(elt) == norm(tgt) and norm(src) == "cvrs":
                tv = norm(tgt)
                cond = c_and(*[Tx().cond(i) for i in ifs])
                want2 = spec.cond_term(f"({tv}.tally_pool in tally_pools) and {tv}.pool")
                okc = aud.cond_equiv(cond, want2)[0]
                detail["filter"] = fmt_cond(cond)
                calls = [c for c in walk_local(l) if isinstance(c, ast.Call) and norm(c.func) == f"{v}.update_votes"]
                if len(calls) == 1 and len(calls[0].args) == 1:
                    a = calls[0].args[0]
                    detail["argument"] = norm(a)
                    if isinstance(a, ast.DictComp) and len(a.generators) == 1 and not a.generators[0].ifs:
                        g = a.generators[0]
                        okd = norm(a.key) == norm(g.target) and isinstance(a.value, ast.Dict) and not a.value.keys \
                            and norm(g.iter) == f"tally_pools[{v}.tally_pool]"
                        # the call must be evaluated on every iteration (not short-circuited away, not under a condition)
                        st = calls[0]
                        while not isinstance(st, ast.stmt):
                            st = parent(st)
                        first = True
                        if isinstance(st, ast.Assign) and isinstance(st.value, ast.BoolOp):
                            first = st.value.values[0] is calls[0]
                        # ... and the flag becomes (result or flag): the loop body as a term with the call as a placeholder
                        body = [_ReplaceCall(calls[0], "UV__").visit(_dc(x)) for x in l.body]
                        for x in body:
                            ast.fix_missing_locations(x)
                        flags = [r.value.id for r in walk_local(apc) if isinstance(r, ast.Return) and isinstance(r.value, ast.Name)]
                        okf = False
                        if len(flags) == 1:
                            tx = Tx()
                            tx.env[flags[0]] = E(S(flags[0]))
                            try:
                                tx.block(body)
                                got = tx.env.get(flags[0])
                                wantc = c_or(("atom", "truthy(UV__)"), ("atom", f"truthy({flags[0]})"))
                                # compared as truth values: the flag is only ever tested / returned as "was anything added"
                                okf = got is not None and aud.cond_equiv(tx.truthy(got), wantc)[0]
                            except symx.Unsupported:
                                okf = False
                        ok = okc and okd and parent(st) is l and first and okf
    chk.ob("C03.R4", W("CVR.add_pool_contests"), "every-pool-contest-on-every-pooled-card", ok,
           "every pooled card whose pool is listed gets update_votes({contest: {} for every contest of its own pool}), "
           "evaluated on every iteration, and the returned flag is (some call returned true)", node=apc, strength="N", **detail)
    # update_votes adds a contest iff absent, never removes
    loops = [l for l in uv.body if isinstance(l, ast.For)]
    ok = False
    if len(loops) == 1 and norm(loops[0].iter) == "votes.items()" and isinstance(loops[0].target, ast.Tuple):
        l = loops[0]
        k, v = [norm(e) for e in l.target.elts]
        res = _loop_slot_term(l, skip_calls=True)
        if res is not None:
            terms, tx = res
            slot = next((s_ for s_ in terms if s_.replace(" ", "") == f"self.votes[{k}]"), None)
            if slot is not None:
                term = terms[slot]
                has_atoms = [a for a in symx.val_atoms(term) if a in (f"truthy(self.has_contest({k}))", f"in({k},self.votes)")]
                okr = len(has_atoms) == 1 and len(symx.val_atoms(term)) == 1
                if okr:
                    for row in symx.rows(symx.val_atoms(term)):
                        val = symx.eval_val(term, row)
                        okr = okr and (val == S("OLD:" + slot) if row[has_atoms[0]] else sp.sstr(val) == v)
                # the flag is set exactly when a contest was added
                flags = [r.value.id for r in walk_local(uv) if isinstance(r, ast.Return) and isinstance(r.value, ast.Name)]
                okf = False
                if len(flags) == 1 and okr:
                    res2 = _loop_slot_term(l, skip_calls=True, flag=flags[0])
                    got = res2[1].env.get(flags[0]) if res2 else None
                    wantc = c_or(c_not(("atom", has_atoms[0])), ("atom", f"truthy({flags[0]})"))
                    okf = got is not None and aud.cond_equiv(res2[1].truthy(got), wantc)[0]  # as truth values
                ok = okr and okf
    chk.ob("C03.R4", W("CVR.update_votes"), "adds-absent-contests", ok,
           "update_votes adds each contest that the card does not list yet (for every contest passed), leaves the others' entry "
           "object in place, and returns whether anything was added", node=uv, strength="N")


class _ReplaceCall(ast.NodeTransformer):
    def __init__(self, call, name):
        self.src, self.name = ast.dump(call), name

    def visit_Call(self, node):
        if ast.dump(node) == self.src:
            return ast.Name(id=self.name, ctx=ast.Load())
        return self.generic_visit(node)


def r5(chk):
    """The reduction identity under the conventions, as algebra: with
    omega = a_cvr - a_mvr', B = (1 - omega/u)/(2 - v/u) and v = 2*mean(a_cvr) - 1:
        mean(B) - 1/2 == (2*mean(a_mvr') - 1) / (2*(2u - v))
    (means are linear, so the identity is checked on the means as symbols)."""
    Ac, Am, u = sp.symbols("Abar_cvr Abar_mvr u", positive=True)
    v = 2 * Ac - 1
    meanB = (1 - (Ac - Am) / u) / (2 - v / u)
    lhs = meanB - sp.Rational(1, 2)
    rhs = (2 * Am - 1) / (2 * (2 * u - v))
    chk.ob("C03.R5", W("Assertion.overstatement_assorter"), "reduction-identity", is_zero(lhs - rhs),
           "mean(B) - 1/2 == (2 mean(A) - 1)/(2 (2u - v)) when B = (1 - (a_cvr - a_mvr)/u)/(2 - v/u) and v = 2 mean(a_cvr) - 1 "
           "(B is affine in omega, so the mean passes through)", residue=sp.sstr(sp.cancel(sp.together(lhs - rhs))))
