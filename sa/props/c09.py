"""C09 -- the audit completes only when every assertion meets its contest's risk limit."""
from __future__ import annotations

import ast

from ..core import AnalysisError, norm
from .. import aud
from ..astutil import (walk_local, stores, attr_stores, stmt_list_of, enclosing, ancestors, find_calls, parent,
                       dominates_structurally, is_const)
from ..cfg import find_fold, init_before, whole_collection, paths

META = dict(
    text="The bookkeeping that turns per-assertion p-values into the completion decision has a fixed shape; each link "
         "is decided on the AST for every number of contests and assertions: the recorded (p_value, p_history) is "
         "exactly what the assertion's own test returns on its own data; contest and audit risks are full max-folds "
         "from 0; confirmation is sticky and uses the contest's own limit with <=; completion is `all contests: max <= "
         "own limit` with no early exit; reset stores 1, a fresh [], False everywhere and is the only writer of False.",
    note="By form (P): the numerical content of the p-values is C01/C12's business. Assumes the contests dict is keyed "
         "consistently (loop key `c` and `con` denote the same contest).",
    technique="fold/ordering/alias rules over the AST (loop-skeleton recognisers, def-use, who-may-write)",
)
META["text"] += " (R7, N) Contest's constructor stores risk_limit, assertions, winner, n_winners, candidates from its parameters."
META["text"] += ' (R8 = C06.R3) the test is run with the bound installed from the same mvrs_to_data call as its data.'
META["text"] += ' R8 also borrows C06.R4: the data of an assertion are the pairs its filter keeps, no others.'
META["text"] += " R4 also: the running maximum is NumPy's (np.max / np.maximum), under which a p-value that is not a number keeps the contest incomplete."
META["text"] += ' R1 also: the data functions keep no state between calls. R8 also borrows C07.R3 (the threshold is the sample number of the n_c-th card itself).'
META["text"] += ' R1 also: the assertion factories do not write into the options dict they are handed. R7 also: configured fields are plain attributes (no property between store and read) and Contest.from_dict copies entries verbatim.'
META["text"] += ' (R9, N, frame condition on arguments) evaluating the assertions writes p-values, histories and flags and nothing else: every function in scope changes the objects it is handed only in the ways confirmed for it (aud.ARG_EFFECTS); references are followed through aliases, elements, attributes, loop variables, .get/.items/.values and np.asarray, resolved by the bindings that reach the use.'

REL = "shangrla/core/Audit.py"


def W(q):
    return f"{REL}:{q}"


def items_loop(loop):
    """for k, v in D.items(): -> (k, v, D) names, else None"""
    if not (isinstance(loop, ast.For) and isinstance(loop.target, ast.Tuple) and len(loop.target.elts) == 2):
        return None
    k, v = loop.target.elts
    if not (isinstance(k, ast.Name) and isinstance(v, ast.Name)):
        return None
    # the .items() call may be wrapped (list(...)[:-1], sorted(...), ...): the loop is still located;
    # whether it ranges over the *whole* collection is a separate obligation (cfg.whole_collection)
    for it in ast.walk(loop.iter):
        if isinstance(it, ast.Call) and isinstance(it.func, ast.Attribute) and it.func.attr == "items" and not it.args:
            return k.id, v.id, norm(it.func.value)
    return None


def aliases(loop):
    k, v, d = items_loop(loop)
    return {v, f"{d}[{k}]"}


def top_loops(fn):
    return [s for s in fn.body if isinstance(s, ast.For)]


def inner_loops(loop):
    return [s for s in walk_local(loop) if isinstance(s, ast.For) and s is not loop]


def run(chk):
    from .. import aud as _aud8
    _aud8.argument_effects(chk, 'C09.R9', 'shangrla/core/Audit.py', 'evaluating the assertions writes p-values, histories and flags and nothing else', only=lambda q: q.startswith('Assertion.'))
    _aud8.argument_effects(chk, 'C09.R9', 'shangrla/core/Audit.py', 'evaluating the assertions writes p-values, histories and flags and nothing else', only=lambda q: q.startswith('Contest.'))
    _aud8.argument_effects(chk, 'C09.R9', 'shangrla/core/Audit.py', 'evaluating the assertions writes p-values, histories and flags and nothing else', only=lambda q: q.startswith('Audit.'))
    idx = chk.idx
    chk.explain(
        "R1 per-assertion result stored verbatim (call asn.test.test(d) with d from the same asn.mvrs_to_data(mvr_sample,"
        "cvr_sample); targets asn.p_value, asn.p_history; no other store). R2 contest/audit risk are full max-folds "
        "initialised to 0 over all assertions / contests, stored to the loop's own contest, returned. R3 proved = "
        "(p <= own limit) or proved. R4 summarize_status: done starts True, becomes False exactly when a contest's max "
        "exceeds its own limit, no early exit, returned. R5 reset stores (1, fresh [], False) on every assertion and is "
        "the only non-constructor writer of False to .proved. R6 parameter sanity asserts for every contest."
    )
    chk.trust("fold skeleton recogniser (sa/cfg.py): an unconditional acc = max(acc, v) in a loop over the whole "
              "collection without break/continue/return computes the maximum over all elements")
    chk.assume("contests dict: the loop key and the loop value denote the same contest")
    r_factories(chk)
    r_set_p_values(chk)
    r_summarize(chk)
    r_reset(chk)
    r_params(chk)
    # R7: the limit each assertion is compared with is the contest's configured one
    aud.ctor_fields(chk, "C09.R7", REL, "Contest", ["risk_limit", "assertions", "n_winners", "winner", "candidates"], "completion compares p-values with con.risk_limit")
    # R8: "what the configured test returns": the test is run with the bound that belongs to the very data it is given (C06.R3)
    from . import c06
    chk.borrow(c06.r3, {"C06.R3": "C09.R8"})
    chk.borrow(c06.r4, {"C06.R4": "C09.R8"})  # ... and on exactly the cards that belong to the assertion's data
    # ... which the threshold decides: it is the sample number of the contest's n_c-th card itself, not a converted copy (C07.R3)
    from . import c07 as _c07
    _f = _c07.sampling_facts(chk)
    def _r23(c):
        _c07.r2(c, _f)
        _c07.r3(c, _f)
    chk.borrow(_r23, {"C07.R3": "C09.R8"})


# ---------------------------------------------------------------------------


def r_factories(chk):
    # "what its configured test returns": each contest's own options reach its tests; a factory that writes into the options dict
    # it was handed (the shared default `{}`) configures the next contest as well
    aud.keeps_no_state(chk, "C09.R1", REL, ["Assertion.make_plurality_assertions", "Assertion.make_supermajority_assertion",
                                            "Assertion.make_assertions_from_json", "Assertion.make_all_assertions"],
                       "an assertion factory reads its options")
    aud.from_dict_verbatim(chk, "C09.R7", REL, "Contest", "completion compares p-values with the risk limit configured for the contest")


def r_set_p_values(chk):
    aud.keeps_no_state(chk, "C09.R1", REL, ["Assertion.mvrs_to_data", "Assertion.overstatement_assorter", "Assorter.overstatement"],
                       "the data of an assertion are computed from the samples handed in")
    fn = chk.fn(REL, "Assertion.set_p_values", canonical=True)
    where = W("Assertion.set_p_values")
    params = [a.arg for a in fn.args.args]
    outer = [l for l in top_loops(fn) if items_loop(l)]
    if len(outer) != 1:
        raise AnalysisError("set_p_values: expected one loop over contests.items()")
    outer = outer[0]
    ck, cv, cd = items_loop(outer)
    con_alias = aliases(outer)
    inner = [l for l in inner_loops(outer) if items_loop(l)]
    if len(inner) != 1:
        raise AnalysisError("set_p_values: expected one inner loop over assertions")
    inner = inner[0]
    ak, av, ad = items_loop(inner)
    chk.ob("C09.R2", where, "inner-loop-over-own-assertions", ad in {a + ".assertions" for a in con_alias}
           and whole_collection(inner.iter), "the inner loop ranges over all assertions of the outer loop's contest",
           node=inner, iter=norm(inner.iter))
    chk.ob("C09.R2", where, "outer-loop-over-all-contests", cd in params and whole_collection(outer.iter),
           "the outer loop ranges over all contests passed in", node=outer, iter=norm(outer.iter))
    # R1: the test call
    tcalls = [c for c in walk_local(inner) if isinstance(c, ast.Call) and norm(c.func) == f"{av}.test.test"]
    chk.need("C09.R1", len(tcalls), 1, "call asn.test.test(d)")
    call = tcalls[0]
    st = enclosing(call, (ast.Assign,)) if not isinstance(parent(call), ast.Assign) else parent(call)
    ok_t = False
    tg = ""
    if isinstance(st, ast.Assign) and st.value is call and len(st.targets) == 1 and isinstance(st.targets[0], ast.Tuple):
        tg = [norm(t) for t in st.targets[0].elts]
        ok_t = tg == [f"{av}.p_value", f"{av}.p_history"]
    chk.ob("C09.R1", where, "result-stored-verbatim", ok_t and parent(st) is inner,
           "(p_value, p_history) of the loop's assertion are assigned directly and unconditionally from its test's result",
           node=st or call, targets=tg)
    # the data handed to the test
    ok_d = False
    dn = norm(call.args[0]) if call.args else ""
    dsrc = ""
    for s in inner.body:
        if isinstance(s, ast.Assign) and isinstance(s.targets[0], ast.Tuple) and isinstance(s.value, ast.Call):
            names = [norm(t) for t in s.targets[0].elts]
            if names and names[0] == dn and norm(s.value.func) == f"{av}.mvrs_to_data":
                args = [norm(a) for a in s.value.args] + [f"{k.arg}={norm(k.value)}" for k in s.value.keywords]
                dsrc = norm(s.value)
                want = [p for p in params if p in ("mvr_sample", "cvr_sample")]
                ok_d = args[:2] == ["mvr_sample", "cvr_sample"] and len(args) == 2 and s.lineno < st.lineno
                # no rebinding of d between
                for s2 in inner.body:
                    if s.lineno < s2.lineno < st.lineno:
                        for t, v, _ in stores(s2):
                            if norm(t) == dn:
                                ok_d = False
    chk.ob("C09.R1", where, "data-of-same-assertion", ok_d and len(call.args) == 1 and not call.keywords,
           "the data handed to the test are the first component of the same assertion's mvrs_to_data(mvr_sample, "
           "cvr_sample), not rebound in between", node=call, data=dn, source=dsrc)
    others = [s for t, v, s in stores(inner) if isinstance(t, ast.Attribute) and t.attr in ("p_value", "p_history") and s is not st]
    chk.ob("C09.R1", where, "no-other-store", not others,
           "no other store to p_value / p_history inside the loop", node=inner, others=[norm(o)[:80] for o in others])
    # R2 folds
    f1 = None
    for acc_st in [s for s in inner.body if isinstance(s, ast.Assign)]:
        f = find_fold(inner, norm(acc_st.targets[0]))
        if f and f.update is acc_st:
            f1 = f
    if f1 is None:
        chk.ob("C09.R2", where, "contest-fold", False, "contest risk is a max-fold over its assertions", node=inner)
    else:
        init = init_before(inner, f1.acc, fn)
        ok = f1.op == "max" and f1.full and norm(f1.operand) == f"{av}.p_value" and init is not None \
            and is_const(init.value, 0) and parent(init) is outer and f1.update.lineno > st.lineno
        chk.ob("C09.R2", where, "contest-fold", ok,
               "contest risk = max over all its assertions of the freshly stored p_value, starting from 0 (reset per contest)",
               node=f1.update, op=f1.op, operand=norm(f1.operand), init=norm(init) if init else None,
               full=f1.full, reasons=f1.reasons)
        # stored to own contest after the inner loop
        st_max = [(t, v, s) for t, v, s in attr_stores(outer, "max_p") if parent(s) is outer]
        ok = len(st_max) == 1 and norm(st_max[0][0].value) in con_alias and norm(st_max[0][1]) == f1.acc \
            and st_max[0][2].lineno > inner.lineno
        chk.ob("C09.R2", where, "max_p-stored-to-own-contest", ok,
               "the fold result is stored as max_p of the loop's own contest after the inner loop",
               node=st_max[0][2] if st_max else outer, stores=[norm(s)[:80] for _, _, s in st_max])
    f2 = None
    for acc_st in [s for s in outer.body if isinstance(s, ast.Assign)]:
        f = find_fold(outer, norm(acc_st.targets[0]))
        if f and f.update is acc_st:
            f2 = f
    rets = [n for n in walk_local(fn) if isinstance(n, ast.Return)]
    if f2 is None:
        chk.ob("C09.R2", where, "audit-fold", False, "audit risk is a max-fold over contests", node=outer)
    else:
        init = init_before(outer, f2.acc, fn)
        opnd = norm(f2.operand)
        ok_operand = opnd in {a + ".max_p" for a in con_alias} or (f1 is not None and opnd == f1.acc)
        ok = f2.op == "max" and f2.full and ok_operand and init is not None and is_const(init.value, 0) \
            and parent(f2.update) is outer and f2.update.lineno > inner.lineno
        chk.ob("C09.R2", where, "audit-fold", ok,
               "audit risk = max over all contests of the contest risk, starting from 0", node=f2.update,
               op=f2.op, operand=opnd, init=norm(init) if init else None, full=f2.full, reasons=f2.reasons)
        ok = len(rets) == 1 and norm(rets[0].value) == f2.acc and parent(rets[0]) is fn
        chk.ob("C09.R2", where, "returns-audit-fold", ok, "the function returns the audit-level maximum", node=rets[0] if rets else fn)
    # R3 sticky confirmation with own limit
    pst = [(t, v, s) for t, v, s in attr_stores(inner, "proved") if norm(t.value) == av]
    ok = False
    detail = {}
    if len(pst) == 1:
        t, v, s = pst[0]
        detail["statement"] = norm(s)[:120]
        if isinstance(v, ast.BoolOp) and isinstance(v.op, ast.Or) and len(v.values) == 2:
            texts = [norm(x) for x in v.values]
            cmp_ = [x for x in v.values if isinstance(x, ast.Compare)]
            if f"{av}.proved" in texts and len(cmp_) == 1:
                c = cmp_[0]
                if len(c.ops) == 1:
                    l, r, op = norm(c.left), norm(c.comparators[0]), type(c.ops[0])
                    limits = {a + ".risk_limit" for a in con_alias}
                    if (l == f"{av}.p_value" and r in limits and op is ast.LtE) or \
                            (r == f"{av}.p_value" and l in limits and op is ast.GtE):
                        ok = s.lineno > st.lineno and parent(s) is inner
    chk.ob("C09.R3", where, "sticky-own-limit", ok,
           "proved := (p_value <= the loop contest's own risk_limit) or proved, after the p_value store, unconditionally",
           node=pst[0][2] if pst else inner, **detail)


def r_summarize(chk):
    fn = chk.fn(REL, "Audit.summarize_status")
    where = W("Audit.summarize_status")
    outer = [l for l in top_loops(fn) if items_loop(l)]
    if len(outer) != 1:
        raise AnalysisError("summarize_status: expected one loop over contests.items()")
    outer = outer[0]
    con_alias = aliases(outer)
    ck, cv, cd = items_loop(outer)
    # done flag
    rets = [n for n in walk_local(fn) if isinstance(n, ast.Return)]
    ok_ret = len(rets) == 1 and parent(rets[0]) is fn and isinstance(rets[0].value, ast.Name)
    flag = rets[0].value.id if ok_ret else "done"
    chk.ob("C09.R4", where, "single-return-of-flag", ok_ret, "the function has one return, at the end, of the completion flag",
           node=rets[0] if rets else fn)
    inits = [s for s in fn.body if isinstance(s, ast.Assign) and norm(s.targets[0]) == flag]
    ok_init = len(inits) == 1 and is_const(inits[0].value, True) and inits[0].lineno < outer.lineno
    chk.ob("C09.R4", where, "flag-starts-true", ok_init, "the completion flag is initialised to True before the loop",
           node=inits[0] if inits else fn)
    # no break/continue/return inside the loop at its level
    esc = [n for n in walk_local(outer) if isinstance(n, (ast.Break, ast.Continue, ast.Return))
           and not any(isinstance(a, (ast.For, ast.While)) and a is not outer for a in ancestors(n) if a is not fn
                       and any(a is x for x in walk_local(outer)))]
    chk.ob("C09.R4", where, "no-early-exit", not esc and whole_collection(outer.iter) and cd in [a.arg for a in fn.args.args],
           "the loop visits every contest: no break/continue/return, whole collection", node=outer,
           escapes=[f"{type(n).__name__}@{n.lineno}" for n in esc])
    # the per-contest fold
    inner = [l for l in outer.body if isinstance(l, ast.For) and items_loop(l)]
    fold = None
    for l in inner:
        for s in l.body:
            if isinstance(s, ast.Assign):
                f = find_fold(l, norm(s.targets[0]))
                if f and f.update is s:
                    fold = (l, f)
    if fold is None:
        chk.ob("C09.R4", where, "contest-fold", False, "the contest's measured risk is a max-fold over its assertions", node=outer)
        return
    l, f = fold
    ak, av, ad = items_loop(l)
    init = init_before(l, f.acc, fn)
    ok = f.op == "max" and f.full and norm(f.operand) == f"{av}.p_value" and init is not None and is_const(init.value, 0) \
        and parent(init) is outer and ad in {a + ".assertions" for a in con_alias}
    chk.ob("C09.R4", where, "contest-fold", ok,
           "measured risk = max over all of the contest's assertions of p_value, starting from 0 (reset per contest)",
           node=f.update, op=f.op, operand=norm(f.operand), init=norm(init) if init else None, full=f.full,
           reasons=f.reasons, iter=norm(l.iter))
    # a p-value that is not a number (0/0 at a boundary the tests do not exclude: C11's declined clause) must keep the contest
    # incomplete: the running maximum has to propagate it.  np.max([m, p]) / np.maximum(m, p) do; the builtin max(m, p) and
    # `if p > m: m = p` silently keep m, after which `m <= limit` holds.
    upd = f.update.value if isinstance(f.update, ast.Assign) else None
    fname = norm(upd.func) if isinstance(upd, ast.Call) else None
    chk.ob("C09.R4", where, "contest-fold-keeps-nan", fname in ("np.max", "np.maximum", "np.amax", "numpy.max", "numpy.maximum"),
           "the running maximum is NumPy's (np.max / np.maximum), under which a p-value that is not a number makes the measured risk "
           "not a number and the comparison with the risk limit false -- the contest stays incomplete", node=f.update, strength="N",
           update=norm(f.update)[:80])
    # the decision: the condition that controls the store of False into the flag, as a table (however the comparison is
    # spelled, named or negated, and whichever branch carries the store)
    from ..canon import expand_locals
    from ..symx import Tx, c_and, c_not, E as _E, S as _S
    from .. import symx as _symx, spec as _spec
    ok = False
    detail = {}
    falses = [(t, v, s) for t, v, s in stores(outer) if norm(t) == flag]
    if len(falses) == 1 and is_const(falses[0][1], False):
        t, v, s0 = falses[0]
        conds = []
        n_, p_ = s0, parent(s0)
        while p_ is not None and p_ is not outer:
            if isinstance(p_, ast.If):
                tx = Tx()
                ck_ = items_loop(outer)
                alias = _S(f"{ck_[2]}[{ck_[0]}]")
                tx.post = lambda e, alias=alias, cv_=ck_[1]: e.xreplace({alias: _S(cv_)}) if alias in e.free_symbols else e
                for a_ in sorted(con_alias):
                    pass
                try:
                    c_ = tx.cond(expand_locals(p_.test, fn, stop=(f.acc,)))
                    # `contests[c].risk_limit` and `con.risk_limit` are the same attribute of the same object
                    c_ = _symx.map_cond(c_, lambda a: a.replace(f"{ck_[2]}[{ck_[0]}].", f"{ck_[1]}.")) if hasattr(_symx, "map_cond") else c_
                except _symx.Unsupported:
                    c_ = ("atom", "opaque:" + norm(p_.test)[:40])
                conds.append(c_ if n_ in p_.body else c_not(c_))
            elif isinstance(p_, (ast.For, ast.While)):
                conds.append(("atom", "inside-another-loop"))
            n_, p_ = p_, parent(p_)
        got = c_and(*conds) if conds else True
        detail["flag_cleared_iff"] = _symx.fmt_cond(got) if got not in (True, False) else str(got)
        wants = [_spec.cond_term(f"not ({f.acc} <= {a_}.risk_limit)") for a_ in sorted(con_alias)]
        ok = got not in (True, False) and any(aud.cond_equiv(got, w_)[0] for w_ in wants) and s0.lineno > l.lineno
    detail["flag_stores_in_loop"] = [norm(s)[:60] + f"@{s.lineno}" for _, _, s in falses]
    chk.ob("C09.R4", where, "incomplete-iff-max-exceeds-own-limit", ok,
           "the flag is set to False exactly on the branch where the contest's measured risk exceeds its own risk limit "
           "(comparison <=), and nowhere else", node=falses[0][2] if falses else outer, **detail)


def r_reset(chk):
    idx = chk.idx
    fn = chk.fn(REL, "Assertion.reset_p_values")
    where = W("Assertion.reset_p_values")
    outer = [l for l in top_loops(fn) if items_loop(l)]
    if len(outer) != 1:
        raise AnalysisError("reset_p_values: expected one loop over contests.items()")
    outer = outer[0]
    con_alias = aliases(outer)
    # the loop(s) over the contest's assertions: `for a, asn in con.assertions.items()` or `for asn in con.assertions.values()`
    inner_all = []
    for l in outer.body:
        if not isinstance(l, ast.For):
            continue
        il = items_loop(l)
        if il and il[2] in {a + ".assertions" for a in con_alias}:
            inner_all.append((l, il[1]))
        elif isinstance(l.target, ast.Name):
            for it in ast.walk(l.iter):
                if isinstance(it, ast.Call) and isinstance(it.func, ast.Attribute) and it.func.attr == "values" and not it.args \
                        and norm(it.func.value) in {a + ".assertions" for a in con_alias}:
                    inner_all.append((l, l.target.id))
    vals = {}
    inner = inner_all[0][0] if inner_all else outer
    for l, av in inner_all:
        for t, v, s in stores(l):
            # a, b = 1, []  stores through a tuple target as well
            if isinstance(t, ast.Attribute) and norm(t.value) == av and parent(s) is l and whole_collection(l.iter):
                vals[t.attr] = v
    ok = "p_value" in vals and is_const(vals["p_value"], 1) and "p_history" in vals and isinstance(vals["p_history"], ast.List) \
        and not vals["p_history"].elts and "proved" in vals and is_const(vals["proved"], False)
    esc = [n for n in walk_local(outer) if isinstance(n, (ast.Break, ast.Continue, ast.Return))]
    full = bool(inner_all) and whole_collection(outer.iter) and all(whole_collection(l.iter) for l, av in inner_all) and not esc
    chk.ob("C09.R5", where, "reset-values", ok,
           "every assertion gets p_value 1, a fresh empty history and proved False (unconditional stores)", node=inner,
           stored={k: norm(v) for k, v in vals.items()})
    chk.ob("C09.R5", where, "reset-everywhere", full,
           "the reset visits every assertion of every contest (two full loops, no skip)", node=outer)
    st_max = [(t, v, s) for t, v, s in attr_stores(outer, "max_p") if parent(s) is outer]
    ok = len(st_max) == 1 and norm(st_max[0][0].value) in con_alias and is_const(st_max[0][1], 1)
    chk.ob("C09.R5", where, "max_p-reset", ok, "each contest's max_p is reset to 1", node=outer)
    # who may write False to .proved: only reset_p_values and constructors
    writers = []
    for rel, q, f in idx.all_functions():
        for t, v, s in attr_stores(f, "proved"):
            if is_const(v, False):
                writers.append(f"{rel}:{q}")
    allowed = {W("Assertion.reset_p_values")}
    extra = sorted(set(w for w in writers if w not in allowed and not w.endswith(".__init__")))
    chk.ob("C09.R5", where, "only-writer-of-False", not extra,
           "outside constructors, reset_p_values is the only function that stores False into .proved", node=fn,
           other_writers=extra)


def r_params(chk):
    fn = chk.fn(REL, "Audit.check_audit_parameters")
    where = W("Audit.check_audit_parameters")
    outer = [l for l in top_loops(fn) if items_loop(l)]
    if len(outer) != 1:
        raise AnalysisError("check_audit_parameters: expected one loop over contests.items()")
    outer = outer[0]
    ck, cv, cd = items_loop(outer)
    asserts = [norm(a.test) for a in outer.body if isinstance(a, ast.Assert)]
    nested = [norm(a.test) for a in walk_local(outer) if isinstance(a, ast.Assert)]
    need = {
        "risk_limit>0": [f"{cv}.risk_limit>0", f"0<{cv}.risk_limit"],
        "risk_limit<=1/2": [f"{cv}.risk_limit<=1/2", f"{cv}.risk_limit<=0.5", f"1/2>={cv}.risk_limit"],
        "n_winners==len(winner)": [f"len({cv}.winner)=={cv}.n_winners", f"{cv}.n_winners==len({cv}.winner)"],
    }
    esc = [n for n in walk_local(outer) if isinstance(n, (ast.Break, ast.Continue, ast.Return))]
    for key, forms in need.items():
        chk.ob("C09.R6", where, key, any(f in asserts for f in forms) and not esc and whole_collection(outer.iter),
               f"every contest is asserted to satisfy {key} (unconditional assert in a full loop)", node=outer, strength="N")
    ok = any(t == f"win{cv}.candidates" or t.endswith(f"in{cv}.candidates") for t in nested)
    chk.ob("C09.R6", where, "winners-among-candidates", ok, "every reported winner is asserted to be a candidate",
           node=outer, strength="N")
