"""C08 -- phantoms account for every card and are scored worst-case."""
from __future__ import annotations

import ast

import sympy as sp

from ..core import AnalysisError, norm
from .. import symx, spec, aud, sign
from ..aud import REL, W, BOOL_FLAGS
from ..symx import Tx, E, I, T, S, is_zero, leaves, val_atoms, rows, eval_val, fmt_cond
from ..astutil import walk_local, stores, parent, find_calls, ancestors
from ..cfg import whole_collection, paths

DOM = "shangrla/formats/Dominion.py"
HART = "shangrla/formats/Hart.py"

META = dict(
    text="Counts by form (P): in the style branch `needed = cards - cvrs`, records are created while fewer than `needed` exist "
         "and the contest is listed on exactly the first `needed` of them, so real + phantom listings = the card bound and the "
         "number created is the largest shortfall; in the non-style branch `max_cards - len(cvr_list)` records are created. "
         "Originals first and untouched (effects), every phantom constructed with phantom=True, a fresh votes dict and an "
         "identifier from a strictly increasing counter. Scoring (P): a phantom MVR contributes 0 on the MVR side and B is "
         "increasing in that side; an unpooled phantom CVR contributes 1/2. Plumbing (N): every sampled phantom card yields a "
         "phantom MVR with the same id, and the manifest reader tests the very constant the manifest writer stores.",
    note="Assumes card bounds >= CVR counts (Contest.check_cards is the caller's job). Index arithmetic of the manifest lookup "
         "is C17's business.",
    technique="loop-form accounting, effects (who-may-write), decision table + derivative sign, writer/reader constant agreement",
)
META["text"] += ' (R6, N) CVR and Stratum constructors store id, votes, phantom, tally_pool, pool / max_cards, use_style from the parameters of the same name.'
META["text"] += " (R7 = C17.R3) the manifest's phantom batch holds max_cards - manifest_cards cards."
META["text"] += ' (R8 = C06.R4) a pair is kept on the strength of the CVR listing the contest, so a phantom MVR is scored. (R9, N) check_cards validates and raises; it never stores into a contest.'
META["text"] += ' R1 also: the per-contest count of real records is stored unconditionally at every call.'
META["text"] += ' R4 also: the scoring functions keep no state between calls.'
META["text"] += ' R6 also: Contest.cards and Contest.id are stored as given (an unspecified card bound stays None).'
META["text"] += " (R10, N, frame condition on arguments) phantoms are appended to a new list; the caller's list and records are not edited beyond the counts recorded on the contests: every function in scope changes the objects it is handed only in the ways confirmed for it (aud.ARG_EFFECTS); references are followed through aliases, elements, attributes, loop variables, .get/.items/.values and np.asarray, resolved by the bindings that reach the use."


def run(chk):
    from .. import aud as _aud8
    _aud8.argument_effects(chk, 'C08.R10', 'shangrla/core/Audit.py', "phantoms are appended to a new list; the caller's list and records are not edited beyond the counts recorded on the contests", only=lambda q: q.startswith('CVR.'))
    chk.explain(
        "R1 per-contest / per-stratum accounting by loop form; R2 originals first and untouched; R3 fresh, flagged, unique "
        "phantoms; R4 worst-case scoring from the overstatement table and dB/d(mvr side) > 0; R5 phantom MVRs for sampled "
        "phantom cards and writer/reader agreement of the 'phantom' batch label."
    )
    chk.trust("symx translation", "sympy sign reasoning", "len() grows by exactly one per list.append")
    chk.assume("card bounds are >= the number of CVRs listing the contest")
    r123(chk)
    r4(chk)
    r5(chk)
    r9_check_cards(chk)
    # R6: the flags and identifiers the rules above read are the ones the constructors were given
    aud.ctor_fields(chk, "C08.R6", REL, "CVR", ["id", "votes", "phantom", "tally_pool", "pool"], "phantom records are recognised by obj.phantom")
    aud.ctor_fields(chk, "C08.R6", REL, "Stratum", ["max_cards", "use_style"], "the accounting scheme and the card bound come from the stratum")
    aud.ctor_fields(chk, "C08.R6", REL, "Contest", ["cards", "id"], "an unspecified card bound stays None, which is what make_phantoms tests")
    # R7: the manifest side of the same accounting: the phantom batch holds max_cards - manifest_cards cards (C17.R3)
    from . import c17
    def _prep(c):
        for name, fm in c17.FORMATS.items():
            c17.prep_rule(c, name, fm)
    chk.borrow(_prep, {"C17.R3": "C08.R7"})
    chk.obs = [o for o in chk.obs if not (o.rule == "C08.R7" and o.key not in ("phantom-batch", "manifest_cards=sum-of-counts", "cum_cards-after-append"))]
    # R8: a phantom MVR is scored at all only because the pair is kept on the strength of the *CVR* listing the contest (C06.R4)
    from . import c06
    chk.borrow(c06.r4, {"C06.R4": "C08.R8"})
    chk.obs = [o for o in chk.obs if not (o.rule == "C08.R8" and o.key not in ("style-threshold-filter", "aligned-pairs"))]


def r9_check_cards(chk):
    """The validator the accounting relies on (card bounds >= CVR counts): it counts the CVRs listing each contest, refuses a
    bound that is too small unless forced, and when forced only ever *raises* the bound to that count."""
    fn = chk.fn(REL, "Contest.check_cards")
    where = W("Contest.check_cards")
    loops = [l for l in fn.body if isinstance(l, ast.For)]
    ok = False
    detail = {}
    if len(loops) == 1 and isinstance(loops[0].target, ast.Tuple) and norm(loops[0].iter) == "contests.items()":
        l = loops[0]
        k, con = [norm(e) for e in l.target.elts]
        cnt = [st for st in l.body if isinstance(st, ast.Assign) and isinstance(st.targets[0], ast.Name) and aud.comps(st)]
        count_ok = False
        FN = None
        if len(cnt) == 1:
            FN = cnt[0].targets[0].id
            cs = aud.comps(cnt[0])
            if len(cs) == 1 and isinstance(cnt[0].value, ast.Call) and norm(cnt[0].value.func) in ("np.sum", "sum", "len"):
                elt, tgt, it, ifs = aud.single_gen(cs[0])
                count_ok = norm(it) == "cvrs" and ((norm(elt) == f"{norm(tgt)}.has_contest({k})" and not ifs) or
                                                   (len(ifs) == 1 and norm(ifs[0]) == f"{norm(tgt)}.has_contest({k})"))
        if FN:
            tx = Tx()
            tx.env[FN] = E(S("found"))
            tx.skip_calls = True
            body = [st for st in l.body if st is not cnt[0]]
            try:
                tx.block(body)
                got = tx.env.get(f"@{con}.cards", E(S(f"{con}.cards")))
                g = symx.c_and(*tx.guards) if tx.guards else True
                got = I(g, got, symx.Raise("ValueError")) if g is not True else got
                w = Tx(env={"found": E(S("found"))})
                want = w.expr(ast.parse(f"(max({con}.cards, found) if force else {con}.cards) if (not (found > {con}.cards) or force) else RAISE", mode="eval").body)
                want = symx.map_leaf_raise(want) if hasattr(symx, "map_leaf_raise") else want
                # compare on the rows where the function does not raise; and raise exactly when found > cards and not force
                okv = True
                atoms = val_atoms(got) | val_atoms(want)
                for row in rows(atoms):
                    a_, b_ = eval_val(got, row), eval_val(want, row)
                    raises_want = sp.sstr(b_) == "RAISE" if not isinstance(b_, symx.Raise) else True
                    if isinstance(a_, symx.Raise) != raises_want:
                        okv = False
                    elif not isinstance(a_, symx.Raise) and not is_zero(a_ - b_):
                        okv = False
                detail = dict(cards_after=repr(got)[:200])
                ok = count_ok and okv and whole_collection(l.iter)
            except symx.Unsupported as e:
                detail = dict(untranslated=str(e))
    chk.ob("C08.R9", where, "bound-checked-and-only-raised", ok,
           "for every contest: found = number of CVRs listing it; found > cards raises unless forced; when forced the bound becomes "
           "max(cards, found), otherwise it is left alone", node=fn, strength="N", **detail)


def cvr_ctor_calls(node):
    return [c for c in ast.walk(node) if isinstance(c, ast.Call) and norm(c.func) == "CVR"]


def r123(chk):
    fn = chk.fn(REL, "CVR.make_phantoms")
    where = W("CVR.make_phantoms")
    tx = Tx()
    # top-level bindings
    env = {}
    for st in fn.body:
        if isinstance(st, ast.Assign) and len(st.targets) == 1 and isinstance(st.targets[0], ast.Name):
            env[st.targets[0].id] = st.value
    # role names, discovered from structure (not from the spelling of locals)
    rets0 = [r for r in walk_local(fn) if isinstance(r, ast.Return)]
    PV, CNT = "phantom_vrs", "phantoms"
    if len(rets0) == 1 and isinstance(rets0[0].value, ast.Tuple) and len(rets0[0].value.elts) == 2:
        first, second = rets0[0].value.elts
        expr = first
        if isinstance(first, ast.Name):
            defs = [s for s in fn.body if isinstance(s, ast.Assign) and norm(s.targets[0]) == first.id]
            if defs:
                expr = defs[-1].value
        if isinstance(expr, ast.BinOp) and isinstance(expr.op, ast.Add) and isinstance(expr.right, ast.Name):
            PV = expr.right.id
        if isinstance(second, ast.Name):
            CNT = second.id
    US = next((k for k, v in env.items() if isinstance(v, ast.Attribute) and v.attr == "use_style"), "use_style")
    MC = next((k for k, v in env.items() if isinstance(v, ast.Attribute) and v.attr == "max_cards"), "max_cards")
    STR = next((k for k, v in env.items() if norm(v) == "next(iter(audit.strata.values()))"), "stratum")
    NC = next((k for k, v in env.items() if norm(v) == "len(cvr_list)"), "n_cvrs")
    # --- contest parameters
    loops = [l for l in fn.body if isinstance(l, ast.For)]
    set_loop = None
    for l in loops:
        if any(isinstance(t, ast.Attribute) and t.attr == "cvrs" for t, v, s in stores(l)):
            set_loop = l
    if set_loop is None:
        raise AnalysisError("make_phantoms: loop setting con.cvrs not found")
    cv = norm(set_loop.target.elts[1]) if isinstance(set_loop.target, ast.Tuple) else norm(set_loop.target)
    ok_c = False
    detail = {}
    for t, v, s in stores(set_loop):
        if isinstance(t, ast.Attribute) and t.attr == "cvrs" and norm(t.value) == cv:
            cs = aud.comps(s)
            if len(cs) == 1 and isinstance(v, ast.Call) and norm(v.func) in ("np.sum", "sum", "numpy.sum", "len"):
                elt, tgt, it, ifs = aud.single_gen(cs[0])
                c = norm(tgt)
                detail = dict(elt=norm(elt), iter=norm(it), ifs=[norm(i) for i in ifs])
                counted = (norm(elt) == f"{c}.has_contest({cv}.id)" and len(ifs) == 1 and norm(ifs[0]) == f"not{c}.phantom") or \
                          (len(ifs) == 1 and aud.cond_equiv(Tx().cond(ifs[0]), spec.cond_term(f"{c}.has_contest({cv}.id) and not {c}.phantom"))[0]
                           and norm(elt) in ("1", c))
                # ... at every call, for the list handed in now: the store is not guarded (a count remembered from an earlier
                # call belongs to another list)
                ok_c = counted and norm(it) == "cvr_list" and parent(s) is set_loop
                if parent(s) is not set_loop:
                    detail["store_is_conditional"] = norm(parent(s).test)[:80] if isinstance(parent(s), ast.If) else type(parent(s)).__name__
    chk.ob("C08.R1", where, "cvrs-counts-real-records-listing-contest", ok_c and whole_collection(set_loop.iter),
           "con.cvrs = number of non-phantom records of cvr_list that list the contest, for every contest", node=set_loop, **detail)
    ok_cards = False
    for t, v, s in stores(set_loop):
        if isinstance(t, ast.Attribute) and t.attr == "cards" and norm(t.value) == cv:
            t1 = Tx(env={MC: E(S("max_cards")), US: E(S("use_style"))})
            got = symx.prune(t1.expr(v))
            want = symx.prune(Tx().expr(ast.parse(f"max_cards if ({cv}.cards is None or not use_style) else {cv}.cards", mode="eval").body))
            ok_cards = symx.equivalent(got, want)[0]
    chk.ob("C08.R1", where, "cards-defaults-to-max_cards", ok_cards,
           "con.cards becomes max_cards when unspecified or when style information is not used, otherwise stays", node=set_loop)
    # --- the branch
    br = [s for s in fn.body if isinstance(s, ast.If)]
    br = [s for s in br if cvr_ctor_calls(s)]
    if len(br) != 1:
        raise AnalysisError("make_phantoms: creation branch not found")
    br = br[0]
    c_test = Tx(env={US: E(S("use_style"))}).cond(br.test)
    pos = aud.cond_equiv(c_test, ("atom", "truthy(use_style)"))[0]
    neg = aud.cond_equiv(c_test, symx.c_not(("atom", "truthy(use_style)")))[0]
    chk.ob("C08.R1", where, "branch-on-use_style", pos or neg, "the two accounting schemes are selected by the stratum's use_style",
           node=br, test=norm(br.test))
    style_body, plain_body = (br.body, br.orelse) if pos else (br.orelse, br.body)
    us = env.get(US)
    chk.ob("C08.R1", where, "use_style-from-stratum", us is not None and norm(us) == f"{STR}.use_style"
           and MC in env and norm(env[MC]) == f"{STR}.max_cards" and STR in env,
           "use_style and max_cards are read from the (single) stratum", node=fn, strength="N")
    # --- non-style: max_cards - len(cvr_list) records
    t2 = Tx(env={MC: E(S("max_cards")), "cvr_list": E(S("cvr_list"))})
    if NC in env:
        t2.env[NC] = t2.expr(env[NC])
    ok = False
    detail = {}
    pl = [s for s in plain_body if isinstance(s, ast.For)]
    cnt = [s for s in plain_body if isinstance(s, ast.Assign) and norm(s.targets[0]) == CNT]
    if len(pl) == 1 and len(cnt) == 1:
        v = t2.expr(cnt[0].value)
        want = t2.expr(ast.parse("max_cards - len(cvr_list)", mode="eval").body)
        detail["count"] = norm(cnt[0].value)
        l = pl[0]
        apps = [c for c in walk_local(l) if isinstance(c, ast.Call) and norm(c.func) == f"{PV}.append"]
        # the loop makes exactly CNT iterations: range(CNT), range(1, CNT + 1), ...
        trips = None
        if isinstance(l.iter, ast.Call) and norm(l.iter.func) == "range" and 1 <= len(l.iter.args) <= 2 and not l.iter.keywords:
            try:
                rs = [Tx().expr(a_) for a_ in l.iter.args]
                if all(isinstance(r_, E) for r_ in rs):
                    trips = rs[0].e if len(rs) == 1 else rs[1].e - rs[0].e
            except symx.Unsupported:
                trips = None
        ok = symx.equivalent(v, want)[0] and trips is not None and is_zero(trips - S(CNT)) and len(apps) == 1 \
            and parent(parent(apps[0])) is l and not [n for n in walk_local(l) if isinstance(n, (ast.Break, ast.Continue))]
    chk.ob("C08.R1", where, "stratum-accounting", ok,
           "without style information exactly max_cards - len(cvr_list) phantom records are created (one per iteration)",
           node=pl[0] if pl else br, **detail)
    # --- style: per contest
    sl = [s for s in style_body if isinstance(s, ast.For)]
    ok_need = ok_while = ok_list = ok_total = False
    detail = {}
    if len(sl) == 1:
        l = sl[0]
        cv2 = norm(l.target.elts[1]) if isinstance(l.target, ast.Tuple) else norm(l.target)
        whiles = [s for s in l.body if isinstance(s, ast.While)]
        fors = [s for s in l.body if isinstance(s, ast.For)]
        # the quantity that drives both inner loops: the argument of range(...) in the listing loop
        tloc = Tx()
        for s0 in l.body:
            if isinstance(s0, ast.Assign) and len(s0.targets) == 1 and isinstance(s0.targets[0], ast.Name):
                tloc._assign(s0.targets[0], tloc.expr(s0.value))
        nn = None
        if len(fors) == 1 and isinstance(fors[0].iter, ast.Call) and norm(fors[0].iter.func) == "range" and len(fors[0].iter.args) == 1 \
                and isinstance(fors[0].iter.args[0], ast.Name):
            nn = fors[0].iter.args[0].id
        if nn is not None and nn in tloc.env:
            got = tloc.env[nn]
            want = Tx().expr(ast.parse(f"{cv2}.cards - {cv2}.cvrs", mode="eval").body)
            ok_need = symx.equivalent(got, want)[0] and whole_collection(l.iter) and norm(l.iter).startswith("contests")
            detail["needed"] = repr(got)
            if len(whiles) == 1:
                w = whiles[0]
                cw = Tx().cond(w.test)
                wantw = Tx().cond(ast.parse(f"len({PV}) < {nn}", mode="eval").body)
                apps = [c for c in walk_local(w) if isinstance(c, ast.Call) and norm(c.func) == f"{PV}.append"]
                ok_while = aud.cond_equiv(cw, wantw)[0] and len(apps) == 1 and len(w.body) == 1 and not w.orelse
                detail["while"] = norm(w.test)
            if len(fors) == 1:
                f = fors[0]
                iv = norm(f.target)
                sts = [(t, v, s) for t, v, s in stores(f)]
                ok_list = norm(f.iter) == f"range({nn})" and len(sts) == 1 and norm(sts[0][0]) == f"{PV}[{iv}].votes[{cv2}.id]" \
                    and isinstance(sts[0][1], ast.Dict) and not sts[0][1].keys and len(f.body) == 1 \
                    and (not whiles or f.lineno > whiles[0].lineno)
                detail["listing"] = norm(sts[0][2]) if sts else None
        tot = [s for s in style_body if isinstance(s, ast.Assign) and norm(s.targets[0]) == CNT]
        ok_total = len(tot) == 1 and norm(tot[0].value) == f"len({PV})" and tot[0].lineno > l.end_lineno
    chk.ob("C08.R1", where, "needed=cards-cvrs", ok_need, "for every contest, phantoms_needed = con.cards - con.cvrs", node=sl[0] if sl else br, **detail)
    chk.ob("C08.R1", where, "create-until-enough", ok_while,
           "records are created exactly while fewer than phantoms_needed exist (so the number created is the largest shortfall)",
           node=sl[0] if sl else br)
    chk.ob("C08.R1", where, "contest-listed-on-first-needed", ok_list,
           "the contest is listed (with an empty, fresh vote dict) on exactly the first phantoms_needed phantom records, after they exist",
           node=sl[0] if sl else br)
    chk.ob("C08.R1", where, "count-returned", ok_total, "the reported number of phantoms is the number of records created", node=br)
    # the phantom list starts empty
    # (one initialisation before the branches, or one at the head of each branch: every binding of the list is `[]` and none of
    # them sits inside a loop, where it would drop the records made so far)
    pdefs = [s_ for s_ in walk_local(fn) if isinstance(s_, ast.Assign) and any(isinstance(t_, ast.Name) and t_.id == PV for t_ in s_.targets)]
    in_loop = [s_ for s_ in pdefs if any(isinstance(a_, (ast.For, ast.While)) for a_ in ancestors(s_))]
    chk.ob("C08.R1", where, "starts-empty", bool(pdefs) and all(isinstance(s_.value, ast.List) and not s_.value.elts for s_ in pdefs) and not in_loop,
           "the phantom list starts empty", node=fn)
    # --- R2 originals first and untouched
    rets = [r for r in walk_local(fn) if isinstance(r, ast.Return)]
    ok = False
    if len(rets) == 1 and isinstance(rets[0].value, ast.Tuple) and len(rets[0].value.elts) == 2:
        first = rets[0].value.elts[0]
        # follow one rebinding cvr_list = cvr_list + phantom_vrs
        txt = norm(first)
        if isinstance(first, ast.Name):
            defs = [s for s in fn.body if isinstance(s, ast.Assign) and norm(s.targets[0]) == first.id]
            if defs:
                txt = norm(defs[-1].value)
        ok = txt == f"cvr_list+{PV}" and norm(rets[0].value.elts[1]) == CNT
    chk.ob("C08.R2", where, "originals-first", ok, "the result is the original records followed by the phantom records, and the count",
           node=rets[0] if rets else fn)
    muts = []
    for t, v, s in stores(fn):
        base = t
        while isinstance(base, (ast.Attribute, ast.Subscript)):
            base = base.value
        if isinstance(base, ast.Name) and base.id in ("cvr_list", "cvr") and isinstance(t, (ast.Attribute, ast.Subscript)):
            muts.append(norm(s)[:80])
    for c in walk_local(fn):
        if isinstance(c, ast.Call) and isinstance(c.func, ast.Attribute) and norm(c.func.value) == "cvr_list" \
                and c.func.attr in ("append", "extend", "sort", "insert", "pop", "remove", "clear", "reverse"):
            muts.append(norm(c)[:80])
        if isinstance(c, ast.AugAssign) and norm(c.target) == "cvr_list":
            muts.append(norm(c)[:80])
    chk.ob("C08.R2", where, "originals-untouched", not muts,
           "no store to an element (or attribute of an element) of the input list and no in-place mutation of the list", node=fn,
           mutations=muts)
    # --- R3 constructor calls
    calls = cvr_ctor_calls(fn)
    chk.need("C08.R3", len(calls), 2, "phantom constructor calls in make_phantoms")
    for k, c in enumerate(sorted(calls, key=lambda c: c.lineno)):
        kw = {x.arg: x.value for x in c.keywords}
        ph = "phantom" in kw and norm(kw["phantom"]) == "True"
        fresh = "votes" in kw and isinstance(kw["votes"], ast.Dict) and not kw["votes"].keys
        idn = kw.get("id")
        uniq = False
        if isinstance(idn, ast.BinOp) and isinstance(idn.op, ast.Add) and norm(idn.left) == "prefix" \
                and isinstance(idn.right, ast.Call) and norm(idn.right.func) == "str":
            cnt = norm(idn.right.args[0])
            loop = next((a for a in ancestors(c) if isinstance(a, (ast.For, ast.While))), None)
            if isinstance(loop, ast.For) and norm(loop.iter).startswith("range(") and cnt in (f"{norm(loop.target)}+1", f"1+{norm(loop.target)}", norm(loop.target)):
                uniq = True
            if cnt in (f"len({PV})+1", f"1+len({PV})", f"len({PV})"):
                uniq = True
        chk.ob("C08.R3", where, f"phantom-ctor@{k}", ph and fresh and uniq,
               "a phantom record is constructed with phantom=True, an explicit fresh empty vote dict, and id = prefix + a strictly "
               "increasing counter", node=c, phantom=ph, fresh_votes=fresh, unique_id=uniq, id=norm(idn) if idn is not None else None)


def r4(chk):
    over = chk.fn(REL, "Assorter.overstatement")
    code, _ = spec.term(over, boolean=BOOL_FLAGS)
    # rows with a phantom MVR: the MVR side must be the literal 0
    AM = sp.Function("self.assort")(S("mvr"))
    ok_m = True
    ok_c = True
    n = 0
    atoms = val_atoms(code) | {"truthy(mvr.phantom)", "truthy(cvr.phantom)", "truthy(cvr.pool)", "truthy(use_style)",
                               "truthy(mvr.has_contest(self.contest.id))"}
    for row in rows(atoms):
        leaf = eval_val(code, row)
        if isinstance(leaf, symx.Raise):
            continue
        n += 1
        if row.get("truthy(mvr.phantom)"):
            if leaf.has(AM):
                ok_m = False
        if row.get("truthy(cvr.phantom)") and not row.get("truthy(cvr.pool)"):
            cvr_side = leaf + (0 if row.get("truthy(mvr.phantom)") or (row.get("truthy(use_style)") and not row.get("truthy(mvr.has_contest(self.contest.id))")) else AM)
            if not is_zero(cvr_side - sp.Rational(1, 2)):
                ok_c = False
    chk.ob("C08.R4", W("Assorter.overstatement"), "phantom-mvr-scored-0", ok_m,
           "whenever the manual record is a phantom, the MVR side of the overstatement is the constant 0 (the bottom of the assorter's range)",
           node=over, rows=n)
    chk.ob("C08.R4", W("Assorter.overstatement"), "phantom-cvr-scored-half", ok_c,
           "an unpooled phantom CVR contributes 1/2 (a non-vote) on the CVR side", node=over, rows=n)
    chk.exhaustive = True
    aud.keeps_no_state(chk, "C08.R4", REL, ["Assorter.overstatement", "Assertion.overstatement_assorter", "Assertion.make_overstatement"],
                       "the score of a pair is a function of the two records handed in")
    # monotonicity of B in the MVR side
    ba = chk.fn(REL, "Assertion.overstatement_assorter")
    code_b, _ = spec.term(ba, inline={"self.make_overstatement": chk.fn(REL, "Assertion.make_overstatement")})
    if not isinstance(code_b, E):
        raise AnalysisError("overstatement_assorter is not a single return")
    om = [a for a in code_b.e.atoms(sp.core.function.AppliedUndef) if "overstatement" in a.func.__name__]
    if len(om) != 1:
        raise AnalysisError("overstatement call not found in overstatement_assorter")
    a_c, a_m = sp.symbols("a_cvr a_mvr", real=True)
    ua = sign.pos("ua")
    d = sign.pos("slack")
    B = code_b.e.subs(om[0], a_c - a_m).subs({S("self.assorter.upper_bound"): ua, S("self.margin"): 2 * ua - d})
    dB = sp.diff(B, a_m)
    chk.ob("C08.R4", W("Assertion.overstatement_assorter"), "B-increasing-in-mvr-side", sign.is_pos(dB),
           "B is strictly increasing in the MVR side, so replacing any manual record by a phantom (MVR side 0, the minimum) never increases B",
           node=ba, derivative=sp.sstr(sp.simplify(dB)))


def _phantom_appends(node):
    """calls X.append(CVR(..., phantom=True))"""
    out = []
    for c in ast.walk(node):
        if isinstance(c, ast.Call) and isinstance(c.func, ast.Attribute) and c.func.attr == "append" and len(c.args) == 1 \
                and isinstance(c.args[0], ast.Call) and norm(c.args[0].func) == "CVR":
            out.append(c)
    return out


def _resolves_to(expr, scope, targets):
    """does the expression (a Name is followed through its local definitions in scope) equal one of the target texts?"""
    seen = set()
    cur = expr
    while True:
        t = norm(cur)
        if t in targets:
            return True
        if isinstance(cur, ast.Name) and cur.id not in seen:
            seen.add(cur.id)
            defs = [s for s in walk_local(scope) if isinstance(s, ast.Assign) and len(s.targets) == 1 and norm(s.targets[0]) == cur.id]
            if len(defs) == 1:
                cur = defs[0].value
                continue
        return False


def r5(chk):
    # sample_from_cvrs: every sampled phantom card gets a phantom MVR with the same id
    for rel, q in ((DOM, "Dominion.sample_from_cvrs"), (HART, "Hart.sample_from_cvrs")):
        fn = chk.fn(rel, q, canonical=True)
        loops = [l for l in fn.body if isinstance(l, ast.For) and "sample" in norm(l.iter)]
        if not loops:
            raise AnalysisError(f"{q}: loop over the sample not found")
        l = loops[-1]
        ps = paths(l.body)
        ok = True
        n_ph = 0
        bad = []
        sv = norm(l.target.elts[1]) if isinstance(l.target, ast.Tuple) else norm(l.target)
        ph_texts = (f"cvr_list[{sv}].phantom",)
        for p in ps:
            is_ph = None
            for e in p.events:
                if e[0] == "test":
                    t = norm(e[1])
                    if t in ph_texts:
                        is_ph = e[2]
                    elif t in tuple("not" + x for x in ph_texts):
                        is_ph = not e[2]
            apps = [s for s in (e[1] for e in p.events if e[0] == "stmt") if isinstance(s, ast.Expr) and s.value in _phantom_appends(s)]
            if is_ph:
                n_ph += 1
                good = False
                for a in apps:
                    c = a.value.args[0]
                    if isinstance(c, ast.Call) and norm(c.func) == "CVR":
                        kw = {x.arg: norm(x.value) for x in c.keywords}
                        idn = next((x.value for x in c.keywords if x.arg == "id"), None)
                        if kw.get("phantom") == "True" and idn is not None and _resolves_to(idn, l, (f"cvr_list[{sv}].id",)) and kw.get("votes") == "{}":
                            good = True
                if len(apps) != 1 or not good:
                    ok = False
                    bad.append("phantom path without exactly one phantom MVR of the same id")
            elif is_ph is False and apps:
                ok = False
                bad.append("non-phantom path creates a phantom MVR")
        # the MVR list must be returned
        recv = {norm(c.func.value) for c in _phantom_appends(l)}
        rets = [r for r in walk_local(fn) if isinstance(r, ast.Return) and isinstance(r.value, ast.Tuple)]
        returned = {norm(e) for r in rets for e in r.value.elts}
        ok = ok and n_ph >= 1 and len(recv) == 1 and recv <= returned
        chk.ob("C08.R5", f"{rel}:{q}", "phantom-mvr-for-phantom-card", ok,
               "on every path where the sampled CVR is a phantom, exactly one MVR with the same id, phantom=True and empty votes is "
               "appended; on no other path", node=l, strength="N", phantom_paths=n_ph, problems=bad)
    # writer / reader constant of the phantom batch
    for rel, cls, col in ((DOM, "Dominion", "Tabulator Number"), (HART, "Hart", "Tabulator")):
        w = chk.fn(rel, f"{cls}.prep_manifest")
        r = chk.fn(rel, f"{cls}.sample_from_manifest")
        written = None
        for d in [n for n in ast.walk(w) if isinstance(n, ast.Dict)]:
            for k, v in zip(d.keys, d.values):
                if isinstance(k, ast.Constant) and k.value == col and isinstance(v, ast.Constant):
                    written = v.value
        read_const, read_col = None, None
        mvr_ok = False
        for st in walk_local(r):
            if isinstance(st, ast.If) and isinstance(st.test, ast.Compare) and len(st.test.ops) == 1 and isinstance(st.test.ops[0], ast.Eq):
                side = [st.test.left, st.test.comparators[0]]
                consts = [x for x in side if isinstance(x, ast.Constant) and isinstance(x.value, str)]
                names = [x for x in side if isinstance(x, ast.Name)]
                apps = _phantom_appends(st)
                if consts and names and apps:
                    read_const = consts[0].value
                    var = names[0].id
                    from ..canon import expand_locals as _xl
                    dv = _xl(names[0], r)  # (through any chain of temporaries)
                    if isinstance(dv, ast.Subscript) and isinstance(dv.slice, ast.Constant):
                        read_col = dv.slice.value
                    c = apps[0].args[0]
                    if isinstance(c, ast.Call) and norm(c.func) == "CVR":
                        kw = {x.arg: norm(x.value) for x in c.keywords}
                        idn = next((x.value for x in c.keywords if x.arg == "id"), None)
                        # the id is the card identifier built for this sample number (an f-string over the located batch)
                        id_ok = isinstance(idn, ast.Name) and isinstance(_xl(idn, r), ast.JoinedStr)
                        mvr_ok = kw.get("phantom") == "True" and id_ok and kw.get("votes") == "{}" and not st.orelse
        ok = written is not None and written == read_const and read_col == col and mvr_ok
        chk.ob("C08.R5", f"{rel}:{cls}.sample_from_manifest", "phantom-batch-label-agrees", ok,
               "the lookup creates a phantom MVR exactly when the row's tabulator column equals the constant that prep_manifest writes "
               "into that column for the phantom batch", node=r, strength="N", written=written, read=read_const, column_written=col,
               column_read=read_col)
