"""C11 -- p-values well-formed; overall value matches the history (NaN clause declined)."""
from __future__ import annotations

from ..core import AnalysisError, norm
from .. import nnm, nnm_rules as R
from ..npflow import Arr, Sc, Tup, TOP, CONST

META = dict(
    text="Structural/algebraic part of well-formedness, for all inputs: (R1) both returned components are min(1, .); "
         "(R2) the history has exactly one entry per observation and every constant-index access is in bounds for every "
         "sample of length >= 1 (shape analysis); (R3) the overall value is the extremum (random order) or the last entry "
         "of the same final statistic, compared as terms over both values of random_order. Lower bound 0 follows from "
         "non-negative factors (C13) and the override classification (C01.R5).",
    note="NOT decided: absence of NaN and behaviour at numeric boundaries (0/0 when mu_j hits 0 or u, agrapa with zero "
         "variance, Kaplan-Kolmogorov with g=0) -- floating-point facts outside static reach. alpha_mart/betting_mart "
         "ignore random_order: reported as open known findings K1a/K1b.",
    technique="term extraction + exhaustive comparison over flag values; array-shape abstract interpretation",
)
META["text"] += " (R5, N) no array inherits the sample's dtype through np.full_like / np.empty_like (= C12.R6), and in-place conventions are keyed to the null mean, not to the statistic (= C01.R5)."
META["text"] += ' (R4 = C13.R1-R3) the history is non-negative because every factor is: the clamped estimators and the bets stay in range.'
META["text"] += ' (R6, N) no method keeps state between calls (see C01.R8). An early exit is one more row of the table: R1 and R3 hold on it as well.'
META["text"] += ' R2 holds for every sample length >= 1 (length formulas carry the smallest n they are exact for). R3 also: the constructor keeps its positional protocol, so a positional random_order reaches the tests.'
META["text"] += ' R1 also: the history is min(1, 1/T) of one statistic on every path, early exits included. R3 also: the p-value an assertion records is the one its test returned (= C09.R1).'

REL = nnm.REL


def bounds(chk, fl, qual, args, rule):
    fr = fl.analyse(qual, args)
    n = 0
    for e in fr.events:
        if e.kind not in ("index_store", "index_load"):
            continue
        b = e.before
        if not isinstance(b, Arr):
            continue
        k = e.index
        need = k if k >= 0 else -k - 1  # required dlen: n + dlen > k  (k>=0)  /  n + dlen >= -k (k<0), n >= 1
        ok = b.dlen is not None and b.dlen >= need
        n += 1
        chk.ob(rule, f"{REL}:{qual}", f"{e.kind.replace('_', '-')}-bounds:{e.target}[{k}]", ok,
               "a constant-index access is within bounds for every sample of length >= 1",
               node=e.node, array=str(b), statement=norm(e.node)[:120])
    return n


def run(chk):
    idx = chk.idx
    # the overall value that an assertion *records* is the one its test returned (C09.R1): re-deriving it from the history
    # (min_p) is the random-order rule applied to a test that was told otherwise
    from . import c09 as _c09
    _n0 = len(chk.obs)
    chk.borrow(_c09.r_set_p_values, {"C09.R1": "C11.R3"})
    chk.obs = chk.obs[:_n0] + [o for o in chk.obs[_n0:] if o.rule != "C11.R3" or o.key in ("result-stored-verbatim", "no-other-store")]
    R.rule_ctor_signature(chk, "C11.R3")  # (random_order reaches the tests only if it is bound to what the caller meant)
    R.rule_stateless(chk, "C11.R6")  # first: its refutations stand even if a later rule cannot read the code
    reg = nnm.registry(idx)
    fl = nnm.flow(idx, reg)
    chk.explain(
        "R1 cap: overall and history are min(1, .) on every path (term form). R2: returned history is Arr(len = n) and "
        "every constant-index load/store in tests, estimators, bets and helpers is in bounds for n >= 1. R3: overall == "
        "min(1, 1/max(T)) under random_order and min(1, 1/T[-1]) otherwise (resp. min(P), P[-1] for Kaplan-Markov), for "
        "the same final statistic; rows on which the method itself raises are excluded. R4 (lower bound 0) is delegated "
        "to C13 / C01.R5."
    )
    chk.trust("npflow shape table (insert +1, [0:-1] -1, [1:] -1, element-wise keeps length)",
              "min(1, 1/T) over non-negative T lies in [0,1]")
    chk.assume("samples are non-empty (property precondition)", "NaN-freedom is NOT claimed (declined clause)")
    X = Arr(0, 0, True)
    tfs = R.facts(idx)
    chk.need("C11.R1", len(tfs), 6, "test methods")
    for name, tf in tfs.items():
        R.rule_cap(chk, tf, "C11.R1")
        # ... of one and the same statistic on every path through the test (an early exit reports the history of its own row)
        R.rule_factor_and_composition(chk, tf, {"composition": "C11.R1"})
        R.rule_overall_matches_history(chk, tf, "C11.R3")
        fr = fl.analyse(f"{nnm.CLS}.{name}", {"x": X})
        ret = fr.ret
        if not (isinstance(ret, Tup) and len(ret.items) == 2) or ret.items[1] is TOP:
            raise AnalysisError(f"{name}: cannot determine the shape of the history")
        h = ret.items[1]
        chk.ob("C11.R2", R.W(name), "one-entry-per-observation", isinstance(h, Arr) and h.dlen == 0 and h.minn <= 1,
               "the returned history has exactly len(x) entries, for every sample of length >= 1", node=fr.fdef, abstract=str(h))
        bounds(chk, fl, f"{nnm.CLS}.{name}", {"x": X}, "C11.R2")
    nb = 0
    for name in reg["estim"] + reg["bet"]:
        nb += bounds(chk, fl, f"{nnm.CLS}.{name}", {"x": X}, "C11.R2")
        fr = fl.analyse(f"{nnm.CLS}.{name}", {"x": X})
        r = fr.ret
        if isinstance(r, Arr):
            chk.ob("C11.R2", R.W(name), "one-entry-per-observation", r.dlen == 0 and r.minn <= 1,
                   "the tuning sequence has exactly len(x) entries for every sample of length >= 1 (so the factor array has one entry per observation)",
                   node=fr.fdef, abstract=str(r))
    bounds(chk, fl, f"{nnm.CLS}.sjm", {"N": CONST, "t": CONST, "x": X}, "C11.R2")
    bounds(chk, fl, "welford_mean_var", {"x": X}, "C11.R2")

    # R5: values in [0,1] presuppose that the formulas are evaluated in floating point and that the in-place conventions are keyed
    # to the null mean, not to the statistic itself (C12.R6 dtype lint; C01.R5 override classification)
    from . import c12
    chk.borrow(c12.r6_dtype, {"C12.R6": "C11.R5"})
    for _tf in tfs.values():
        R.classify_overrides(chk, _tf, "C11.R5")
    # R4: entries >= 0 because no factor is negative: the ranges of the clamped estimators and of the bets (C13.R1-R3; the two
    # unclamped estimators are C13's open findings and stay there)
    from . import c13
    chk.borrow(c13.run, {"C13.R1": "C11.R4", "C13.R2": "C11.R4", "C13.R3": "C11.R4"})
