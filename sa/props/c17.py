"""C17 -- each sample number maps to exactly one card; manifests account for every card."""
from __future__ import annotations

import ast
import glob
import os
from pathlib import Path

import sympy as sp

from ..core import AnalysisError, norm
from .. import symx, spec, aud
from ..symx import Tx, E, S, is_zero
from ..canon import expand_locals, record_field_values
from ..astutil import walk_local, stores, parent, dominates_structurally
from ..cfg import paths

DOM = "shangrla/formats/Dominion.py"
HART = "shangrla/formats/Hart.py"

# bases of the two lookups, from the property text and the functions' docstrings
FORMATS = {
    "Dominion": dict(rel=DOM, side="left", base=1, count_col="Total Ballots"),
    "Hart": dict(rel=HART, side="right", base=0, count_col="Number of Ballots"),
}

META = dict(
    text="Index arithmetic (P, affine): with lookup = [0] + cumulative counts and R = searchsorted(lookup, s, side), the row used is "
         "R - 1 and the offset s - lookup[R-1] for the same R, and the side matches the format's base (Dominion 1-based: left, "
         "offset in [1,size]; Hart 0-based: right, offset in [0,size-1]); injectivity and in-batch position, empty batches "
         "included, follow from searchsorted's two inequalities. Bookkeeping (N): selection order recorded, phantom MVR exactly "
         "for the phantom batch, CVR-driven lookup returns the sampled CVRs in order with ids derived from them. Manifest "
         "preparation (N + resolved API): the two sanity assertions come first, phantoms = max_cards - manifest_cards under "
         "manifest_cards < max_cards, the appended batch carries that count, cumulative counts are computed after the append, "
         "and every pandas method called on the manifest exists in the installed pandas (its source is parsed).",
    note="Trusted: numpy.searchsorted's documented contract and pandas semantics of cumsum/concat/iloc. D7 (DataFrame.append, "
         "removed from the pinned pandas) was repaired with a fix: commit.",
    technique="affine index arithmetic on the AST, ordering (dominance) rules, API resolution against the installed library's source",
)
META["text"] += " R2: the card identifier built from a sampled CVR is a function of that CVR's id alone."
META["text"] += ' R1 also: the per-sample loop skips a number only under a guard equivalent to "outside the format\'s range" (1..total for Dominion, 0..total-1 for Hart).'
META["text"] += ' R2 also: the sample is traversed once; raire_to_dominion returns the records it was given with only their id re-written.'
META["text"] += ' (R4, N, frame condition on arguments) a look-up reads the sample and the manifest: every function in scope changes the objects it is handed only in the ways confirmed for it (aud.ARG_EFFECTS); references are followed through aliases, elements, attributes, loop variables, .get/.items/.values and np.asarray, resolved by the bindings that reach the use.'


def run(chk):
    from .. import aud as _aud8
    _aud8.argument_effects(chk, 'C17.R4', 'shangrla/formats/Dominion.py', 'a look-up reads the sample and the manifest', only=None)
    _aud8.argument_effects(chk, 'C17.R4', 'shangrla/formats/Hart.py', 'a look-up reads the sample and the manifest', only=None)
    chk.explain(
        "R1 searchsorted look-up arithmetic per format; R2 selection order, phantom MVRs, CVR-driven lookup; R3 manifest preparation: "
        "assertions first, phantom batch size and placement, cumulative counts after the append, pandas API resolved against the "
        "installed pandas source."
    )
    chk.trust("numpy.searchsorted: side='left' gives a[i-1] < v <= a[i]; side='right' gives a[i-1] <= v < a[i]",
              "pandas cumsum / concat / iloc semantics")
    for name, fm in FORMATS.items():
        lookup_rule(chk, name, fm)
        cvr_lookup_rule(chk, name, fm)
        prep_rule(chk, name, fm)


def lookup_rule(chk, name, fm):
    rel = fm["rel"]
    fn = chk.fn(rel, f"{name}.sample_from_manifest")
    where = f"{rel}:{name}.sample_from_manifest"
    loops = [l for l in fn.body if isinstance(l, ast.For) and "sample" in norm(l.iter)]
    if len(loops) != 1:
        raise AnalysisError(f"{name}.sample_from_manifest: loop over the sample not found")
    l = loops[0]
    sv = norm(l.target.elts[1]) if isinstance(l.target, ast.Tuple) else norm(l.target)
    ss = [c for c in walk_local(l) if isinstance(c, ast.Call) and norm(c.func) in ("np.searchsorted", "numpy.searchsorted") and c.args]
    chk.need("C17.R1", len(ss), 1, f"searchsorted call in {name}.sample_from_manifest")
    call = ss[0]
    LK = norm(call.args[0])  # the look-up table is whatever is searched
    ldef = [s for s in fn.body if isinstance(s, ast.Assign) and norm(s.targets[0]) == LK]
    ok = len(ldef) == 1 and norm(ldef[0].value) in ("np.array([0]+list(manifest['cum_cards']))", "np.insert(np.array(manifest['cum_cards']),0,0)")
    chk.ob("C17.R1", where, "lookup=[0]+cum_cards", ok, "the look-up table is 0 followed by the cumulative card counts", node=ldef[0] if ldef else fn)
    kw = {k.arg: k.value for k in call.keywords}
    side = kw.get("side")
    side_v = side.value if isinstance(side, ast.Constant) else ("left" if side is None else None)
    args_ok = [norm(a) for a in call.args][:2] == [LK, sv]
    chk.ob("C17.R1", where, "search-side-matches-base", args_ok and side_v == fm["side"],
           f"{name} positions are {fm['base']}-based, so the batch is found with searchsorted(lookup, s, side='{fm['side']}')",
           node=call, side=side_v, args=[norm(a) for a in call.args])
    # every sample number in the format's range names a card: the loop skips a number only if it lies outside
    # [base, base + total - 1], total = the last entry of the look-up table
    from ..astutil import ancestors as _anc
    esc = [x for x in walk_local(l) if isinstance(x, (ast.Continue, ast.Break)) and
           not any(isinstance(a_, (ast.For, ast.While)) and a_ is not l and any(a_ is y for y in walk_local(l)) for a_ in _anc(x))]
    bad_esc = []
    for x in esc:
        g = parent(x)
        if not (isinstance(x, ast.Continue) and isinstance(g, ast.If) and parent(g) is l and not g.orelse and g.body[-1] is x
                and all(isinstance(b_, ast.Expr) for b_ in g.body[:-1])):
            bad_esc.append(f"line {x.lineno}: {type(x).__name__.lower()} not in a simple range guard")
            continue
        try:
            t_ = Tx()
            t_.post = _strip_int
            got = t_.cond(expand_locals(g.test, fn, stop=(sv, LK)))
            lo_, hi_ = (f"1 <= {sv}", f"{sv} <= {LK}[-1]") if fm["base"] == 1 else (f"0 <= {sv}", f"{sv} < {LK}[-1]")
            w_ = Tx()
            w_.post = _strip_int
            want = w_.cond(ast.parse(f"not ({lo_} and {hi_})", mode="eval").body)
            from .. import aud as _aud
            if not _aud.cond_equiv(got, want)[0]:
                bad_esc.append(f"line {x.lineno}: skips when {norm(g.test)[:70]}, which is not 'outside {fm['base']}..{'total' if fm['base'] == 1 else 'total-1'}'")
        except symx.Unsupported as e:
            bad_esc.append(f"line {x.lineno}: guard not understood ({e})")
    chk.ob("C17.R1", where, "no-valid-number-skipped", not bad_esc,
           f"every sample number from {fm['base']} to {'the total' if fm['base'] == 1 else 'the total minus one'} is looked up: the loop "
           "leaves no number out except one outside that range", node=l, strength="N", **({"escapes": bad_esc} if bad_esc else {}))
    # R := int(searchsorted(...)), whether or not it is bound to a name
    st = call
    while not isinstance(st, ast.stmt):
        st = parent(st)
    # (only when the name holds the position itself; `idx = int(searchsorted(..)) - 1` is an expression in R like any other)
    Rn = norm(st.targets[0]) if isinstance(st, ast.Assign) and isinstance(st.targets[0], ast.Name) \
        and norm(st.value) in (norm(call), f"int({norm(call)})") else None
    stop = tuple(x for x in (Rn, sv, LK) if x)

    def term(e):
        """the value of a loop-body expression in terms of R, s and the tables: temporaries expanded, int() dropped"""
        x = expand_locals(e, fn, stop=stop)
        for n in ast.walk(x):  # an un-named searchsorted call is R as well
            pass
        txt = ast.unparse(x)
        for c in (f"int({ast.unparse(call)})", ast.unparse(call)):
            txt = txt.replace(c, "R")
        t = Tx(env={Rn: E(S("R"))} if Rn else {})
        t.post = _strip_int
        return symx.map_e(t.expr(ast.parse(txt, mode="eval").body), _strip_int)

    # the record of the card: selection-order store  D[<card id>][..] / D[<card id>] = {..}
    recs = record_field_values(l, "selection_order")
    key_t = None
    col_tab, col_batch = fm.get("cols", (("Tabulator Number", "Tabulator"), ("Batch Number", "Batch Name")))
    ok_off = ok_id = False
    detail = {}
    if len(recs) == 1:
        try:
            key_t = term(recs[0][0].slice)
        except symx.Unsupported as e:
            detail["untranslated"] = str(e)
    if isinstance(key_t, E):
        detail["card_id"] = sp.sstr(key_t.e)[:200]
        want_ids = []
        for ct in col_tab:
            for cb in col_batch:
                w = Tx()
                w.post = _strip_int
                src = "f\"{manifest.iloc[R - 1]['%s']}-{manifest.iloc[R - 1]['%s']}-{%s - %s[R - 1]}\"" % (ct, cb, sv, LK)
                want_ids.append(symx.map_e(w.expr(ast.parse(src, mode="eval").body), _strip_int))
        ok_id = any(isinstance(w, E) and key_t.e == w.e for w in want_ids)
        # the offset alone: the last component of the identifier
        last = key_t.e.args[-1] if getattr(key_t.e, "args", None) else None
        if last is not None:
            inner = last.args[0] if isinstance(last, sp.core.function.AppliedUndef) and last.func.__name__ == "str" and len(last.args) == 1 else last
            ok_off = is_zero(inner - (S(sv) - S(f"{LK}[R - 1]")))
            detail["offset"] = sp.sstr(inner)
    chk.ob("C17.R1", where, "offset=s-lookup[R-1]", ok_off,
           "the position within the batch is s - lookup[R-1] for the same R that selects the batch", node=l, **detail)
    # every row access uses R - 1
    rows_ = [n for n in walk_local(l) if isinstance(n, ast.Subscript) and norm(n.value) == "manifest.iloc"]
    bad = []
    for r in rows_:
        try:
            v = term(r.slice)
        except symx.Unsupported:
            v = None
        if not (isinstance(v, E) and is_zero(v.e - (S("R") - 1))):
            bad.append(norm(r))
    chk.ob("C17.R1", where, "row=R-1", bool(rows_) and not bad,
           "every column of the card's batch is read from manifest row R - 1", node=l, rows=len(rows_), bad=bad)
    # R2 phantom / selection order are C08.R5 / C07.R6; here: the card id is built from that row and offset
    chk.ob("C17.R2", where, "card-id-from-batch-and-position", ok_id,
           "the card identifier is tabulator-batch-position of the located batch", node=l, strength="N")
    iv = norm(l.target.elts[0]) if isinstance(l.target, ast.Tuple) else None
    chk.ob("C17.R2", where, "selection-order", len(recs) == 1 and norm(expand_locals(recs[0][1], fn, stop=(iv, sv))) == iv
           and norm(l.iter) == "enumerate(sample)" and parent(recs[0][2]) is l,
           "each card's selection order is its position in the sample", node=l, strength="N")


def _strip_int(e):
    """int(x) / float(x) of an index expression is x (indices are integers)."""
    repl = {}
    for sub in sp.preorder_traversal(e):
        if isinstance(sub, sp.core.function.AppliedUndef) and sub.func.__name__ in ("int", "float") and len(sub.args) == 1:
            repl[sub] = sub.args[0]
    return e.xreplace(repl) if repl else e


def sample_read_once(chk, rel, qual):
    """the sample is an iterable of sample numbers: it is traversed once, in order (a second traversal finds a one-shot iterable
    empty and returns nothing, without any error)"""
    fn = chk.fn(rel, qual)
    reads = [x for x in walk_local(fn) if isinstance(x, ast.Name) and x.id == "sample" and isinstance(x.ctx, ast.Load)
             and not (isinstance(parent(x), ast.Call) and norm(parent(x).func) == "len")]
    chk.ob("C17.R2", f"{rel}:{qual}", "sample-traversed-once", len(reads) == 1,
           "the sample numbers are read in one pass over `sample`", node=reads[1] if len(reads) > 1 else fn, strength="N", reads=len(reads))


def cvr_lookup_rule(chk, name, fm):
    sample_read_once(chk, fm["rel"], f"{name}.sample_from_cvrs")
    sample_read_once(chk, fm["rel"], f"{name}.sample_from_manifest")
    if name == "Dominion":
        aud.ids_only_translation(chk, "C17.R2", fm["rel"], "Dominion.raire_to_dominion",
                                 "the CVR-driven lookup tells phantoms by cvr.phantom and returns the CVRs themselves")
    rel = fm["rel"]
    fn = chk.fn(rel, f"{name}.sample_from_cvrs")
    where = f"{rel}:{name}.sample_from_cvrs"
    loops = [l for l in fn.body if isinstance(l, ast.For) and norm(l.iter) == "enumerate(sample)"]
    ok = False
    detail = {}
    if len(loops) == 1:
        l = loops[0]
        iv, sv = [norm(e) for e in l.target.elts]
        X = lambda e: norm(expand_locals(e, fn, stop=(iv, sv)))
        apps = [s for s in l.body if isinstance(s, ast.Expr) and isinstance(s.value, ast.Call) and isinstance(s.value.func, ast.Attribute)
                and s.value.func.attr == "append" and s.value.args and X(s.value.args[0]) == f"cvr_list[{sv}]"]
        CS = norm(apps[0].value.func.value) if len(apps) == 1 else None  # the list of sampled CVRs
        ok = len(apps) == 1
        # the card identifier (the key of the selection-order record) derives from the CVR's id on every path
        recs = record_field_values(l, "selection_order")
        keys = [X(t.slice) for t, v, s in recs]
        ok = ok and bool(keys) and all(_derives_from_text(t.slice, fn, f"cvr_list[{sv}].id", (iv, sv)) for t, v, s in recs)
        detail = dict(card_id=[k[:160] for k in keys])
        rets = [r for r in walk_local(fn) if isinstance(r, ast.Return)]
        ok = ok and len(rets) == 1 and isinstance(rets[0].value, ast.Tuple) and CS in [norm(e) for e in rets[0].value.elts]
        sorts = [c for c in walk_local(fn) if isinstance(c, ast.Call) and isinstance(c.func, ast.Attribute) and c.func.attr in ("sort", "reverse") and norm(c.func.value) == CS]
        ok = ok and not sorts
    chk.ob("C17.R2", where, "cvrs-in-selection-order-with-matching-ids", ok,
           "the CVR-driven lookup returns cvr_list[s] for each s in sample order (never re-sorted) and derives the card identifier from that CVR's id",
           node=fn, strength="N", **detail)


def _derives_from_text(expr, fn, text, stop, seen=()):
    """is `expr` a function of the expression `text` *alone*, on every path: after expanding single-definition temporaries,
    every occurrence of the object `text` is rooted at (here: cvr_list[s]) is an occurrence of `text` itself (cvr_list[s].id, not
    cvr_list[s].card_in_batch), at least one such occurrence exists, and every other name it reads is either a name all of whose
    definitions are again functions of `text` alone, or not a local of the function at all (str, int, ...)"""
    x = expand_locals(expr, fn, stop=stop)
    base = text.rsplit(".", 1)[0]          # cvr_list[s]
    attr = text.rsplit(".", 1)[1]          # id
    found = [False]
    ok = [True]
    locals_ = {n.id for n in ast.walk(fn) if isinstance(n, ast.Name) and isinstance(n.ctx, ast.Store)} | {a.arg for a in fn.args.args}

    def walk(n, par=None):
        if norm(n) == base and isinstance(n, ast.Subscript):
            if isinstance(par, ast.Attribute) and par.attr == attr:
                found[0] = True
            else:
                ok[0] = False
            return
        if isinstance(n, ast.Name) and isinstance(n.ctx, ast.Load) and n.id in locals_ and n.id not in stop:
            if n.id in seen:
                ok[0] = False
                return
            defs = []
            for s_ in walk_local(fn):
                if isinstance(s_, ast.Assign):
                    for t in s_.targets:
                        if any(isinstance(y, ast.Name) and y.id == n.id and isinstance(y.ctx, ast.Store) for y in ast.walk(t)):
                            defs.append(s_.value)
            if not defs or not all(_derives_from_text(d, fn, text, stop, seen + (n.id,)) for d in defs):
                ok[0] = False
            else:
                found[0] = True
            return
        for c in ast.iter_child_nodes(n):
            walk(c, n)
    walk(x)
    return ok[0] and found[0]


def _derives_from(expr, loop, name):
    """does expr depend (through local assignments in the loop) on `name`?"""
    seen = set()
    work = [n.id for n in ast.walk(expr) if isinstance(n, ast.Name)]
    while work:
        x = work.pop()
        if x == name:
            return True
        if x in seen:
            continue
        seen.add(x)
        for s in walk_local(loop):
            if isinstance(s, ast.Assign):
                tg = []
                for t in s.targets:
                    tg += [n.id for n in ast.walk(t) if isinstance(n, ast.Name)]
                if x in tg:
                    work += [n.id for n in ast.walk(s.value) if isinstance(n, ast.Name)]
    return False


_PANDAS = {}


def pandas_defs():
    """Names of methods of DataFrame/NDFrame and of top-level pandas functions, read from the installed pandas source."""
    if _PANDAS:
        return _PANDAS
    cands = glob.glob("/venv/lib/python3*/site-packages/pandas/core/frame.py")
    if not cands:
        raise AnalysisError("installed pandas source not found under /venv (needed to resolve DataFrame methods)")
    core = Path(cands[0]).parent
    meths = set()
    for f, cls in ((core / "frame.py", "DataFrame"), (core / "generic.py", "NDFrame"), (core / "base.py", None), (core / "arraylike.py", "OpsMixin")):
        if not f.exists():
            continue
        tree = ast.parse(f.read_text())
        for n in tree.body:
            if isinstance(n, ast.ClassDef) and (cls is None or n.name == cls):
                for m in n.body:
                    if isinstance(m, (ast.FunctionDef, ast.AsyncFunctionDef)):
                        meths.add(m.name)
                    if isinstance(m, ast.Assign):
                        for t in m.targets:
                            if isinstance(t, ast.Name):
                                meths.add(t.id)
                    if isinstance(m, ast.AnnAssign) and isinstance(m.target, ast.Name):
                        meths.add(m.target.id)
    top = set()
    init = core.parent / "__init__.py"
    tree = ast.parse(init.read_text())
    for n in ast.walk(tree):
        if isinstance(n, ast.ImportFrom):
            for a in n.names:
                top.add(a.asname or a.name)
    version = "?"
    for vf in (core.parent / "_version.py", core.parent / "_version_meson.py"):
        if vf.exists():
            import re
            m = re.search(r'version["\']?\s*[:=]\s*["\']([0-9][^"\']*)', vf.read_text())
            if m:
                version = m.group(1)
    _PANDAS.update(methods=meths, top=top, version=version, path=str(core.parent))
    return _PANDAS


def prep_rule(chk, name, fm):
    rel = fm["rel"]
    fn = chk.fn(rel, f"{name}.prep_manifest")
    where = f"{rel}:{name}.prep_manifest"
    col = fm["count_col"]
    # manifest_cards = manifest[col].sum()
    mc = [s for s in fn.body if isinstance(s, ast.Assign) and isinstance(s.targets[0], ast.Name) and norm(s.value) == norm(f"manifest['{col}'].sum()")]
    MCN = norm(mc[0].targets[0]) if len(mc) == 1 else "manifest_cards"
    rets0 = [r for r in walk_local(fn) if isinstance(r, ast.Return) and isinstance(r.value, ast.Tuple) and len(r.value.elts) == 3]
    PHN = norm(rets0[0].value.elts[2]) if rets0 else "phantoms"
    ok = len(mc) == 1
    chk.ob("C17.R3", where, "manifest_cards=sum-of-counts", ok, "manifest_cards is the sum of the per-batch card counts", node=mc[0] if mc else fn, strength="N")
    asserts = [s for s in fn.body if isinstance(s, ast.Assert)]

    def asserted(src):
        """the assert whose condition (a named condition expanded) is equivalent to `src`"""
        want_ = spec.cond_term(src)
        for a in asserts:
            try:
                c_ = Tx().cond(expand_locals(a.test, fn, stop=(MCN,)))
            except symx.Unsupported:
                continue
            if c_ not in (True, False) and aud.cond_equiv(c_, want_)[0]:
                return a
        return None
    a1 = asserted(f"{MCN} <= max_cards")
    a2 = asserted(f"{MCN} >= n_cvrs")
    branch = [s for s in fn.body if isinstance(s, ast.If) and MCN in norm(s.test)]
    cum = [s for s in fn.body if isinstance(s, ast.Assign) and norm(s.targets[0]) in ("manifest['cum_cards']",)]
    first_effect = min([s.lineno for s in branch + cum] or [10 ** 9])
    ok = a1 is not None and a2 is not None and a1.lineno < first_effect and a2.lineno < first_effect and mc and mc[0].lineno < a1.lineno
    chk.ob("C17.R3", where, "sanity-assertions-first", bool(ok),
           "a manifest larger than max_cards or smaller than the number of CVRs is refused before anything else happens", node=a1 or fn)
    ok = False
    detail = {}
    if len(branch) == 1:
        b = branch[0]
        c = Tx().cond(b.test)
        want = spec.cond_term(f"{MCN} < max_cards")
        okc = aud.cond_equiv(c, want)[0]
        ph = [s for s in b.body if isinstance(s, ast.Assign) and norm(s.targets[0]) == PHN]
        okp = False
        if len(ph) == 1:
            v = Tx().expr(ph[0].value)
            okp = isinstance(v, E) and is_zero(v.e - (S("max_cards") - S(MCN)))
        okrow = False
        for d in [n for n in ast.walk(b) if isinstance(n, ast.Dict)]:
            for k, v in zip(d.keys, d.values):
                if isinstance(k, ast.Constant) and k.value == col and norm(v) == PHN:
                    okrow = True
        ph0 = [s for s in fn.body if isinstance(s, ast.Assign) and norm(s.targets[0]) == PHN and s.lineno < b.lineno]
        # phantoms = 0 otherwise: set before the branch, or in its else
        ok0 = (len(ph0) == 1 and norm(ph0[0].value) == "0" and not b.orelse) or \
              (not ph0 and len(b.orelse) == 1 and isinstance(b.orelse[0], ast.Assign) and norm(b.orelse[0].targets[0]) == PHN and norm(b.orelse[0].value) == "0")
        re_as = [s for s in b.body if isinstance(s, ast.Assign) and norm(s.targets[0]) == "manifest"]
        ok = okc and okp and okrow and ok0 and len(re_as) == 1
        detail = dict(condition=norm(b.test), phantoms=norm(ph[0].value) if ph else None)
        # API resolution of the appending call
        pd_ = pandas_defs()
        unresolved = []
        calls = [c for c in ast.walk(fn) if isinstance(c, ast.Call) and isinstance(c.func, ast.Attribute)]
        n_res = 0
        for c2 in calls:
            base = norm(c2.func.value)
            if base == "manifest":
                n_res += 1
                if c2.func.attr not in pd_["methods"]:
                    unresolved.append(f"DataFrame.{c2.func.attr}")
            if base in ("pd", "pandas"):
                n_res += 1
                if c2.func.attr not in pd_["top"]:
                    unresolved.append(f"pandas.{c2.func.attr}")
        chk.ob("C17.R3", where, "append-api-exists", not unresolved and n_res >= 1,
               "every pandas method called on the manifest (and every pandas.* function) resolves to a definition in the installed pandas",
               node=re_as[0] if re_as else b, unresolved=unresolved, pandas=pd_["version"], pandas_path=pd_["path"], calls_resolved=n_res)
        chk.call_sites.extend(sorted({norm(c2.func) for c2 in calls if norm(c2.func.value) in ("manifest", "pd", "pandas")}))
    chk.ob("C17.R3", where, "phantom-batch", ok,
           "exactly when manifest_cards < max_cards a batch with max_cards - manifest_cards cards is appended (phantoms = 0 otherwise)",
           node=branch[0] if branch else fn, **detail)
    ok = len(cum) == 1 and norm(cum[0].value) in (norm(f'manifest["{col}"].cumsum()'), norm(f"manifest['{col}'].cumsum()")) and branch \
        and cum[0].lineno > branch[0].end_lineno
    chk.ob("C17.R3", where, "cum_cards-after-append", bool(ok),
           "cumulative counts are computed from the count column after the phantom batch has been appended", node=cum[0] if cum else fn)
    rets = [r for r in walk_local(fn) if isinstance(r, ast.Return)]
    ok = len(rets) == 1 and [norm(e) for e in rets[0].value.elts] == ["manifest", MCN, PHN]
    chk.ob("C17.R3", where, "returns", ok, "returns (manifest, manifest_cards, phantoms)", node=rets[0] if rets else fn, strength="N")
