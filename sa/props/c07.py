"""C07 -- consistent sampling gives every contest the first cards of its own random order."""
from __future__ import annotations

import ast

import sympy as sp

from ..core import AnalysisError, norm
from .. import symx, spec, aud
from ..aud import REL, W
from ..symx import Tx, E, I, S, fmt_cond, c_and, c_or, c_not
from ..canon import expand_locals, record_field_values
from ..astutil import walk_local, stores, parent, ancestors, attr_stores
from ..cfg import whole_collection, paths

DOM = "shangrla/formats/Dominion.py"
HART = "shangrla/formats/Hart.py"

META = dict(
    text="The prefix property follows by a short hand argument (recorded in DESIGN.md) from structural facts of "
         "consistent_sampling that are decided on the AST: (R1) the walk visits the cards in ascending sample-number order, "
         "starting at the first card, advancing by exactly one on every path; (R2) a card is taken iff it lists a contest that is "
         "still in progress (count < sample_size); (R3) for the card just visited, count and threshold of every listed in-progress "
         "contest move together, so the threshold is the sample number of the contest's n_c-th card; (R4, P) the selection reads "
         "only sample numbers and which contests a card lists, and writes only `sampled`; (R5, P) sample numbers are assigned "
         "once per card in list order from the PRNG alone; (R6) selection order becomes data order.",
    note="N for R1-R3/R6 (necessary structure; the prefix statement itself is the hand argument), P for the information-flow "
         "clauses R4/R5. Assumes the contests dict is keyed by Contest.id and distinct sample numbers; determinism of "
         "cryptorandom is third-party.",
    technique="walk-order / take-iff / pairing rules over the AST, decision tables of the guards, effects (read/write sets)",
)
META["text"] += " (R7 = C06.R4) the consumer of the threshold keeps, position by position, exactly the cards whose sample number is within the contest's threshold."
META["text"] += ' R1 finds the walk sequence by role and requires it to be all indices in ascending sample-number order (a partial sort is refuted); the reported sample may be the sorted set of selected cards; R6 also: the drawn sample is enumerated as given (order-preserving copies accepted).'
META["text"] += ' R4 also: consistent_sampling and assign_sample_nums keep no state between calls (no cached order). R6 also: both samples are sorted on every call (no early exit, no conditional sort).'
META["text"] += ' (R8, N, frame condition on arguments) the draw writes sample numbers, flags and thresholds and nothing else: every function in scope changes the objects it is handed only in the ways confirmed for it (aud.ARG_EFFECTS); references are followed through aliases, elements, attributes, loop variables, .get/.items/.values and np.asarray, resolved by the bindings that reach the use.'


def card_expr(fn):
    return "cvr_list[sorted_cvr_indices[inx]]"


def sampling_facts(chk):
    """Locate the constructs of CVR.consistent_sampling by role, not by the spelling of locals (shared with C10)."""
    fn = chk.fn(REL, "CVR.consistent_sampling", canonical=True)
    params = [a.arg for a in fn.args.args]
    if not all(p in params for p in ("cvr_list", "contests", "sampled_cvr_indices")):
        raise AnalysisError("consistent_sampling: signature changed")
    f = {"fn": fn}
    whiles = [s for s in fn.body if isinstance(s, ast.While)]
    if len(whiles) != 1:
        raise AnalysisError("consistent_sampling: expected exactly one while loop")
    f["while"] = whiles[0]
    # the progress lambda: the one that reads .sample_size
    lam = None
    for st in fn.body:
        if isinstance(st, ast.Assign) and isinstance(st.value, ast.Lambda) and "sample_size" in norm(st.value):
            lam = st
    if lam is None:
        raise AnalysisError("consistent_sampling: in-progress predicate not found")
    f["progress_name"] = norm(lam.targets[0])
    f["progress_lambda"] = lam.value
    # the counter it reads: NAME[...] inside the lambda body
    subs = [n for n in ast.walk(lam.value.body) if isinstance(n, ast.Subscript) and isinstance(n.value, ast.Name)]
    f["counter"] = subs[0].value.id if subs else None
    # sorted order: the assignment whose value sorts cvr_list
    so = [st for st in fn.body if isinstance(st, ast.Assign) and any(
        isinstance(c, ast.Call) and norm(c.func) == "sorted" and c.args and "cvr_list" in norm(c.args[0]) for c in ast.walk(st.value))
        and st.lineno < whiles[0].lineno]
    incs = [s for s in walk_local(whiles[0]) if isinstance(s, ast.AugAssign) and isinstance(s.target, ast.Name)]
    names = {s.target.id for s in incs}
    if len(so) != 1:
        # by role: the sequence the walk index runs over.  Whatever builds it is then judged by R1 (a partial sort, a heap, a
        # pre-filtered list is not "all cards in ascending sample-number order")
        seqs = {n.value.id for n in walk_local(whiles[0]) if isinstance(n, ast.Subscript) and isinstance(n.value, ast.Name)
                and isinstance(n.slice, ast.Name) and n.slice.id in names}
        so = [st for st in fn.body if isinstance(st, ast.Assign) and len(st.targets) == 1 and isinstance(st.targets[0], ast.Name)
              and st.targets[0].id in seqs and st.lineno < whiles[0].lineno][-1:]
        if len(so) != 1:
            raise AnalysisError("consistent_sampling: the sequence the walk runs over was not found")
    f["sorted_stmt"] = so[0]
    f["sorted_name"] = norm(so[0].targets[0])
    # walk index: the name augmented in the while body that indexes the sorted order
    idx_names = [n for n in names if f"{f['sorted_name']}[{n}]" in norm(whiles[0])]
    if len(idx_names) != 1:
        raise AnalysisError("consistent_sampling: walk index not found")
    f["inx"] = idx_names[0]
    f["card_index"] = f"{f['sorted_name']}[{f['inx']}]"
    f["card"] = f"cvr_list[{f['card_index']}]"
    # the set of selected cards: the receiver of `.add(<current card index>)`, or (older shape) the list appended to
    adds = [c for c in walk_local(whiles[0]) if isinstance(c, ast.Call) and isinstance(c.func, ast.Attribute) and c.func.attr in ("add", "append")
            and c.args and norm(c.args[0]) == f["card_index"]]
    f["takes"] = adds
    f["selected"] = norm(adds[0].func.value) if adds else None
    rets = [r for r in walk_local(fn) if isinstance(r, ast.Return)]
    f["returns"] = rets
    return f


def progress_cond(f, con):
    lam = f["progress_lambda"]
    p = lam.args.args[0].arg
    return Tx(env={p: E(S(con))}).cond(lam.body)


def tx_with_progress(f, extra=None):
    """Tx in which calls of the progress lambda are expanded."""
    tx = Tx(inline={f["progress_name"]: f["progress_lambda"]}, env=extra or {})
    return tx


def run(chk):
    from .. import aud as _aud8
    _aud8.argument_effects(chk, 'C07.R8', 'shangrla/core/Audit.py', 'the draw writes sample numbers, flags and thresholds and nothing else', only=lambda q: q.startswith('CVR.'))
    _aud8.argument_effects(chk, 'C07.R8', 'shangrla/core/Audit.py', 'the draw writes sample numbers, flags and thresholds and nothing else', only=lambda q: q == 'Assertion.mvrs_to_data')
    chk.explain(
        "R1 walk order (ascending sort by sample_num only, start at 0, +1 on every path); R2 take-iff guard as a decision table; R3 "
        "count and threshold updated under one guard for the card just visited, for every contest; R4 read/write sets of the "
        "selection; R5 assign_sample_nums effects; R6 selection order recorded from enumerate(sample) and used to sort MVRs and "
        "CVRs identically."
    )
    chk.trust("sorted() is stable and ascending unless reverse=True", "symx decision tables")
    chk.assume("the contests dict is keyed by Contest.id (the counter is written under the dict key and read under con.id)",
               "sample numbers are distinct")
    r4_state(chk)  # first: stands even if the structure below is not recognised
    f = sampling_facts(chk)
    r1(chk, f)
    r2(chk, f)
    result_rule(chk, f, "C07.R1")
    r3(chk, f)
    r4(chk, f)
    r5(chk)
    r6(chk)
    # R7: "the data later used for that contest's assertions are exactly those n_c cards in that order": the consumer of the
    # threshold keeps a card iff its sample number is within the contest's threshold, position by position (C06.R4)
    from . import c06
    chk.borrow(c06.r4, {"C06.R4": "C07.R7"})


def r1(chk, f):
    fn, where = f["fn"], W("CVR.consistent_sampling")
    st = f["sorted_stmt"]
    call = ([c for c in ast.walk(st.value) if isinstance(c, ast.Call) and norm(c.func) == "sorted"] + [None])[0]
    kw = {k.arg: k.value for k in call.keywords} if call is not None else {}
    ok = False
    detail = {"sorted": norm(call)[:120]} if call is not None else {"sequence": norm(st.value)[:160]}
    if call is not None and "key" in kw and isinstance(kw["key"], ast.Lambda) and "reverse" not in kw and len(call.args) == 1:
        lam = kw["key"]
        p = lam.args.args[0].arg
        body = norm(lam.body)
        arg = norm(call.args[0])
        if arg == "enumerate(cvr_list)" and body == f"{p}[1].sample_num":
            # the comprehension keeps the index
            v = st.value
            if isinstance(v, ast.ListComp):
                elt, tgt, it, ifs = aud.single_gen(v)
                ok = it is call and not ifs and ((isinstance(tgt, ast.Tuple) and norm(elt) == norm(tgt.elts[0])) or
                                                 (isinstance(tgt, ast.Name) and norm(elt) == f"{tgt.id}[0]"))  # the index of the (index, card) pair
        if arg in ("range(len(cvr_list))",) and body == f"cvr_list[{p}].sample_num" and st.value is call:
            ok = True
    chk.ob("C07.R1", where, "ascending-by-sample_num", ok,
           "the walk sequence is all card indices sorted ascending by sample_num alone (no reverse, no filter)", node=st, strength="N", **detail)
    # start at 0
    inx = f["inx"]
    inits = [s for s in fn.body if isinstance(s, ast.Assign) and norm(s.targets[0]) == inx and s.lineno < f["while"].lineno]
    ok = len(inits) == 1 and norm(inits[0].value) == "0"
    chk.ob("C07.R1", where, "walk-starts-at-first-card", ok,
           "the walk index starts at position 0 of the sorted order", node=inits[-1] if inits else fn, strength="N",
           init=norm(inits[-1].value) if inits else None)
    # +1 on every path
    w = f["while"]
    ps = paths(w.body)
    bad = []
    for p in ps:
        incs = [s for s in (e[1] for e in p.events if e[0] == "stmt") if isinstance(s, ast.AugAssign) and norm(s.target) == inx]
        others = [s for s in (e[1] for e in p.events if e[0] == "stmt") if isinstance(s, ast.Assign) and any(norm(t) == inx for t in s.targets)]
        if len(incs) != 1 or norm(incs[0].value) != "1" or not isinstance(incs[0].op, ast.Add) or others or p.exit != "fall":
            bad.append(p.exit)
    nested = [s for l in walk_local(w) if isinstance(l, ast.For) for s in ast.walk(l) if isinstance(s, (ast.AugAssign, ast.Assign))
              and any(norm(t) == inx for t in ([s.target] if isinstance(s, ast.AugAssign) else s.targets))]
    chk.ob("C07.R1", where, "advance-by-one-on-every-path", not bad and not nested and len(ps) >= 2,
           "the walk index advances by exactly one on every path through the loop body (taken or skipped card)", node=w, strength="N",
           paths=len(ps), bad_paths=len(bad))


def result_rule(chk, f, rule):
    """the reported sample = the sorted order filtered by membership in the selection (each index once, ascending sample number)"""
    fn, where = f["fn"], W("CVR.consistent_sampling")
    rets = f["returns"]
    ok = False
    detail = {}
    if len(rets) == 1 and parent(rets[0]) is fn:
        rv = rets[0].value
        expr = rv
        if isinstance(rv, ast.Name):
            defs = [s for s in fn.body if isinstance(s, ast.Assign) and norm(s.targets[0]) == rv.id and s.lineno > f["while"].lineno]
            expr = defs[-1].value if defs else None
        if isinstance(expr, ast.ListComp):
            elt, tgt, it, ifs = aud.single_gen(expr)
            detail["result"] = norm(expr)
            ok = norm(elt) == norm(tgt) and norm(it) == f["sorted_name"] and len(ifs) == 1 and f["selected"] is not None \
                and norm(ifs[0]) == f"{norm(tgt)}in{f['selected']}"
        elif isinstance(expr, ast.Call) and norm(expr.func) == "sorted" and len(expr.args) == 1 and f["selected"] is not None \
                and norm(expr.args[0]) == f["selected"]:
            # the same thing said directly: the *set* of selected cards, sorted by sample number
            kw = {k.arg: k.value for k in expr.keywords}
            inits = [s for s in fn.body if isinstance(s, ast.Assign) and norm(s.targets[0]) == f["selected"] and s.lineno < f["while"].lineno]
            is_set = len(inits) == 1 and ((isinstance(inits[0].value, ast.Call) and norm(inits[0].value.func) == "set") or isinstance(inits[0].value, (ast.Set, ast.SetComp)))
            detail["result"] = norm(expr)
            if set(kw) == {"key"} and isinstance(kw["key"], ast.Lambda) and is_set:
                p_ = kw["key"].args.args[0].arg
                ok = norm(kw["key"].body) == f"cvr_list[{p_}].sample_num"
    chk.ob(rule, where, "reported-in-sample-number-order-without-repetition", ok,
           "the reported sample is the sorted (sample-number) order filtered by membership in the set of selected cards: every selected "
           "card exactly once, in sample-number order -- in first and in continued rounds alike", node=rets[0] if rets else fn, strength="N", **detail)


def any_guard(node):
    """any([... for c, con in contests.items()]) -> (elt, convar) or None"""
    if isinstance(node, ast.Call) and norm(node.func) == "any" and len(node.args) == 1 and isinstance(node.args[0], (ast.ListComp, ast.GeneratorExp)):
        comp = node.args[0]
        elt, tgt, it, ifs = aud.single_gen(comp)
        if not ifs and norm(it) in ("contests.items()", "contests.values()"):
            con = norm(tgt.elts[1]) if isinstance(tgt, ast.Tuple) else norm(tgt)
            return elt, con
    return None


def r2(chk, f):
    fn, where, w = f["fn"], W("CVR.consistent_sampling"), f["while"]
    # loop condition: any contest in progress
    test = w.test
    if isinstance(test, ast.BoolOp) and isinstance(test.op, ast.And):
        # a bounds guard on the walk index (`inx < len(<order>)`) cannot end the walk early for sample sizes within the cards
        # available, which is what the property quantifies over
        bound = (f"{f['inx']}<len({f['sorted_name']})", f"len({f['sorted_name']})>{f['inx']}", f"{f['inx']}<len(cvr_list)", f"len(cvr_list)>{f['inx']}")
        rest = [v for v in test.values if norm(v) not in bound]
        if len(rest) == 1:
            test = rest[0]
    g = any_guard(test)
    ok = False
    if g:
        elt, con = g
        got = tx_with_progress(f).cond(elt)
        want = progress_cond(f, con)
        ok = aud.cond_equiv(got, want)[0]
    chk.ob("C07.R2", where, "loop-while-any-in-progress", ok,
           "the walk continues exactly while some contest is still in progress", node=w, strength="N")
    prog = Tx(env={"c": E(S("con"))}).cond(f["progress_lambda"].body) if f["progress_lambda"].args.args[0].arg == "c" else progress_cond(f, "con")
    want_p = spec.cond_term(f"{f['counter']}[con.id] < con.sample_size")
    chk.ob("C07.R2", where, "in-progress=count<sample_size", aud.cond_equiv(progress_cond(f, "con"), want_p)[0],
           "a contest is in progress iff its current count is strictly below its sample size", node=f["progress_lambda"], strength="N",
           extracted=fmt_cond(progress_cond(f, "con")))
    # the take guard
    takes = [s for s in w.body if isinstance(s, ast.If) and any_guard(s.test)]
    ok = False
    detail = {}
    if len(takes) == 1:
        t = takes[0]
        elt, con = any_guard(t.test)
        got = tx_with_progress(f).cond(elt)
        want = c_and(progress_cond(f, con), Tx().cond(ast.parse(f"{f['card']}.has_contest({con}.id)", mode="eval").body))
        okg, n, cex = aud.cond_equiv(got, want)
        apps = [c for c in f["takes"] if any(a is t for a in ancestors(c))]
        in_body = all(not any(a in t.orelse for a in ancestors(c)) for c in apps)
        other_apps = [c for c in f["takes"] if c not in apps]
        # every other way of putting an index into the selection (besides the initial copy of the earlier sample) is forbidden
        sel = f["selected"]
        foreign = [norm(c)[:60] for c in walk_local(fn) if isinstance(c, ast.Call) and isinstance(c.func, ast.Attribute) and sel
                   and norm(c.func.value) == sel and c.func.attr in ("add", "append", "update", "extend", "insert") and c not in f["takes"]]
        ok = okg and len(apps) == 1 and in_body and not other_apps and not t.orelse and not foreign
        detail = dict(guard=fmt_cond(got), rows=n, selected=norm(apps[0]) if apps else None, other_insertions=foreign)
        f["take"] = t
    chk.ob("C07.R2", where, "take-iff-lists-unfinished-contest", ok,
           "the current card enters the selection only under the guard `some contest is in progress and the card lists it`, and nowhere "
           "else; what enters is the current card's index", node=takes[0] if takes else w, strength="N", **detail)
    chk.exhaustive = True


def r3(chk, f):
    fn, where, w = f["fn"], W("CVR.consistent_sampling"), f["while"]
    t = f.get("take")
    ok = False
    detail = {}
    if t is not None:
        loops = [l for l in t.body if isinstance(l, ast.For)]
        if len(loops) == 1 and whole_collection(loops[0].iter) and norm(loops[0].iter) == "contests.items()":
            l = loops[0]
            key, con = [norm(e) for e in l.target.elts]
            ifs = [s for s in l.body if isinstance(s, ast.If)]
            if len(l.body) == 1 and len(ifs) == 1 and not ifs[0].orelse:
                i = ifs[0]
                got = tx_with_progress(f).cond(i.test)
                want = c_and(progress_cond(f, con), Tx().cond(ast.parse(f"{f['card']}.has_contest({con}.id)", mode="eval").body))
                okg = aud.cond_equiv(got, want)[0]
                thr = [(tt, v, s) for tt, v, s in stores(i) if isinstance(tt, ast.Attribute) and tt.attr == "sample_threshold"]
                cnt = [s for s in i.body if isinstance(s, ast.AugAssign) and norm(s.target) in (f"{f['counter']}[{key}]", f"{f['counter']}[{con}.id]")
                       and isinstance(s.op, ast.Add) and norm(s.value) == "1"]
                ok = okg and len(thr) == 1 and norm(thr[0][0].value) == con and norm(thr[0][1]) == f"{f['card']}.sample_num" \
                    and len(cnt) == 1 and parent(thr[0][2]) is i and parent(cnt[0]) is i
                detail = dict(guard=fmt_cond(got), threshold=norm(thr[0][2])[:100] if thr else None, count=norm(cnt[0]) if cnt else None)
                esc = [n for n in walk_local(l) if isinstance(n, (ast.Break, ast.Continue))]
                ok = ok and not esc
        other_thr = [s for tt, v, s in stores(fn) if isinstance(tt, ast.Attribute) and tt.attr == "sample_threshold"]
        ok = ok and len(other_thr) == 1
    chk.ob("C07.R3", where, "count-and-threshold-move-together", ok,
           "inside the taken branch, for every contest that is in progress and listed on the card just visited, the count is "
           "incremented and the threshold is set to that card's sample_num, under one guard; no other store to the threshold",
           node=t if t is not None else w, strength="N", **detail)


def attr_reads_of(node, bases):
    out = set()
    for n in ast.walk(node):
        if isinstance(n, ast.Attribute) and isinstance(n.ctx, ast.Load):
            b = norm(n.value)
            if any(b == x or b.startswith(x) for x in bases):
                out.add(n.attr)
    return out


def r4_state(chk):
    aud.keeps_no_state(chk, "C07.R4", REL, ["CVR.consistent_sampling", "CVR.assign_sample_nums", "CVR.has_contest"],
                       "the selection is a function of the cards, the contests and the earlier selection handed in")


def r4(chk, f):
    fn, where = f["fn"], W("CVR.consistent_sampling")
    # every expression denoting a card: cvr_list[...] , and the element of enumerate(cvr_list) inside the key lambda
    reads = set()
    for n in ast.walk(fn):
        if isinstance(n, ast.Attribute) and isinstance(n.ctx, ast.Load):
            b = n.value
            if isinstance(b, ast.Subscript) and norm(b.value) == "cvr_list":
                reads.add(n.attr)
            if isinstance(b, ast.Subscript) and isinstance(b.value, ast.Name) and norm(b.slice) == "1":
                lam = next((a for a in ancestors(n) if isinstance(a, ast.Lambda)), None)
                if lam is not None and b.value.id in [a.arg for a in lam.args.args]:
                    reads.add(n.attr)
    writes = set()
    for t, v, s in stores(fn):
        if isinstance(t, ast.Attribute) and isinstance(t.value, ast.Subscript) and norm(t.value.value) == "cvr_list":
            writes.add(t.attr)
    # has_contest must itself read only the key set of votes
    hc = chk.fn(REL, "CVR.has_contest")
    rets = [r for r in walk_local(hc) if isinstance(r, ast.Return)]
    hc_ok = len(rets) == 1 and norm(rets[0].value) in ("contest_idinself.votes", "contest_idinself.votes.keys()")
    ok = reads <= {"sample_num", "has_contest"} and writes <= {"sampled"} and hc_ok
    chk.ob("C07.R4", where, "reads-only-styles-and-sample-numbers", ok,
           "the selection reads of a card only its sample_num and (through has_contest) which contests it lists, and writes only "
           "`sampled`: no dependence on vote contents, ids or flags", node=fn, reads=sorted(reads), writes=sorted(writes),
           has_contest=norm(rets[0].value) if rets else None)


def r5(chk):
    fn = chk.fn(REL, "CVR.assign_sample_nums", canonical=True)
    where = W("CVR.assign_sample_nums")
    loops = [l for l in fn.body if isinstance(l, ast.For)]
    ok = False
    detail = {}
    if len(loops) == 1 and norm(loops[0].iter) == "cvr_list":
        l = loops[0]
        v = norm(l.target)
        sts = [(t, val, s) for t, val, s in stores(l)]
        if len(sts) == 1 and len(l.body) == 1:
            t, val, s = sts[0]
            reads = {n.attr for n in ast.walk(val) if isinstance(n, ast.Attribute) and norm(n.value) == v}
            uses_card = any(isinstance(n, ast.Name) and n.id == v for n in ast.walk(val))
            # unconditional (a guard such as `if cvr.sample_num is None` would make the numbers depend on the cards' history
            # and leave the PRNG un-advanced for some cards), and computed from the generator parameter alone
            ok = norm(t) == f"{v}.sample_num" and not uses_card and "prng" in norm(val) and parent(s) is l
            detail = dict(statement=norm(s))
    chk.ob("C07.R5", where, "one-number-per-card-from-prng-only", ok,
           "each card, in list order, gets one sample number computed from the PRNG alone (no attribute of the card is read)",
           node=fn, **detail)


def r6(chk):
    for rel, q in ((DOM, "Dominion.sample_from_cvrs"), (HART, "Hart.sample_from_cvrs"), (DOM, "Dominion.sample_from_manifest"),
                   (HART, "Hart.sample_from_manifest")):
        fn = chk.fn(rel, q)
        loops = [l for l in fn.body if isinstance(l, ast.For) and norm(l.iter) == "enumerate(sample)"]
        ok = False
        if len(loops) == 1:
            l = loops[0]
            iv = norm(l.target.elts[0])
            so = record_field_values(l, "selection_order")  # (<dict>[<card id>], value, statement), any spelling of the record
            rets = [r for r in walk_local(fn) if isinstance(r, ast.Return) and isinstance(r.value, ast.Tuple)]
            returned = {norm(e) for r in rets for e in r.value.elts}
            base = so[0][0] if so else None
            ok = len(so) == 1 and norm(expand_locals(so[0][1], fn, stop=(iv,))) == iv and parent(so[0][2]) is l and isinstance(base, ast.Subscript) \
                and norm(base.value) in returned
            # ... of the sample *as drawn*: the parameter is not re-bound, sorted, de-duplicated or otherwise rearranged first
            keeps_order = lambda a_: isinstance(a_, ast.Assign) and isinstance(a_.value, ast.Call) and a_.value.args \
                and norm(a_.value.func) in ("list", "tuple", "np.asarray", "np.array", "np.asanyarray") and norm(a_.value.args[0]) == "sample"
            touched = [norm(x)[:60] for x in walk_local(fn) if
                       (isinstance(x, ast.Name) and x.id == "sample" and isinstance(x.ctx, (ast.Store, ast.Del)) and not keeps_order(parent(x))) or
                       (isinstance(x, ast.Call) and isinstance(x.func, ast.Attribute) and norm(x.func.value) == "sample"
                        and x.func.attr in ("sort", "reverse", "remove", "pop", "insert", "append", "extend", "clear"))]
            ok = ok and not touched
        chk.ob("C07.R6", f"{rel}:{q}", "selection-order-recorded", ok,
               "the position of each card in the drawn sample is recorded as its selection_order", node=fn, strength="N")
    # (putting a sample back into selection order is what prep_polling_sample does: a call of it counts as its body)
    fn = chk.fn_with(REL, "CVR.prep_comparison_sample", {"CVR.prep_polling_sample": (REL, "CVR.prep_polling_sample"),
                                                         "cls.prep_polling_sample": (REL, "CVR.prep_polling_sample")}, canonical=True)
    sorts = [c for c in walk_local(fn) if isinstance(c, ast.Call) and isinstance(c.func, ast.Attribute) and c.func.attr == "sort"]
    keys = {}
    for c in sorts:
        kw = {k.arg: expand_locals(k.value, fn, allow_lambda=True) for k in c.keywords}  # a key function may be named first
        if "key" in kw and "reverse" not in kw and isinstance(kw["key"], ast.Lambda):
            p = kw["key"].args.args[0].arg
            keys[norm(c.func.value)] = norm(kw["key"].body).replace(p + ".", "X.")
    ok = set(keys) == {"mvr_sample", "cvr_sample"} and len(set(keys.values())) == 1 and \
        list(keys.values())[0] in ('sample_order[X.id]["selection_order"]', "sample_order[X.id]['selection_order']")
    asserts = [norm(a.test) for a in walk_local(fn) if isinstance(a, ast.Assert)]
    ok_a = any("len(cvr_sample)==len(mvr_sample)" in a or "len(mvr_sample)==len(cvr_sample)" in a for a in asserts) and \
        any(".id==" in a for a in asserts)
    # ... on every call: nothing leaves the function before both sorts (samples that are "already paired" are not thereby in
    # selection order), and the sorts are not inside a branch
    early = [x for x in walk_local(fn) if isinstance(x, (ast.Return, ast.Raise)) and sorts and x.lineno < max(c.lineno for c in sorts)]
    cond_sorts = [c for c in sorts if not isinstance(parent(parent(c)), ast.FunctionDef)]
    ok = ok and not early and not cond_sorts
    chk.ob("C07.R6", W("CVR.prep_comparison_sample"), "same-sort-key", ok and ok_a,
           "MVRs and CVRs are sorted ascending by the same key, the recorded selection order, and equal length and pairwise equal ids "
           "are asserted", node=fn, strength="N", keys=keys)
    fn = chk.fn(REL, "CVR.prep_polling_sample")
    sorts = [c for c in walk_local(fn) if isinstance(c, ast.Call) and isinstance(c.func, ast.Attribute) and c.func.attr == "sort"]
    ok = len(sorts) == 1 and "selection_order" in norm(sorts[0]) and "reverse" not in [k.arg for k in sorts[0].keywords]
    chk.ob("C07.R6", W("CVR.prep_polling_sample"), "polling-sort-key", ok,
           "polling MVRs are put back into selection order", node=fn, strength="N")
