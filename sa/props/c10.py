"""C10 -- escalation only ever extends the evidence."""
from __future__ import annotations

import ast

from ..core import AnalysisError, norm
from .. import aud, symx, nnm, nnm_rules as NR
from ..aud import REL, W
from ..symx import Tx
from ..astutil import walk_local, stores, parent, ancestors
from . import c07, c09, c06, c05

META = dict(
    text="Structural necessary conditions (N) plus two exact clauses (P): (R1) the selection is a set initialised with the earlier "
         "rounds' cards that only grows, the walk restarts at the first card of the sorted order with a strictly increasing index, "
         "and the reported sample is the sorted order filtered by membership in that set (so no card is reported twice, every "
         "contest's cards keep their relative order from round to round, and a continued round equals a redrawn one); (R2, P) confirmation is sticky; "
         "(R3, P) under random order every test's overall p-value is the minimum over the history, so appending observations "
         "cannot raise it (with C05: old entries are unchanged); (R4, P by form) data order is preserved.",
    note="Not decided: that a from-scratch redraw with larger sizes is a superset (follows from C07 by hand) and the numeric "
         "monotonicity of the measured risk. D4 (continuation used a count as a position) and D16 (continued rounds appended new "
         "cards, breaking the per-contest order from the third round on) were repaired with fix: commits.",
    technique="append-uniqueness obligation (dominating membership test), who-may-write on the list, reuse of C07/C09/C11/C06 rules",
)
META["text"] += ' Sample numbers are re-derived from the seed and the position alone, never from what earlier rounds did to the records (= C07.R5).'
META["text"] += ' R4 also borrows C07.R6 (both samples sorted in place by the same selection-order key).'
META["text"] += ' R1 also borrows C07.R2 and C07.R4: the selection reads styles and sample numbers only, not the `sampled` flags an earlier round wrote.'
META["text"] += " R4 also borrows the threshold filter of C06.R4 (a card within one round's threshold is within the next round's)."
META["text"] += ' R4 also: the order recorded when the cards are looked up is the draw order (= C07.R6 selection order).'
META["text"] += " (R5, N, whole package) between rounds nothing re-configures an assertion's test object (who-may-write on its attributes): otherwise the earlier observations are re-scored and the history is not extended but rewritten."
META["text"] += " (R6, N, frame condition on arguments) a round leaves the earlier rounds' records as they were, apart from the confirmed fields: every function in scope changes the objects it is handed only in the ways confirmed for it (aud.ARG_EFFECTS); references are followed through aliases, elements, attributes, loop variables, .get/.items/.values and np.asarray, resolved by the bindings that reach the use."


def _norm_empty(e):
    """set([]) is set(); list() is []"""
    import sympy as sp
    repl = {}
    for sub in sp.preorder_traversal(e):
        if isinstance(sub, sp.core.function.AppliedUndef) and sub.func.__name__ == "set" and len(sub.args) == 1 and sp.sstr(sub.args[0]) in ("[]", "list()", "()"):
            repl[sub] = sp.Function("set")()
    return e.xreplace(repl) if repl else e


def run(chk):
    from .. import aud as _aud8
    _aud8.argument_effects(chk, 'C10.R6', 'shangrla/core/Audit.py', "a round leaves the earlier rounds' records as they were, apart from the confirmed fields", only=lambda q: q.startswith('CVR.'))
    _aud8.argument_effects(chk, 'C10.R6', 'shangrla/core/Audit.py', "a round leaves the earlier rounds' records as they were, apart from the confirmed fields", only=lambda q: q.startswith('Assertion.'))
    _aud8.argument_effects(chk, 'C10.R6', 'shangrla/core/Audit.py', "a round leaves the earlier rounds' records as they were, apart from the confirmed fields", only=lambda q: q.startswith('Audit.'))
    chk.explain(
        "R1 append-uniqueness and keep-earlier-cards on sampled_cvr_indices in consistent_sampling; R2 sticky confirmation "
        "(= C09.R3 and the who-may-write rule C09.R5); R3 overall p-value is the extremum of the history under random order for "
        "all six tests (= C11.R3, random_order=True rows); R4 data order preserved by mvrs_to_data (= C06.R4)."
    )
    chk.trust("set membership of hashable indices", "rules of C07, C09, C11, C06 as cited")
    chk.borrow(c07.r4_state, {"C07.R4": "C10.R1"})  # (first: stands even if the structure below is not recognised)
    aud.test_config_writers(chk, "C10.R5", "a later round re-evaluates the earlier observations with the same configuration")
    f = c07.sampling_facts(chk)
    fn, w = f["fn"], f["while"]
    where = W("CVR.consistent_sampling")
    lst = "sampled_cvr_indices"
    sel = f["selected"]
    # (a) the selection starts as the set of the earlier rounds' cards ...
    inits = [s for s in fn.body if isinstance(s, ast.Assign) and sel and norm(s.targets[0]) == sel and s.lineno < w.lineno]
    # the value the set has when the walk starts, as a term over the parameter (whatever way None is normalised: an `if` before,
    # a conditional expression, `or []`)
    tx = Tx()
    tx.post = _norm_empty
    from ..symx import E as _E, S as _S
    for a_ in fn.args.args:
        tx.env[a_.arg] = _E(_S(a_.arg))
    for st in fn.body:
        if st is w:
            break
        if isinstance(st, (ast.Assign, ast.If)) and not any(isinstance(n, (ast.Return, ast.Raise, ast.Lambda, ast.ListComp, ast.For)) for n in ast.walk(st)):
            saved = dict(tx.env)
            try:
                tx.block([st])
            except symx.Unsupported:
                tx.env = saved
    got = tx.env.get(sel) if sel else None
    ok_init = False
    if got is not None and len(inits) == 1:
        for src in (f"set() if {lst} is None else set({lst})", f"set({lst} or [])"):
            w_ = Tx()
            w_.post = _norm_empty
            try:
                want = w_.expr(ast.parse(src, mode="eval").body)
                if symx.equivalent(symx.map_e(got, _norm_empty), symx.map_e(want, _norm_empty))[0]:
                    ok_init = True
            except symx.Unsupported:
                pass
    chk.ob("C10.R1", where, "selection-starts-with-earlier-cards", ok_init,
           "the set of selected cards is initialised with the cards selected in earlier rounds (empty when none were supplied)",
           node=inits[0] if inits else fn, strength="N", init=repr(got)[:200] if got is not None else None)
    # ... and only ever grows
    bad = []
    for c in walk_local(fn):
        if isinstance(c, ast.Call) and isinstance(c.func, ast.Attribute) and sel and norm(c.func.value) == sel \
                and c.func.attr in ("remove", "discard", "pop", "clear", "difference_update", "intersection_update", "symmetric_difference_update"):
            bad.append(norm(c)[:80])
    for t, v, s in stores(fn):
        if sel and norm(t) == sel and s not in inits:
            bad.append(norm(s)[:80])
    chk.ob("C10.R1", where, "earlier-cards-kept", not bad and sel is not None,
           "nothing is ever removed from the set of selected cards and it is never rebound: each round's cards contain the previous round's",
           node=fn, strength="N", removals=bad)
    # (b) reported once each, in sample-number order: the order of a contest's cards never changes between rounds
    c07.result_rule(chk, f, "C10.R1")
    # (c) the walk restarts at the first card of the order (a count of selected cards is not a position in the order)
    starts0 = [s for s in fn.body if isinstance(s, ast.Assign) and norm(s.targets[0]) == f["inx"] and s.lineno < w.lineno]
    start_ok = len(starts0) == 1 and norm(starts0[0].value) == "0"
    chk.ob("C10.R1", where, "walk-restarts-at-first-card", start_ok,
           "in a continued round the walk starts again at position 0 of the sorted order, so counts and thresholds are recomputed exactly "
           "as a fresh draw computes them", node=starts0[-1] if starts0 else fn, strength="N", walk_start=norm(starts0[-1].value) if starts0 else None)
    # strictly increasing walk index and thresholds recomputed as in a fresh draw: C07.R1/R3
    chk.borrow(c07.r1, {"C07.R1": "C10.R1"}, f)
    f2 = c07.sampling_facts(chk)
    tmpf = {}
    def r23(c):
        c07.r2(c, f2)
        c07.r3(c, f2)
    chk.borrow(r23, {"C07.R3": "C10.R1", "C07.R2": "C10.R1"})
    # ... and the order being walked is the same in every round: sample numbers depend on the seed and the position only, never on
    # what earlier rounds did to the records (C07.R5)
    chk.borrow(c07.r5, {"C07.R5": "C10.R1"})
    # ... nor does the selection read what earlier rounds wrote on the records (`sampled`): a redrawn round selects what a first
    # round with the same sizes would (C07.R4)
    chk.borrow(lambda c: c07.r4(c, f2), {"C07.R4": "C10.R1"})
    # R2 sticky confirmation
    chk.borrow(c09.r_set_p_values, {"C09.R3": "C10.R2"})
    chk.borrow(c09.r_reset, {"C09.R5": "C10.R2"})
    # R3 overall == extremum under random order
    tfs = NR.facts(chk.idx)
    def r3(c):
        for name, tf in tfs.items():
            NR.rule_overall_matches_history(c, tf, "C11.R3")
    n = chk.borrow(r3, {"C11.R3": "C10.R3"})
    # only the random_order=True rows belong to C10 (the False rows are C11's, incl. K1)
    chk.obs = [o for o in chk.obs if not (o.rule == "C10.R3" and "random_order=False" in o.key)]
    chk.need("C10.R3", len([o for o in chk.obs if o.rule == "C10.R3"]), 6, "tests with an overall p-value")
    # ... and appending observations leaves the old entries unchanged: non-anticipation of every estimator, bet and test (C05)
    chk.borrow(c05.run, {"C05.R1": "C10.R3", "C05.R2": "C10.R3", "C05.R5": "C10.R3"})
    # R4 data order
    chk.borrow(c06.r4, {"C06.R4": "C10.R4"})
    chk.obs = [o for o in chk.obs if not (o.rule == "C10.R4" and o.key not in ("ascending-order", "aligned-pairs", "polling-data", "style-threshold-filter"))]  # (the filter: a card within the
    # threshold in one round is within the larger threshold of the next, so the data are extended, never replaced)
    # ... and the two samples are put into that order in place, by the same key (C07.R6)
    chk.borrow(c07.r6, {"C07.R6": "C10.R4"})
    # (the order recorded when the cards are looked up is the draw order: kept, so that a later round's cards come after)
