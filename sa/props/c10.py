"""C10 -- escalation only ever extends the evidence."""
from __future__ import annotations

import ast

from ..core import AnalysisError, norm
from .. import aud, symx, nnm, nnm_rules as NR
from ..aud import REL, W
from ..symx import Tx
from ..astutil import walk_local, stores, parent, ancestors
from . import c07, c09, c06

META = dict(
    text="Structural necessary conditions (N) plus two exact clauses (P): (R1) the list of selected cards is only ever appended "
         "to, every append is dominated by a test that the card is not among the cards selected earlier, and the walk restarts at "
         "the first card of the sorted order with a strictly increasing index (so no card is selected twice and every contest "
         "gets the first cards of its order in a continued round exactly as in a redrawn one); (R2, P) confirmation is sticky; "
         "(R3, P) under random order every test's overall p-value is the minimum over the history, so appending observations "
         "cannot raise it (with C05: old entries are unchanged); (R4, P by form) data order is preserved.",
    note="Not decided: that a from-scratch redraw with larger sizes is a superset (follows from C07 by hand) and the numeric "
         "monotonicity of the measured risk. D4 (continuation used a count as a position) was repaired with a fix: commit.",
    technique="append-uniqueness obligation (dominating membership test), who-may-write on the list, reuse of C07/C09/C11/C06 rules",
)


def run(chk):
    chk.explain(
        "R1 append-uniqueness and keep-earlier-cards on sampled_cvr_indices in consistent_sampling; R2 sticky confirmation "
        "(= C09.R3 and the who-may-write rule C09.R5); R3 overall p-value is the extremum of the history under random order for "
        "all six tests (= C11.R3, random_order=True rows); R4 data order preserved by mvrs_to_data (= C06.R4)."
    )
    chk.trust("set membership of hashable indices", "rules of C07, C09, C11, C06 as cited")
    f = c07.sampling_facts(chk)
    fn, w = f["fn"], f["while"]
    where = W("CVR.consistent_sampling")
    lst = "sampled_cvr_indices"
    # who may write the list: only append (+ the None-initialisation)
    bad = []
    for t, v, s in stores(fn):
        if norm(t) == lst:
            guard = parent(s)
            ok_init = isinstance(v, ast.List) and not v.elts and isinstance(guard, ast.If) and norm(guard.test) in (f"{lst}isNone", f"not{lst}")
            if not ok_init:
                bad.append(norm(s)[:80])
        elif isinstance(t, ast.Subscript) and norm(t.value) == lst:
            bad.append(norm(s)[:80])
    for c in walk_local(fn):
        if isinstance(c, ast.Call) and isinstance(c.func, ast.Attribute) and norm(c.func.value) == lst and c.func.attr not in ("append", "copy", "index", "count"):
            bad.append(norm(c)[:80])
    chk.ob("C10.R1", where, "earlier-cards-kept", not bad,
           "the list of selected cards is only ever appended to (initialised to [] only when none was supplied): earlier rounds' cards stay, in place",
           node=fn, strength="N", other_writes=bad)
    # append uniqueness
    apps = [c for c in walk_local(fn) if isinstance(c, ast.Call) and norm(c.func) == f"{lst}.append"]
    chk.need("C10.R1", len(apps), 1, "append to the list of selected cards")
    # snapshot sets of the earlier selection
    snaps = {}
    for st in fn.body:
        if isinstance(st, ast.Assign) and isinstance(st.targets[0], ast.Name) and st.lineno < w.lineno \
                and norm(st.value) in (f"set({lst})", f"frozenset({lst})", f"{{*{lst}}}"):
            snaps[st.targets[0].id] = st
    starts0 = [s for s in fn.body if isinstance(s, ast.Assign) and norm(s.targets[0]) == f["inx"] and s.lineno < w.lineno]
    start_ok = len(starts0) == 1 and norm(starts0[0].value) == "0"
    for k, a in enumerate(apps):
        val = norm(a.args[0])
        dominated = False
        for anc in ancestors(a):
            if anc is w:
                break
            if isinstance(anc, ast.If):
                in_body = any(x is a for s in anc.body for x in ast.walk(s))
                t = anc.test
                tests = t.values if isinstance(t, ast.BoolOp) and isinstance(t.op, ast.And) else [t]
                for tt in tests:
                    if isinstance(tt, ast.Compare) and len(tt.ops) == 1 and isinstance(tt.ops[0], ast.NotIn) and in_body:
                        if norm(tt.left) == val and norm(tt.comparators[0]) in set(snaps) | {lst}:
                            dominated = True
        chk.ob("C10.R1", where, "append-uniqueness", dominated and start_ok and val == f["card_index"],
               "the appended index is the current card of a walk that starts at position 0 with a strictly increasing index, and the "
               "append is dominated by a test that this index is not among the cards selected in earlier rounds: no card is selected twice",
               node=a, strength="N", appended=val, dominated_by_membership_test=dominated, walk_starts_at_0=start_ok,
               walk_start=norm(starts0[-1].value) if starts0 else None)
    # strictly increasing walk index and thresholds recomputed as in a fresh draw: C07.R1/R3
    chk.borrow(c07.r1, {"C07.R1": "C10.R1"}, f)
    f2 = c07.sampling_facts(chk)
    tmpf = {}
    def r23(c):
        c07.r2(c, f2)
        c07.r3(c, f2)
    chk.borrow(r23, {"C07.R3": "C10.R1"})
    # R2 sticky confirmation
    chk.borrow(c09.r_set_p_values, {"C09.R3": "C10.R2"})
    chk.borrow(c09.r_reset, {"C09.R5": "C10.R2"})
    # R3 overall == extremum under random order
    tfs = NR.facts(chk.idx)
    def r3(c):
        for name, tf in tfs.items():
            NR.rule_overall_matches_history(c, tf, "C11.R3")
    n = chk.borrow(r3, {"C11.R3": "C10.R3"})
    # only the random_order=True rows belong to C10 (the False rows are C11's, incl. K1)
    chk.obs = [o for o in chk.obs if not (o.rule == "C10.R3" and "random_order=False" in o.key)]
    chk.need("C10.R3", len([o for o in chk.obs if o.rule == "C10.R3"]), 6, "tests with an overall p-value")
    # R4 data order
    chk.borrow(c06.r4, {"C06.R4": "C10.R4"})
    chk.obs = [o for o in chk.obs if not (o.rule == "C10.R4" and o.key not in ("ascending-order", "aligned-pairs", "polling-data"))]
