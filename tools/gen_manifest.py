#!/usr/bin/env python3-vt
"""Regenerate /verif/MANIFEST.json from the META blocks of sa/props/cXX.py."""
import importlib
import json
import sys
from pathlib import Path

V = Path(__file__).resolve().parent.parent
sys.path.insert(0, str(V))

NOT_APPLICABLE = {
    "C15": "Optimality of RAIRE's assertion set is a minimum over exponentially many sets of assertions and depends "
           "on the interplay of diving, best-ancestor replacement and the running lower bound of a branch-and-bound "
           "search; no necessary-and-meaningful clause of it is visible in the shape of the code (the only "
           "structural facts in reach -- the lower bound only grows, difficulty decreases with the margin -- would "
           "not distinguish a wrong pruning test from a right one). Declined rather than faked with a runtime test.",
}

checks = []
na = []
for i in range(1, 21):
    pid = "C%02d" % i
    if pid in NOT_APPLICABLE:
        na.append({"property_id": pid, "reason": NOT_APPLICABLE[pid]})
        continue
    try:
        mod = importlib.import_module(f"sa.props.{pid.lower()}")
        meta = mod.META
    except (ModuleNotFoundError, AttributeError):
        na.append({"property_id": pid, "reason": "checker not built yet in this round (planned, see DESIGN.md section 4); "
                   "no claim is made until it exists"})
        continue
    checks.append({
        "property_id": pid,
        "quick_cmd": f"./check {pid} --tier quick",
        "thorough_cmd": f"./check {pid} --tier thorough",
        "evidence_file": f"/verif/evidence/{pid}.json",
        "replay_cmd_template": f"./check {pid} --replay {{path}}",
        "engine": "sa",
        "level_claimed": {"category": "other", "text": meta["text"], "design_ref": meta.get("design_ref", f"DESIGN.md section 4, {pid}")},
        "level_note": meta["note"],
        "technique": meta["technique"],
    })

man = {
    "version": 1,
    "setup_cmd": "python3-vt -c \"import sympy, networkx, jsonschema; import sa.main\"",
    "hooks": {
        "guard": "SHANGRLA_VERIF",
        "enable": "none needed: the checks are static (ast.parse of /repo/shangrla/**.py); no instrumentation exists",
        "baseline_off_cmd": "cd /repo && /venv/bin/python -m pytest -ra -q -p no:cacheprovider --timeout=900 --continue-on-collection-errors",
        "source_commits": [],
        "add_only": True,
    },
    "engines": [{
        "name": "sa",
        "path": "/verif/sa",
        "serves_properties": [c["property_id"] for c in checks],
        "kind_free_text": "repository-specific static analysis in Python (ast + sympy): resolved index of the program, "
                          "dependency-lag abstract interpretation of the NumPy dialect, AST->algebra translation with "
                          "exhaustive decision tables, structured-path/fold/effects rules, closure lint",
    }],
    "checks": checks,
    "not_applicable": na,
    "notes": "Static analysis only: no check imports or executes pbstark/SHANGRLA. Exit 0 = all obligations discharged "
             "(open known findings printed as KNOWN-FINDING lines), exit 1 = VIOLATION line(s), exit 2 = ANALYSIS-ERROR "
             "(cannot decide: anchor vanished / construct outside the modelled dialect). Thorough = quick + widened scope "
             "+ sensitivity self-test (mutants must fire, benign twins must not). Genuine defects repaired by 'fix:' "
             "commits in /repo and open findings are listed in /verif/known_findings.json.",
}
(V / "MANIFEST.json").write_text(json.dumps(man, indent=1) + "\n")
import jsonschema
jsonschema.validate(man, json.load(open("/root/.vp/MANIFEST.schema.json")))
print("MANIFEST.json written:", len(checks), "checks,", len(na), "not applicable")
