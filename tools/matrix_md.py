#!/usr/bin/env python3-vt
"""Print the catch matrix of /verif/seeded as a markdown table (from the meta.json files that tools/seed_matrix.py refreshes)."""
import json
from pathlib import Path

V = Path(__file__).resolve().parent.parent
rows = []
for d in sorted((V / "seeded").iterdir()):
    mf = d / "meta.json"
    if not mf.exists():
        continue
    m = json.loads(mf.read_text())
    f = ",".join(x.replace("shangrla/", "") for x in m.get("files", []))
    need = (m.get("needs_to_manifest") or "").replace("|", "/").replace("\n", " ")[:150]
    rows.append((d.name, f, ",".join(m.get("checks_raising_alarm", [])) or "—", ",".join(m.get("rules_fired", []))[:60] or "—",
                 "yes" if m.get("detected_by_own_property_check") else "no", need))
print("| seed | file | caught by | rules | own check | needs to manifest |")
print("|---|---|---|---|---|---|")
for r in rows:
    print("| " + " | ".join(r) + " |")
n = len(rows)
own = sum(1 for r in rows if r[4] == "yes")
some = sum(1 for r in rows if r[2] != "—")
print(f"\n{n} seeded changes; {own} reported by the check of their own property; {some} reported by at least one check.")
