#!/usr/bin/env python3-vt
"""Unit cases for aud.argument_mutations (the frame condition on arguments): each case is a small function and the set of
parameters it must / must not be reported to change.  Exit 1 on any disagreement."""
import ast
import sys
from pathlib import Path

sys.path.insert(0, str(Path(__file__).resolve().parent.parent))
from sa import aud  # noqa: E402

CASES = [
    ("direct method", "def f(a):\n    a.append(1)\n", {"a"}),
    ("alias", "def f(a):\n    b = a\n    b.clear()\n", {"a"}),
    ("element by loop", "def f(a):\n    for x in a:\n        x.pop('k', None)\n", {"a"}),
    ("element by comprehension", "def f(d, k):\n    bs = [v[k] for _, v in d.items() if k in v]\n    for b in bs:\n        b.pop(1, None)\n", {"d"}),
    ("element put into a local dict", "def f(log):\n    loc = {}\n    for k in log['c']:\n        loc[k] = log['c'][k]\n    one = loc['x']\n    one.pop('a', None)\n", {"log"}),
    ("asarray view, in place", "def f(s, first):\n    n = np.asarray(s)\n    n -= first\n    return n\n", {"s"}),
    ("out= argument", "def f(x):\n    np.minimum(x, 1, out=x)\n", {"x"}),
    ("attribute store on element", "def f(cs):\n    for c, con in cs.items():\n        con.size = 0\n", {"cs"}),
    ("mutable default written", "def f(k, into={}):\n    into.setdefault(k, 1)\n", {"into"}),
    # negatives
    ("copy first", "def f(a):\n    b = a.copy()\n    b.remove(1)\n", set()),
    ("copy in the other arm", "def f(a, c):\n    if c:\n        b = a['x'].copy()\n        b.remove(1)\n    else:\n        b = a['y']\n    return b\n", set()),
    ("fresh dicts of elements", "def f(bs):\n    seen = [dict(b) for b in bs]\n    for b in seen:\n        b.pop(1, None)\n", set()),
    ("fresh slot of a display", "def f(c, s):\n    tree = [c, []]\n    tree[1].append(s)\n    return tree\n", set()),
    ("re-bound to a fresh array", "def f(x):\n    x = np.array(x)\n    x[0] = 1\n    return x\n", set()),
    ("local accumulator", "def f(xs):\n    out = []\n    for x in xs:\n        out.append(x)\n    return out\n", set()),
    ("arithmetic makes a new object", "def f(x, y):\n    z = x + y\n    z[0] = 0\n", set()),
    ("loop variable re-used over a fresh list", "def f(bs):\n    for b in bs:\n        print(b)\n    mine = [dict(b) for b in bs]\n    for b in mine:\n        b.clear()\n", set()),
]
bad = 0
for name, src, want in CASES:
    t = ast.parse(src)
    for par in ast.walk(t):
        for ch in ast.iter_child_nodes(par):
            ch._parent = par
    got = {o for o, _txt, _nd in aud.argument_mutations(t.body[0])}
    ok = got == want
    bad += not ok
    print(f"{'ok  ' if ok else 'FAIL'} {name}: reported {sorted(got)} expected {sorted(want)}")
print(f"argument-effects unit cases: {len(CASES) - bad} ok, {bad} failed of {len(CASES)}")
sys.exit(1 if bad else 0)
