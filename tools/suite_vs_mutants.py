#!/usr/bin/env python3-vt
"""Development evidence (NOT a registered check): run the repository's pinned test
suite against every mutant of sa/mutants/*.py, to confirm that the existing tests
do not catch what the static rules catch.  Writes sa/mutants/SUITE-RESULTS.json."""
import importlib
import json
import os
import shutil
import subprocess
import sys
import tempfile
from concurrent.futures import ThreadPoolExecutor
from pathlib import Path

V = Path(__file__).resolve().parent.parent
sys.path.insert(0, str(V))
from sa.selftest import apply_variant  # noqa: E402


def run(item):
    pid, v = item
    d = Path(tempfile.mkdtemp(prefix=f"suite-{pid}-"))
    try:
        for sub in ("shangrla", "tests", "pyproject.toml"):
            src = Path("/repo") / sub
            if src.is_dir():
                shutil.copytree(src, d / sub, ignore=shutil.ignore_patterns("__pycache__", "*.json.big"), symlinks=True)
            else:
                shutil.copy(src, d / sub)
        # the Dominion/Hart tests read example data relative to the repo root
        if (Path("/repo") / "examples").exists():
            os.symlink("/repo/examples", d / "examples")
        why = apply_variant(d, v)
        if why is not None:
            return pid, v["id"], v["kind"], "not-applied", why[:100]
        env = dict(os.environ, PYTHONPATH=str(d))
        r = subprocess.run(["/venv/bin/python", "-m", "pytest", "-q", "-x", "-p", "no:cacheprovider", "--timeout=900"], cwd=d, env=env,
                           capture_output=True, text=True, timeout=1200)
        tail = r.stdout.strip().splitlines()[-1] if r.stdout.strip() else ""
        return pid, v["id"], v["kind"], "suite-passes" if r.returncode == 0 else "suite-fails", tail[:120]
    finally:
        shutil.rmtree(d, ignore_errors=True)


items = []
for i in range(1, 21):
    pid = "C%02d" % i
    try:
        mod = importlib.import_module(f"sa.mutants.{pid.lower()}")
    except ModuleNotFoundError:
        continue
    only = set(sys.argv[1:])
    if only and pid not in only:
        continue
    items += [(pid, v) for v in mod.VARIANTS]
with ThreadPoolExecutor(max_workers=12) as ex:
    res = list(ex.map(run, items))
out = {}
for pid, vid, kind, st, tail in res:
    out.setdefault(pid, []).append({"id": vid, "kind": kind, "suite": st, "tail": tail})
(V / "sa" / "mutants" / "SUITE-RESULTS.json").write_text(json.dumps(out, indent=1))
m = [r for r in res if r[2] == "mutant"]
print(f"{len(m)} mutants: {sum(1 for r in m if r[3]=='suite-passes')} survive the suite, {sum(1 for r in m if r[3]=='suite-fails')} are caught by it, "
      f"{sum(1 for r in m if r[3]=='not-applied')} not applied")
b = [r for r in res if r[2] == "benign"]
print(f"{len(b)} benign twins: {sum(1 for r in b if r[3]=='suite-passes')} pass the suite, {sum(1 for r in b if r[3]=='suite-fails')} fail")
for r in res:
    if (r[2] == "benign" and r[3] != "suite-passes") or r[3] == "not-applied":
        print("  !", r)
