#!/usr/bin/env python3-vt
"""Run every check against each behaviour-preserving refactoring patch<k>.diff in a directory (scratch copy of /repo with the patch).
A check that exits non-zero on such a patch is a false alarm (exit 1) or an undecided case (exit 2) to be analysed."""
import re
import subprocess
import sys
from pathlib import Path

V = Path(__file__).resolve().parent.parent
d = Path(sys.argv[1])
bad = 0
for p in sorted(d.glob("*patch*.diff")):
    r = subprocess.run([sys.executable, str(V / "tools" / "try_patch.py"), str(p)], cwd=V, capture_output=True, text=True)
    first = r.stdout.strip().splitlines()[0] if r.stdout.strip() else "?"
    fired = re.findall(r"\[(C\d\d) rc=(\d)\]", r.stdout)
    if "PATCH FAILED" in r.stdout:
        print(f"{p}: PATCH FAILED")
        continue
    if fired:
        bad += 1
        print(f"{p}: {sorted(set(fired))}")
        for l in r.stdout.splitlines()[1:]:
            print("   ", l[:330])
    else:
        print(f"{p}: silent")
sys.exit(1 if bad else 0)
