import sys, json, glob, os
pid=sys.argv[1]
prop=open(f'/tmp/seedwork/{pid}.txt').read()
wt=f'/tmp/wt8-{pid}'
out=f'/tmp/seed8-{pid}'
earlier=[]
for d in sorted(glob.glob(f'/verif/seeded/{pid}-*')):
    m=json.load(open(d+'/meta.json'))
    files=m.get('files') or m.get('file') or ''
    if isinstance(files,list): files=','.join(files)
    earlier.append(f"  - ({files}) {m.get('needs_to_manifest','')[:260]}")
earlier='\n'.join(earlier)
print(f"""You are helping to evaluate how well a Python library's behaviour is protected against regressions.

The library is pbstark/SHANGRLA (risk-limiting election audits: sequential supermartingale tests of assorter means, CVR sampling and phantoms, RAIRE IRV assertions). A private scratch git worktree of it is at {wt} (package directory `{wt}/shangrla`, tests in `{wt}/tests`). Work ONLY inside {wt} and write your results to {out}. Do not read or modify anything under /repo or /verif, and do not commit anything.

Here is a semantic property the library is supposed to satisfy:

{prop}
Earlier work already explored the following breaking changes for this property (described by what each needs in order to manifest); do NOT repeat them or close variants of them:
{earlier}

YOUR TASK: produce TWO different, small changes to the library source that look like ordinary, well-meant maintenance commits (performance, modernisation to NumPy 2 / pandas 3 idioms, robustness, API tidy-up, small feature) rather than slips, each with a plausible one-line commit message a reviewer would wave through. This round is about changes whose harm is NOT visible at any single site:
  * change 1 must be a pair of COOPERATING edits at two different sites (two functions, a constructor and a method, a producer and its consumer, a writer and a reader, a caller and a callee, a base class and a subclass, a module constant and its user) such that either edit alone would leave the property intact, but the two together break it -- e.g. a responsibility (a clamp, a sort, a copy, a validation, a normalisation, a default) is moved from one place to another and one path through the library no longer gets it; a convention (units, sign, inclusive/exclusive bound, 0- or 1-based index, key type, order) is changed consistently in most places but one consumer is left on the old convention;
  * change 2 must need a MULTI-STEP HISTORY to manifest: state that survives between calls on the same objects (a second round of the audit, a repeated call with different arguments, an object reused for two contests, an object that went through to_dict/from_dict or copy, a cache keyed too coarsely, an in-place modification of a caller's array or dict that only matters when the caller uses it again), or a particular order of operations by the caller that the documentation allows.
Each change must
  (a) break the property above for some input (say exactly which clause),
  (b) still byte-compile, and
  (c) still pass the complete existing test suite:  cd {wt} && PYTHONPATH={wt} /venv/bin/python -m pytest -q -p no:cacheprovider --timeout=900   (55 tests pass on the unchanged code; takes ~10 s).
The change should genuinely achieve what its commit message says for ordinary inputs, and break the property only for something specific -- an unusual but legitimate input, a boundary value, a second call on the same objects, a particular parameter combination, aliasing between arguments, dtype (integer versus float arrays), dict key order, duplicate entries, and the like. Do not just delete a feature or raise an exception. At least one of the edited sites of each change should be OUTSIDE the function(s) most obviously associated with the property: in a caller that combines results, a constructor or __init__, a serialisation routine (to_dict / from_dict / JSON encoders), a validator (check_* functions), a module under shangrla/formats/ or shangrla/raire/, a small helper used on the path, or a class attribute / module-level constant. The property must still break through the library's public entry points (your demo drives those). Prefer sites that the earlier changes listed above did not touch.

For each change k in {{1, 2}} deliver in {out}:
  * patch{{k}}.diff  -- output of `git -C {wt} diff` for that change alone (relative to the unchanged worktree; make the two patches independent of each other: create one, save it, `git -C {wt} checkout -- .`, then do the other);
  * demo{{k}}.py     -- a small self-contained program, run as `cd {wt} && PYTHONPATH={wt} /venv/bin/python {out}/demo{{k}}.py`, that exits 0 (prints PASS) on the UNCHANGED code and exits non-zero (prints FAIL and what went wrong) when patch{{k}} is applied; it should check the property itself on a concrete scenario (not the source text);
  * a section in {out}/NOTES.md: the commit message, which clause of the property breaks, at which function, what is needed for it to manifest, and the exact commands you ran with their outcomes (test suite with the patch: passed?; demo without patch: PASS?; demo with patch: FAIL?).
You MUST actually verify all three outcomes for each change before reporting. Leave the worktree clean (`git -C {wt} checkout -- .`) when done. Numpy 2.x, pandas 3.x and cryptorandom are available in /venv. Time is short: aim to finish BOTH within about 20 minutes of work; deliver each change as soon as it is verified (write its files before starting the next). If after honest effort you can only produce one valid change, deliver one and say so.

Final answer: a short summary (per change: commit message, file/function edited, one-line description of what breaks, and the three verification outcomes).""")
