import sys
pid=sys.argv[1]
prop=open(f'/tmp/seedwork/{pid}.txt').read()
wt=f'/tmp/wt-{pid}'
out=f'/tmp/seed-{pid}'
print(f"""You are helping to evaluate how well a Python library's behaviour is protected against regressions.

The library is pbstark/SHANGRLA (risk-limiting election audits: sequential supermartingale tests of assorter means, CVR sampling and phantoms, RAIRE IRV assertions). A private scratch git worktree of it is at {wt} (package directory `{wt}/shangrla`, tests in `{wt}/tests`). Work ONLY inside {wt} and write your results to {out}. Do not read or modify anything under /repo or /verif, and do not commit anything.

Here is a semantic property the library is supposed to satisfy:

{prop}
YOUR TASK: produce TWO different, small, realistic changes to the library source (the kind of slip, "simplification", refactoring error or off-by-one a developer could plausibly commit) at two DIFFERENT code sites, each of which
  (a) breaks the property above,
  (b) still byte-compiles, and
  (c) still passes the complete existing test suite:  cd {wt} && PYTHONPATH={wt} /venv/bin/python -m pytest -q -p no:cacheprovider --timeout=900   (55 tests pass on the unchanged code; takes ~10 s).
Prefer changes that need something specific to manifest -- an unusual input, a multi-step sequence of operations, a second round, a particular key order / parameter combination, or two cooperating sites that each look fine alone -- rather than changes that ordinary use would expose at once. Do not just delete a feature or raise an exception; the code should still look like a plausible implementation.

For each change k in {{1, 2}} deliver in {out}:
  * patch{{k}}.diff  -- output of `git -C {wt} diff` for that change alone (relative to the unchanged worktree; make the two patches independent of each other: create one, save it, `git -C {wt} checkout -- .`, then do the other);
  * demo{{k}}.py     -- a small self-contained program, run as `cd {wt} && PYTHONPATH={wt} /venv/bin/python {out}/demo{{k}}.py`, that exits 0 (prints PASS) on the UNCHANGED code and exits non-zero (prints FAIL and what went wrong) when patch{{k}} is applied; it should check the property itself on a concrete scenario (not the source text);
  * a section in {out}/NOTES.md: which clause of the property breaks, at which function, what is needed for it to manifest, and the exact commands you ran with their outcomes (test suite with the patch: passed?; demo without patch: PASS?; demo with patch: FAIL?).
You MUST actually verify all three outcomes for each change before reporting. Leave the worktree clean (`git -C {wt} checkout -- .`) when done. Numpy 2.x, pandas 3.x and cryptorandom are available in /venv. If after honest effort you can only produce one valid change, deliver one and say so.

Final answer: a short summary (per change: file/function edited, one-line description, and the three verification outcomes).""")
