#!/usr/bin/env python3-vt
"""Benign twin generator: alpha-rename every *local* variable (not parameters, not
globals, not attributes) of every function in shangrla/, write the result to a
scratch copy and run every check on it.  A check that changes its verdict depends
on the spelling of a local name -- a false alarm in waiting.

usage: tools/alpha_twin.py [ID ...]      (exit 0 iff every verdict is unchanged)"""
import ast
import builtins
import os
import shutil
import subprocess
import sys
import tempfile
from concurrent.futures import ThreadPoolExecutor
from pathlib import Path

V = Path(__file__).resolve().parent.parent
SUFFIX = "_rn"


class Scope(ast.NodeVisitor):
    """collect names bound in one function scope (not descending into nested scopes)"""

    def __init__(self):
        self.bound = set()
        self.globals = set()

    def generic_visit(self, node):
        if isinstance(node, (ast.FunctionDef, ast.AsyncFunctionDef, ast.Lambda, ast.ClassDef)) and getattr(self, "_root", None) is not node:
            if isinstance(node, (ast.FunctionDef, ast.ClassDef)):
                self.bound.add(node.name)
            return
        if isinstance(node, (ast.ListComp, ast.SetComp, ast.DictComp, ast.GeneratorExp)):
            # comprehension targets are local to the comprehension; walrus leaks out
            for n in ast.walk(node):
                if isinstance(n, ast.NamedExpr):
                    self.bound.add(n.target.id)
            return
        if isinstance(node, ast.Name) and isinstance(node.ctx, (ast.Store, ast.Del)):
            self.bound.add(node.id)
        if isinstance(node, (ast.Global, ast.Nonlocal)):
            self.globals |= set(node.names)
        if isinstance(node, ast.ExceptHandler) and node.name:
            self.bound.add(node.name)
        super().generic_visit(node)


def params_of(fn):
    a = fn.args
    ps = [x.arg for x in a.posonlyargs + a.args + a.kwonlyargs]
    if a.vararg:
        ps.append(a.vararg.arg)
    if a.kwarg:
        ps.append(a.kwarg.arg)
    return set(ps)


def rename_in(node, mapping, is_root=True):
    """rename Name nodes per mapping within this scope and in nested scopes where the name is free."""
    for child in ast.iter_child_nodes(node):
        if isinstance(child, (ast.FunctionDef, ast.AsyncFunctionDef, ast.Lambda)):
            ps = params_of(child)
            sc = Scope()
            sc._root = child
            if isinstance(child, ast.Lambda):
                sc.visit(child.body)
            else:
                for s in child.body:
                    sc.visit(s)
            inner = {k: v for k, v in mapping.items() if k not in ps and k not in sc.bound}
            # default values and decorators are evaluated in the enclosing scope
            for d in child.args.defaults + [x for x in child.args.kw_defaults if x is not None]:
                rename_expr(d, mapping)
            if isinstance(child, ast.Lambda):
                rename_in(child.body, inner) if not isinstance(child.body, ast.Name) else rename_expr(child.body, inner)
                if isinstance(child.body, ast.AST):
                    rename_expr(child.body, inner)
            else:
                for s in child.body:
                    rename_expr(s, inner, nested=True)
            continue
        if isinstance(child, (ast.ListComp, ast.SetComp, ast.DictComp, ast.GeneratorExp)):
            targets = set()
            for g in child.generators:
                for n in ast.walk(g.target):
                    if isinstance(n, ast.Name):
                        targets.add(n.id)
            inner = {k: v for k, v in mapping.items() if k not in targets}
            # the first iterable is evaluated in the enclosing scope (same mapping is fine: targets are not in it there)
            rename_in(child, inner)
            for n in ast.iter_child_nodes(child):
                pass
            continue
        if isinstance(child, ast.Name) and child.id in mapping:
            child.id = mapping[child.id]
        elif isinstance(child, ast.ExceptHandler) and child.name in mapping:
            child.name = mapping[child.name]
            rename_in(child, mapping)
        else:
            rename_in(child, mapping)


def rename_expr(node, mapping, nested=False):
    if isinstance(node, ast.Name):
        if node.id in mapping:
            node.id = mapping[node.id]
        return
    if isinstance(node, (ast.ListComp, ast.SetComp, ast.DictComp, ast.GeneratorExp)):
        targets = set()
        for g in node.generators:
            for n in ast.walk(g.target):
                if isinstance(n, ast.Name):
                    targets.add(n.id)
        mapping = {k: v for k, v in mapping.items() if k not in targets}
    if isinstance(node, (ast.FunctionDef, ast.AsyncFunctionDef, ast.Lambda)):
        holder = ast.Module(body=[node], type_ignores=[]) if not isinstance(node, ast.Lambda) else ast.Expression(body=node)
        rename_in(holder, mapping)
        return
    rename_in(node, mapping)


def process_function(fn, cls_names):
    ps = params_of(fn)
    sc = Scope()
    sc._root = fn
    for s in fn.body:
        sc.visit(s)
    bi = set(dir(builtins))
    local = {n for n in sc.bound if n not in ps and n not in sc.globals and n not in bi and not n.startswith("__")}
    mapping = {n: n + SUFFIX for n in local}
    for s in fn.body:
        rename_expr(s, mapping)
    return len(mapping)


def transform(src):
    tree = ast.parse(src)
    n = 0
    for node in ast.walk(tree):
        if isinstance(node, ast.ClassDef):
            for m in node.body:
                if isinstance(m, ast.FunctionDef):
                    n += process_function(m, set())
    for m in tree.body:
        if isinstance(m, ast.FunctionDef):
            n += process_function(m, set())
    return ast.unparse(tree), n


def main():
    ids = sys.argv[1:] or ["C%02d" % i for i in range(1, 21) if i != 15]
    d = Path(tempfile.mkdtemp(prefix="sa-alpha-"))
    try:
        shutil.copytree("/repo/shangrla", d / "shangrla", ignore=shutil.ignore_patterns("__pycache__"))
        total = 0
        for p in (d / "shangrla").rglob("*.py"):
            new, n = transform(p.read_text())
            compile(new, str(p), "exec")
            p.write_text(new)
            total += n
        print(f"alpha-renamed {total} local names under {d}")
        if os.environ.get("ALPHA_SUITE"):
            for sub in ("tests",):
                shutil.copytree(Path("/repo") / sub, d / sub, ignore=shutil.ignore_patterns("__pycache__"))
            r = subprocess.run(["/venv/bin/python", "-m", "pytest", "-q", "-p", "no:cacheprovider", "--timeout=900"], cwd=d,
                               env=dict(os.environ, PYTHONPATH=str(d)), capture_output=True, text=True)
            print("suite on the twin:", r.stdout.strip().splitlines()[-1])

        def run(pid):
            env = dict(os.environ, VERIF_REPO=str(d), VERIF_EVIDENCE_DIR=str(d / "ev" / pid))
            r = subprocess.run([sys.executable, "-m", "sa.main", pid], cwd=V, env=env, capture_output=True, text=True)
            return pid, r.returncode, [l for l in r.stdout.splitlines() if l.startswith(("REFUTED", "ANALYSIS-ERROR"))]

        with ThreadPoolExecutor(max_workers=16) as ex:
            res = list(ex.map(run, ids))
        bad = [(p, rc, ls) for p, rc, ls in res if rc != 0]
        for p, rc, ls in bad:
            print(f"[{p} rc={rc}]")
            for l in ls[:6]:
                print("   ", l[:260])
        print(f"{len(res) - len(bad)}/{len(res)} verdicts unchanged")
        return 1 if bad else 0
    finally:
        if not os.environ.get("ALPHA_KEEP"):
            shutil.rmtree(d, ignore_errors=True)


if __name__ == "__main__":
    sys.exit(main())
