#!/usr/bin/env python3-vt
"""Confirm an independently produced breaking change and file it under /verif/seeded/.

usage: tools/intake_seed.py <property id> <k> [--name <slug>] [--src /tmp/seed-<id>]
Expects <src>/patch<k>.diff and <src>/demo<k>.py.  In a fresh scratch worktree of /repo (removed afterwards):
  1. demo on the unchanged tree must exit 0
  2. patch applies, every touched file compiles
  3. the pinned test suite passes with the patch
  4. demo with the patch must exit non-zero
Then every check is run against a scratch copy with the patch (tools/try_patch.py) and the outcome is recorded in
/verif/seeded/<id>-<slug>/meta.json next to patch.diff and the demonstration."""
import argparse
import json
import os
import re
import shutil
import subprocess
import sys
import tempfile
from pathlib import Path

V = Path(__file__).resolve().parent.parent
ap = argparse.ArgumentParser()
ap.add_argument("pid")
ap.add_argument("k")
ap.add_argument("--name")
ap.add_argument("--src")
ap.add_argument("--needs", default="")
a = ap.parse_args()
src = Path(a.src or f"/tmp/seed-{a.pid}")
patch = src / f"patch{a.k}.diff"
demo = src / f"demo{a.k}.py"
assert patch.exists() and demo.exists(), (patch, demo)
wt = Path(tempfile.mkdtemp(prefix=f"verify-{a.pid}-")) / "wt"
res = {}


def sh(cmd, **kw):
    return subprocess.run(cmd, capture_output=True, text=True, **kw)


try:
    r = sh(["git", "-C", "/repo", "worktree", "add", "-q", "--detach", str(wt), "HEAD"])
    assert r.returncode == 0, r.stderr
    env = dict(os.environ, PYTHONPATH=str(wt))
    r = sh(["/venv/bin/python", str(demo)], cwd=wt, env=env, timeout=1800)
    res["demo_unpatched_rc"] = r.returncode
    res["demo_unpatched_tail"] = (r.stdout + r.stderr).strip().splitlines()[-3:]
    r = sh(["git", "-C", str(wt), "apply", str(patch)])
    res["patch_applies"] = r.returncode == 0
    if r.returncode != 0:
        res["patch_error"] = r.stderr[:300]
    else:
        files = sh(["git", "-C", str(wt), "diff", "--name-only"]).stdout.split()
        res["files"] = files
        res["compiles"] = all(sh(["/venv/bin/python", "-m", "py_compile", str(wt / f)]).returncode == 0 for f in files if f.endswith(".py"))
        r = sh(["/venv/bin/python", "-m", "pytest", "-q", "-p", "no:cacheprovider", "--timeout=900"], cwd=wt, env=env, timeout=3000)
        res["suite_rc"] = r.returncode
        res["suite_tail"] = r.stdout.strip().splitlines()[-1:] if r.stdout.strip() else []
        r = sh(["/venv/bin/python", str(demo)], cwd=wt, env=env, timeout=1800)
        res["demo_patched_rc"] = r.returncode
        res["demo_patched_tail"] = (r.stdout + r.stderr).strip().splitlines()[-4:]
finally:
    sh(["git", "-C", "/repo", "worktree", "remove", "--force", str(wt)])
    shutil.rmtree(wt.parent, ignore_errors=True)
valid = res.get("demo_unpatched_rc") == 0 and res.get("patch_applies") and res.get("compiles") and res.get("suite_rc") == 0 \
    and res.get("demo_patched_rc", 0) != 0
res["valid"] = bool(valid)
print(json.dumps(res, indent=1))
if not valid:
    print("NOT VALID: not filed")
    sys.exit(1)
r = sh([sys.executable, str(V / "tools" / "try_patch.py"), str(patch)], cwd=V)
print(r.stdout)
fired = re.findall(r"\[(C\d\d) rc=(\d)\] (REFUTED|ANALYSIS-ERROR)[ :]*(\S+)", r.stdout)
alarm = sorted({p for p, rc, kind, rule in fired if kind == "REFUTED"})
errors = sorted({p for p, rc, kind, rule in fired if kind == "ANALYSIS-ERROR"})
rules = sorted({rule for p, rc, kind, rule in fired if kind == "REFUTED"})
slug = a.name or f"seed{a.k}"
out = V / "seeded" / f"{a.pid}-{slug}"
out.mkdir(parents=True, exist_ok=True)
shutil.copy(patch, out / "patch.diff")
shutil.copy(demo, out / "demo.py")
if (src / "NOTES.md").exists():
    shutil.copy(src / "NOTES.md", out / "NOTES.md")  # the author's own account (covers both changes of the pair)
for extra in src.glob("*.py"):
    # helper modules the demonstration imports (harness, reference implementation): keep them next to it
    if not re.fullmatch(r"demo\d+\.py", extra.name) and f"import {extra.stem}" in demo.read_text() or f"from {extra.stem}" in demo.read_text():
        if not re.fullmatch(r"demo\d+\.py", extra.name):
            shutil.copy(extra, out / extra.name)
meta = {
    "property": a.pid,
    "origin": "independent sub-agent given only the property text and a scratch worktree",
    "needs_to_manifest": a.needs,
    "files": res.get("files"),
    "confirmed": {
        "demo_on_unchanged_tree": "exit 0",
        "suite_with_patch": (res.get("suite_tail") or [""])[0],
        "demo_with_patch": f"exit {res.get('demo_patched_rc')}: " + " | ".join(res.get("demo_patched_tail", []))[:300],
        "how": "tools/intake_seed.py: fresh `git worktree` of /repo HEAD under a temp dir, removed afterwards",
    },
    "checks_raising_alarm": alarm,
    "rules_fired": rules,
    "checks_with_analysis_error": errors,
    "detected_by_own_property_check": a.pid in alarm,
}
(out / "meta.json").write_text(json.dumps(meta, indent=1))
print("filed", out, "detected by", alarm, "analysis-errors", errors)
