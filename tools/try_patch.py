#!/usr/bin/env python3-vt
"""Apply a patch to a scratch copy of /repo/shangrla and run every check on it.

usage: tools/try_patch.py <patch.diff> [ID ...]
Prints, per check, exit code and the REFUTED lines.  The scratch copy lives in a
fresh temporary directory (outside /repo and /verif) and is removed afterwards."""
import os
import shutil
import subprocess
import sys
import tempfile
from concurrent.futures import ThreadPoolExecutor
from pathlib import Path

V = Path(__file__).resolve().parent.parent
patch = Path(sys.argv[1]).resolve()
ids = sys.argv[2:] or ["C%02d" % i for i in range(1, 21) if i != 15]
d = Path(tempfile.mkdtemp(prefix="sa-try-"))
try:
    shutil.copytree("/repo/shangrla", d / "shangrla", ignore=shutil.ignore_patterns("__pycache__"))
    r = subprocess.run(["patch", "-p1", "-s", "-i", str(patch)], cwd=d, capture_output=True, text=True)
    if r.returncode != 0:
        print("PATCH FAILED:", r.stdout, r.stderr)
        sys.exit(3)

    def run(pid):
        env = dict(os.environ, VERIF_REPO=str(d), VERIF_EVIDENCE_DIR=str(d / "ev" / pid))
        r = subprocess.run([sys.executable, "-m", "sa.main", pid], cwd=V, env=env, capture_output=True, text=True)
        return pid, r.returncode, [l for l in r.stdout.splitlines() if l.startswith(("REFUTED", "ANALYSIS-ERROR"))]

    with ThreadPoolExecutor(max_workers=16) as ex:
        res = list(ex.map(run, ids))
    fired = [(p, rc, ls) for p, rc, ls in res if rc != 0]
    print(f"{patch}: {len(fired)} check(s) raise an alarm: {[p for p, _, _ in fired]}")
    for p, rc, ls in fired:
        for l in ls:
            print(f"  [{p} rc={rc}] {l[:300]}")
finally:
    shutil.rmtree(d, ignore_errors=True)
