#!/usr/bin/env python3-vt
"""Re-run every check against every filed seeded change (/verif/seeded/*/patch.diff) and refresh meta.json + print the matrix.
usage: tools/seed_matrix.py [substring of the seed names to restrict to, e.g. w8seed]"""
import json
import re
import subprocess
import sys
from concurrent.futures import ThreadPoolExecutor
from pathlib import Path

V = Path(__file__).resolve().parent.parent
seeds = sorted(p for p in (V / "seeded").iterdir() if (p / "patch.diff").exists() and (len(sys.argv) < 2 or sys.argv[1] in p.name))


def run(d):
    r = subprocess.run([sys.executable, str(V / "tools" / "try_patch.py"), str(d / "patch.diff")], cwd=V, capture_output=True, text=True)
    out = r.stdout
    if "PATCH FAILED" in out:
        return d, None, None, None
    fired = re.findall(r"\[(C\d\d) rc=(\d)\] (REFUTED|ANALYSIS-ERROR)[ :]*(\S+)", out)
    alarm = sorted({p for p, rc, kind, rule in fired if kind == "REFUTED"})
    errs = sorted({p for p, rc, kind, rule in fired if kind == "ANALYSIS-ERROR"})
    rules = sorted({rule for p, rc, kind, rule in fired if kind == "REFUTED"})
    return d, alarm, errs, rules


with ThreadPoolExecutor(max_workers=4) as ex:
    res = list(ex.map(run, seeds))
for d, alarm, errs, rules in res:
    m = json.loads((d / "meta.json").read_text())
    if alarm is None:
        print(f"{d.name:22s} PATCH NO LONGER APPLIES")
        m["applies_to_current_tree"] = False
    else:
        m.update(checks_raising_alarm=alarm, rules_fired=rules, checks_with_analysis_error=errs,
                 detected_by_own_property_check=m["property"] in alarm, applies_to_current_tree=True)
        print(f"{d.name:22s} own={'Y' if m['property'] in alarm else '-'} alarm={','.join(alarm) or '-':24s} rules={','.join(rules)[:70]:70s} err={','.join(errs)}")
    (d / "meta.json").write_text(json.dumps(m, indent=1))
