#!/usr/bin/env python3-vt
"""Second automatic benign twin: every single-operator comparison `a < b` is mirrored to `b > a` (likewise <=, >=, ==, !=)
in all of shangrla/, and the operands of + and * are swapped in NonnegMean.py (pure numeric code).  Behaviour is unchanged
(the suite is run on the twin when FLIP_SUITE=1); every check must keep its verdict.

usage: tools/flip_twin.py [ID ...]"""
import ast
import os
import shutil
import subprocess
import sys
import tempfile
from concurrent.futures import ThreadPoolExecutor
from pathlib import Path

V = Path(__file__).resolve().parent.parent
MIRROR = {ast.Lt: ast.Gt, ast.Gt: ast.Lt, ast.LtE: ast.GtE, ast.GtE: ast.LtE, ast.Eq: ast.Eq, ast.NotEq: ast.NotEq}


class Flip(ast.NodeTransformer):
    def __init__(self, arith):
        self.arith = arith
        self.n = 0

    def visit_Compare(self, node):
        self.generic_visit(node)
        if len(node.ops) == 1 and type(node.ops[0]) in MIRROR:
            self.n += 1
            return ast.Compare(left=node.comparators[0], ops=[MIRROR[type(node.ops[0])]()], comparators=[node.left])
        return node

    def visit_BinOp(self, node):
        self.generic_visit(node)
        if self.arith and isinstance(node.op, (ast.Add, ast.Mult)):
            def stringy(n):
                return any(isinstance(x, (ast.JoinedStr,)) or (isinstance(x, ast.Constant) and isinstance(x.value, str)) for x in ast.walk(n))
            if not stringy(node.left) and not stringy(node.right):
                self.n += 1
                return ast.BinOp(left=node.right, op=node.op, right=node.left)
        return node


def main():
    ids = sys.argv[1:] or ["C%02d" % i for i in range(1, 21) if i != 15]
    d = Path(tempfile.mkdtemp(prefix="sa-flip-"))
    try:
        shutil.copytree("/repo/shangrla", d / "shangrla", ignore=shutil.ignore_patterns("__pycache__"))
        total = 0
        for p in (d / "shangrla").rglob("*.py"):
            tree = ast.parse(p.read_text())
            f = Flip(arith=p.name == "NonnegMean.py")
            tree = ast.fix_missing_locations(f.visit(tree))
            new = ast.unparse(tree)
            compile(new, str(p), "exec")
            p.write_text(new)
            total += f.n
        print(f"mirrored/swapped {total} expressions under {d}")
        if os.environ.get("FLIP_SUITE"):
            shutil.copytree("/repo/tests", d / "tests", ignore=shutil.ignore_patterns("__pycache__"))
            r = subprocess.run(["/venv/bin/python", "-m", "pytest", "-q", "-p", "no:cacheprovider", "--timeout=900"], cwd=d,
                               env=dict(os.environ, PYTHONPATH=str(d)), capture_output=True, text=True)
            print("suite on the twin:", r.stdout.strip().splitlines()[-1])

        def run(pid):
            env = dict(os.environ, VERIF_REPO=str(d), VERIF_EVIDENCE_DIR=str(d / "ev" / pid))
            r = subprocess.run([sys.executable, "-m", "sa.main", pid], cwd=V, env=env, capture_output=True, text=True)
            return pid, r.returncode, [l for l in r.stdout.splitlines() if l.startswith(("REFUTED", "ANALYSIS-ERROR"))]

        with ThreadPoolExecutor(max_workers=16) as ex:
            res = list(ex.map(run, ids))
        bad = [(p, rc, ls) for p, rc, ls in res if rc != 0]
        for p, rc, ls in bad:
            print(f"[{p} rc={rc}]")
            for l in ls[:8]:
                print("   ", l[:300])
        print(f"{len(res) - len(bad)}/{len(res)} verdicts unchanged")
        return 1 if bad else 0
    finally:
        if not os.environ.get("FLIP_KEEP"):
            shutil.rmtree(d, ignore_errors=True)


if __name__ == "__main__":
    sys.exit(main())
